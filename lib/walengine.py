"""Engine shared by the log-store properties (C01-C05, C08, C10, C13, C15, C20):
TLC generates workloads (WalContract), harness/drive runs them on the real code,
TLC expands the recorded I/O into crash images (DiskTrace), the harness forks
the execution at every image, TLC judges the observation trace (WalJudge)."""
import copy, json, os, random, time
from vlib import *

CONT_TEMPLATES = [
    [{"op": "store", "rel": True, "n": 2, "sz": [1, 1]}],
    [{"op": "store", "rel": True, "n": 1, "sz": [2]}],
    [{"op": "store", "rel": True, "n": 2, "sz": [1, 2]}],
    [{"op": "store", "rel": True, "n": 2, "sz": [2, 2]}],
    [{"op": "store", "rel": True, "n": 1, "sz": [1]}],
    [{"op": "store", "rel": True, "n": 2, "sz": [2, 1]}],
    [{"op": "store", "rel": True, "n": 1, "sz": [2]}, {"op": "store", "rel": True, "n": 1, "sz": [1]}],
    [{"op": "delete", "rel": True, "reldel": "tail1"}, {"op": "store", "rel": True, "n": 1, "sz": [1]}],
    [{"op": "delete", "rel": True, "reldel": "head1"}, {"op": "store", "rel": True, "n": 2, "sz": [1, 1]}],
    [{"op": "set", "key": 1, "val": 3}, {"op": "store", "rel": True, "n": 1, "sz": [1]}, {"op": "getk", "key": 1}],
    [{"op": "delete", "rel": True, "reldel": "all"}, {"op": "store", "rel": True, "n": 1, "sz": [1]}],
    # the caller's usual reaction to a failed append: the same indexes again (fault family; elsewhere a plain append)
    [{"op": "retry"}, {"op": "store", "rel": True, "n": 1, "sz": [1]}],
]


CHAIN_TEMPLATES = [0, 1, 2, 3, 4, 5]     # the append-only continuations (all batch shapes over sizes 1..2)


# ------------------------------------------------------------------ generation
def gen_workloads(consts, mode="simulate", num=50, seed=1, timeout=300, stats=None):
    """Operation sequences from WalContract.tla (BFS = all sequences of length MaxOps)."""
    consts = dict(consts)
    consts.setdefault("WithHuge", False)
    cfg = cfg_text(constants=consts, invariants=["TypeOK", "Bracket", "Emit"])
    if mode == "bfs":
        r = tlc("WalContract", cfg, timeout=timeout)
    else:
        r = tlc("WalContract", cfg, timeout=timeout, workers=1,
                simulate="num=%d" % num, depth=consts["MaxOps"] + 1, seed=seed)
    if r.error and r.error != "timeout":
        raise Inconclusive("WalContract generation failed: %s\n%s" % (r.error, r.out[-2000:]))
    if r.violated:
        raise Inconclusive("WalContract sanity invariant violated: %s\n%s" % (r.violated, r.out[-3000:]))
    hs = tlc_payloads(r, "SCEN")
    seen, out = set(), []
    for h in hs:
        k = json.dumps(h, sort_keys=True)
        if k not in seen:
            seen.add(k)
            out.append(h)
    if stats is not None:
        stats["gen_states"] = stats.get("gen_states", 0) + r.generated
        stats["gen_distinct"] = stats.get("gen_distinct", 0) + r.distinct
        stats["gen_wall"] = stats.get("gen_wall", 0) + r.wall
    return out


def make_jobs(workloads, family, geoms, codecs, seed, prefix="w", **kw):
    jobs = []
    n = 0
    for wi, h in enumerate(workloads):
        for g in geoms:
            for c in codecs:
                j = {"id": "%s%d" % (prefix, n), "family": family, "codec": c, "segSize": g, "seed": seed,
                     "steps": h}
                j.update(kw)
                jobs.append(j)
                n += 1
    return jobs


def corpus_jobs(pid):
    """Committed regression scenarios for a property (counterexamples found earlier)."""
    d = os.path.join(VERIF, "corpus", pid)
    out = []
    if os.path.isdir(d):
        for f in sorted(os.listdir(d)):
            if f.endswith(".json"):
                j = json.load(open(os.path.join(d, f)))
                j["id"] = "corpus-" + f[:-5]
                out.append(j)
    return out


# ------------------------------------------------------------------ execution
def run_jobs(jobs, wd, tag, need_io=False, timeout=3000):
    jp = os.path.join(wd, tag + ".jobs.ndjson")
    op = os.path.join(wd, tag + ".obs.ndjson")
    ip = os.path.join(wd, tag + ".io.ndjson")
    write_ndjson(jp, jobs)
    args = ["-jobs", jp, "-obs", op]
    if need_io:
        args += ["-io", ip]
    p = run_bin("walreplay", args, timeout=timeout, ok_codes=tuple(range(0, 256)))
    if p.returncode != 0:
        # the driver process died. If it was taken down by a panic inside raft-wal on one of the library's own goroutines
        # (the background rotation - nothing the driver can recover), that is an observation of the run in progress, not a
        # tool failure: the trace written so far is kept and ends with a panic event. Anything else is inconclusive.
        err = p.stderr or ""
        i = min([x for x in (err.find("panic:"), err.find("fatal error:")) if x >= 0] or [-1])
        head = err[i:i + 6000] if i >= 0 else ""
        frames = [l for l in head.splitlines() if l and not l.startswith(("\t", " ", "goroutine ", "panic:", "fatal error:", "[signal"))]
        first_lib = next((l for l in frames if "hashicorp/raft-wal" in l or "verif/harness" in l), "")
        if i < 0 or "hashicorp/raft-wal" not in first_lib or not os.path.exists(op):
            raise Inconclusive("walreplay exited %d: %s" % (p.returncode, (p.stderr or p.stdout)[-3000:]))
        good = []
        for l in open(op, errors="replace").read().split("\n"):
            try:
                json.loads(l)
                good.append(l)
            except Exception:
                pass
        msg = head.splitlines()[0][:300]
        good.append(json.dumps({"ev": "panic", "where": "library goroutine (the process died)", "msg": msg,
                                "metric": "invalid metric name" in msg, "stack": head[:1500]}))
        open(op, "w").write("\n".join(good) + "\n")
        log("walreplay was taken down by a panic on a library goroutine: %s" % msg)
        return op, (ip if need_io and os.path.exists(ip) else None), {"events": len(good), "forks": 0, "runs": sum(1 for l in good if l.startswith('{"ev":"reset"')),
                                                                      "jobs": len(jobs), "died": True}
    stats = json.loads(p.stdout.strip().splitlines()[-1])
    return op, (ip if need_io else None), stats


CHUNK_LINES = 20000     # TLC handles behaviours of at most 65535 states; DiskTrace takes up to ~2 steps per trace line


def _io_chunks(io_path, wd):
    """Split a recorded I/O trace at run boundaries ('reset' lines) into files of at most CHUNK_LINES lines."""
    chunks, cur, n = [], [], 0
    with open(io_path) as f:
        run = []
        for ln in f:
            if ln.startswith('{"ev":"reset"') and run:
                if cur and len(cur) + len(run) > CHUNK_LINES:
                    chunks.append(cur)
                    cur = []
                cur += run
                run = []
            run.append(ln)
        if run:
            if cur and len(cur) + len(run) > CHUNK_LINES:
                chunks.append(cur)
                cur = []
            cur += run
    if cur:
        chunks.append(cur)
    if len(chunks) <= 1:
        return [io_path]
    paths = []
    base = os.path.basename(io_path)
    for k, c in enumerate(chunks):
        p = os.path.join(wd, "%s.part%d" % (base, k))
        with open(p, "w") as f:
            f.writelines(c)
        paths.append(p)
    return paths


def expand_images(io_path, wd, max_exh=10, nrandom=48, timeout=2400, stats=None, want_per_run=None, rng=None):
    """TLC enumerates the crash images of every recorded run (spec/DiskTrace.tla); long recordings are validated in
    chunks of whole runs. The images are streamed; per run at most 8 x (the number that will be sampled) are kept
    (uniform reservoir), and a crash point whose per-file choices multiply beyond ProdCap = 4 x that number is enumerated
    in the structured one-file-at-a-time form (DiskTrace!Mixed) - a change that leaves whole files un-fsynced must not
    make the enumeration explode."""
    by = {}
    rng = rng or random.Random(1)
    want = want_per_run or 200
    keep_max = 8 * want
    cfg = cfg_text(constants={"TraceFile": "io.ndjson", "MaxExh": max_exh, "NRandom": nrandom, "ProdCap": max(64, 4 * want)},
                   invariants=["Emit"], post="Consumed")
    for part in _io_chunks(io_path, wd):
        local, seen, cnt = {}, {}, [0]

        def on_payload(ln):
            im = parse_payload(ln, "IMG")
            if im is None:
                return True
            cnt[0] += 1
            p = im["path"]
            k = seen.get(p, 0) + 1
            seen[p] = k
            lst = local.setdefault(p, [])
            if k <= keep_max:
                slot = len(lst)
                lst.append(None)
            else:
                slot = rng.randrange(k)
                if slot >= keep_max:
                    return True
            for f in ("keep", "len"):
                if isinstance(im[f], list):   # ToJson of an empty function
                    im[f] = {}
            lst[slot] = im
            return True

        r = tlc("DiskTrace", cfg, files={"io.ndjson": part}, timeout=timeout, on_payload=on_payload)
        if r.error or r.violated:
            raise Inconclusive("DiskTrace failed: %s %s\n%s" % (r.error, r.violated, r.errctx or r.out[-3000:]))
        for k, v in local.items():
            by.setdefault(k, []).extend(v)
        if stats is not None:
            stats["disk_states"] = stats.get("disk_states", 0) + r.generated
            stats["disk_distinct"] = stats.get("disk_distinct", 0) + r.distinct
            stats["disk_wall"] = stats.get("disk_wall", 0) + r.wall
            stats["images"] = stats.get("images", 0) + cnt[0]
            stats["disk_chunks"] = stats.get("disk_chunks", 0) + 1
        if part != io_path:
            os.unlink(part)
    return by


def _node(job, path):
    """Find the job/fork node addressed by path 'jobid/f1/f2'."""
    parts = path.split("/")
    node = job
    for p in parts[1:]:
        node = next(f for f in node.get("forks", []) if f["id"] == p)
    return node


def attach_forks(jobs, images_by_path, rng, max_per_run, cont_choice=None, expand_next=0, replicate=True):
    """Attach (a sample of) TLC's images as forks of the runs they belong to."""
    byid = {j["id"]: j for j in jobs}
    total = 0
    for path, imgs in sorted(images_by_path.items()):
        job = byid[path.split("/")[0]]
        node = _node(job, path)
        node["expand"] = False
        keyed = sorted(((json.dumps(im, sort_keys=True), im) for im in imgs), key=lambda t: t[0])
        imgs = [t[1] for t in keyed]
        if len(imgs) > max_per_run:
            # stratify by crash point so that every I/O boundary keeps some images; within a crash point prefer the
            # boundary subsets (one or two chunks persisted / one or two chunks missing): nearly complete and nearly
            # empty torn batches are the ones recovery has to tell apart
            by_at = {}
            for i, im in enumerate(imgs):
                by_at.setdefault(im["at"], []).append(i)
            quota = max(1, max_per_run // len(by_at))
            pick = []
            for at in sorted(by_at):
                l = by_at[at]
                nk = {i: sum(len(v) for v in imgs[i]["keep"].values()) for i in l}
                d = max(nk.values()) if nk else 0
                edge = [i for i in l if nk[i] in (1, 2, d - 1, d - 2) and d > 2]
                rest_ = [i for i in l if i not in set(edge)]
                rng.shuffle(edge)
                rng.shuffle(rest_)
                half = max(1, quota // 2)
                sel = edge[:half] + rest_[:quota - min(half, len(edge))]
                pick += sel[:quota]
            chosen = set(pick)
            rest = [i for i in range(len(imgs)) if i not in chosen]
            rng.shuffle(rest)
            pick += rest[:max(0, max_per_run - len(pick))]
            pick = sorted(pick[:max_per_run])
            imgs = [imgs[i] for i in pick]
        forks = []
        for k, im in enumerate(imgs):
            ch = {"at": im["at"], "keep": im["keep"], "len": im["len"], "creates": im["creates"],
                  "unlinks": im["unlinks"], "metaInc": im["metaInc"]}
            ci = cont_choice(path, k) if cont_choice else rng.randrange(len(CONT_TEMPLATES))
            forks.append({"id": "f%d" % k, "image": ch, "cont": copy.deepcopy(CONT_TEMPLATES[ci]),
                          "expand": False})
        # which forks get expanded one level deeper
        if expand_next > 0 and forks:
            nontriv = [f for f in forks if any(f["image"]["keep"].values())]
            # chains need torn remains behind the tail: prefer images that kept most but not all of a batch
            def _k(f):
                return sum(len(v) for v in f["image"]["keep"].values())
            dmax = {}
            for f in forks:
                dmax[f["image"]["at"]] = max(dmax.get(f["image"]["at"], 0), _k(f))
            near = [f for f in nontriv if dmax[f["image"]["at"]] > 2 and _k(f) in (dmax[f["image"]["at"]] - 1, dmax[f["image"]["at"]] - 2)]
            if job.get("chain") and replicate:
                # chains: every image of a multi-chunk write that lacks exactly one chunk is continued (cap 40 per run)
                one_short = [f for f in nontriv if dmax[f["image"]["at"]] > 3 and _k(f) == dmax[f["image"]["at"]] - 1]
                rng.shuffle(one_short)
                for f in one_short[:job.get("chainCap", 8)]:
                    f["expand"] = True
                    f["replicate"] = True
                nontriv = [f for f in nontriv if not f.get("expand")]
                near = [f for f in near if not f.get("expand")]
            if len(near) >= expand_next // 2 and expand_next >= 2:
                picked = rng.sample(near, expand_next // 2)
                for f in picked:
                    f["expand"] = True
                nontriv = [f for f in nontriv if f not in picked]
                expand_next_left = expand_next - len(picked)
            else:
                expand_next_left = expand_next
            pool = nontriv if nontriv else forks
            for f in rng.sample(pool, min(expand_next_left, len(pool))):
                f["expand"] = True
        if job.get("chain") and replicate:
            # chains of crash / recover / append (C02): every expanded image is continued with EVERY append shape,
            # so that the size relation between the torn batch and the next one is covered, not sampled
            extra = []
            for f in forks:
                if f.get("expand") and f.pop("replicate", False):
                    for ti in CHAIN_TEMPLATES:
                        if CONT_TEMPLATES[ti] != f["cont"]:
                            g = copy.deepcopy(f)
                            g["id"] = "%st%d" % (f["id"], ti)
                            g["cont"] = copy.deepcopy(CONT_TEMPLATES[ti])
                            extra.append(g)
            forks += extra
        node["forks"] = forks
        total += len(forks)
    return total


# ------------------------------------------------------------------ judge
def judge(obs_path, wd, timeout=1800, stats=None):
    cfg = cfg_text(constants={"TraceFile": "obs.ndjson"}, invariants=["TypeOK"], post="Accepted")
    r = tlc("WalJudge", cfg, files={"obs.ndjson": obs_path}, workers=1, timeout=timeout, heap="12g")
    if r.error or r.violated:
        raise Inconclusive("WalJudge did not accept the trace format: %s %s\n%s" % (r.error, r.violated, r.out[-3000:]))
    pl = tlc_payloads(r, "VIOL")
    if len(pl) != 1:
        raise Inconclusive("WalJudge printed no verdict\n" + r.out[-3000:])
    if stats is not None:
        stats["judge_states"] = stats.get("judge_states", 0) + r.generated
        stats["judge_wall"] = stats.get("judge_wall", 0) + r.wall
        stats["nobs"] = stats.get("nobs", 0) + pl[0]["nobs"]
    return pl[0]["v"]


LOG_CLAUSES = {"Lost", "Fabricated", "Phantom", "Stale", "FirstMismatch", "LastMismatch", "ReadError",
               "FirstError", "LastError", "StoreAcceptedIllegal", "StoreRejectedLegal", "DeleteAcceptedIllegal",
               "DeleteRejectedLegal", "DurableDiverged"}


def attribute(clause, ctx):
    """Which properties does a rejected observation violate? ctx: family, tag, inflight, trunc."""
    fam, tag = ctx["family"], ctx.get("tag")
    infl = ctx.get("inflight", "none")
    if clause.startswith("Metric_"):
        return {"C20"}
    if clause == "FormatMismatch":
        return {"C09"}
    if clause in ("StableMismatch", "GetKError", "SetFailed", "StableAliased"):
        return {"C08"} | ({"C10"} if fam == "fault" else set()) | ({"C03"} if fam == "crash" and clause == "SetFailed" else set())
    if clause in ("DirExtra", "DirMissing", "SegmentIDReused", "CreateCollision"):
        return {"C13"}
    if tag == "size":
        return {"C15"}
    if tag == "codec":
        return {"C12"}
    if fam == "fault":
        return {"C10"}
    if fam == "seq":
        if clause == "OpenFailed":
            return {"C05", "C03"}
        return {"C05"}
    # crash family
    if clause == "Lost":
        return {"C01"} | ({"C04"} if (infl == "delete" or ctx.get("trunc")) else set())
    if clause in ("Fabricated", "Phantom", "Stale"):
        return {"C02"} | ({"C04"} if ctx.get("trunc") else set())
    if clause in ("FirstMismatch", "LastMismatch"):
        return {"C04"} if infl == "delete" else {"C01", "C02"}
    if clause in ("ReadError", "FirstError", "LastError"):
        # an entry that must be present is unreadable; after a truncation this also means the
        # truncation did not leave exactly the old or the new log (C04)
        return {"C01", "C02"} | ({"C04"} if (infl == "delete" or ctx.get("trunc")) else set())
    if clause == "OpenFailed":
        return {"C03", "C01"} | ({"C04"} if infl == "delete" else set())
    if clause in ("StoreRejectedLegal", "DeleteRejectedLegal", "CloseFailed", "Panic"):
        return {"C03"}
    if clause in ("StoreAcceptedIllegal", "DeleteAcceptedIllegal", "DurableDiverged"):
        return {"C02"}
    return {"C05"}


def index_obs(obs_path, want):
    """context of the trace lines in `want` (1-based, as the judge counts): one streaming pass, only reset / crash
    lines and the wanted lines are parsed (traces have millions of lines in the thorough tier)."""
    out = {}
    job = fork = fam = tag = None
    infl = "none"
    ncrash = 0
    with open(obs_path) as f:
        for n, ln in enumerate(f, 1):
            if ln.startswith('{"ev":"reset"') or '"ev":"reset"' in ln[:40]:
                e = json.loads(ln)
                job, fam, fork, infl, ncrash = e["id"], e["family"], None, "none", 0
                tag = e.get("tag")
            elif '"ev":"crash"' in ln:
                e = json.loads(ln)
                fork, infl = e["fork"], e["op"].get("ev", "none")
                ncrash = fork.count("/")
            if n in want:
                out[n] = (job, fork, fam, tag, infl, ncrash, json.loads(ln))
    return out


def classify(viols, obs_path):
    ctx = index_obs(obs_path, {v["line"] for v in viols})
    out = []
    for v in viols:
        job, fork, fam, tag, infl, ncrash, e = ctx[v["line"]]
        c = {"family": fam, "tag": tag, "inflight": infl, "ncrash": ncrash, "trunc": bool(v.get("trunc"))}
        out.append({"line": v["line"], "clause": v["clause"], "job": job, "fork": fork, "family": fam,
                    "tag": tag, "inflight": infl, "ncrash": ncrash, "event": e,
                    "props": None, "_ctx": c})
    return out


def prune_job(job, fork_path):
    """Copy of job keeping only the forks along fork_path (for replay files)."""
    j = copy.deepcopy(job)
    j["expand"] = False
    if not fork_path:
        j["forks"] = []
        return j
    parts = fork_path.split("/")[1:]
    node = j
    for p in parts:
        nxt = [f for f in node.get("forks", []) if f["id"] == p]
        node["forks"] = nxt
        if not nxt:
            break
        node = nxt[0]
        node["expand"] = False
    else:
        node["forks"] = []
    return j


def has_tail_trunc(job, fork_path):
    def steps_of(node):
        return node.get("steps", []) + node.get("cont", [])
    nodes = [job]
    if fork_path:
        node = job
        for p in fork_path.split("/")[1:]:
            nxt = [f for f in node.get("forks", []) if f["id"] == p]
            if not nxt:
                break
            node = nxt[0]
            nodes.append(node)
    for n in nodes:
        for s in steps_of(n):
            if s.get("op") == "delete":
                return True
    return False


IO_ATTR = {"IdBeforeFile": ["C01", "C03", "C13"], "UnlinkAfterCommit": ["C01", "C04", "C13"],
           "NextAboveIds": ["C13"], "NextDecreased": ["C13"], "AckSynced": ["C01"]}


def io_order(io_path, wd, stats):
    """Validate the recorded VFS/MetaStore call order against spec/WalIoTrace.tla (binding of WalImpl's ordering)."""
    cfg = cfg_text(constants={"TraceFile": "io.ndjson"}, post="Accepted")
    r = tlc("WalIoTrace", cfg, files={"io.ndjson": io_path}, workers=1, timeout=900, heap="8g")
    if r.error or r.violated:
        raise Inconclusive("WalIoTrace did not accept the trace format: %s %s\n%s" % (r.error, r.violated, r.out[-3000:]))
    pl = tlc_payloads(r, "VIOL")
    if len(pl) != 1:
        raise Inconclusive("WalIoTrace printed no verdict\n" + r.out[-2000:])
    stats["io_calls_validated"] = stats.get("io_calls_validated", 0) + pl[0]["nobs"]
    stats["judge_states"] = stats.get("judge_states", 0) + r.generated
    if not pl[0]["v"]:
        return []
    lines = open(io_path).read().splitlines()
    out = []
    for v in pl[0]["v"]:
        i = v["line"] - 1
        k = i
        while k >= 0 and '"ev":"reset"' not in lines[k]:
            k -= 1
        path = json.loads(lines[k])["path"] if k >= 0 else "?"
        out.append({"clause": v["clause"], "path": path, "event": json.loads(lines[i])})
    return out


def io_grammar(io_path, wd, stats):
    """Drift detector: the recorded call sequences vs the action order of spec/WalImpl.tla (spec/WalIoGrammar.tla).
    Drift is reported in the evidence (impl_drift), never as a violation."""
    cfg = cfg_text(constants={"TraceFile": "io.ndjson"}, post="Accepted")
    r = tlc("WalIoGrammar", cfg, files={"io.ndjson": io_path}, workers=1, timeout=900, heap="8g")
    if r.error or r.violated:
        stats.setdefault("impl_drift_kinds", []).append("grammar check failed: %s %s" % (r.error, r.violated))
        return
    pl = tlc_payloads(r, "DRIFT")
    if len(pl) != 1:
        return
    stats["io_calls_grammar"] = stats.get("io_calls_grammar", 0) + pl[0]["nobs"]
    stats["impl_drift"] = stats.get("impl_drift", 0) + len(pl[0]["v"])
    kinds = set(stats.get("impl_drift_kinds", []))
    for v in pl[0]["v"]:
        kinds.add("%s@%s:%s" % (v["op"], v["state"], v["why"]))
    stats["impl_drift_kinds"] = sorted(kinds)[:20]


def impl_trace(io_path, wd, stats):
    """Stateful conformance of the recorded I/O with the engine's state machine (spec/WalImplTrace.tla): the metadata the
    real code commits is the SegOps transaction of the call in progress applied to the last committed metadata, files are
    created / unlinked / opened / written as that metadata says, the reported log bounds are the contract's. A mismatch is
    reported in the evidence (impl_drift), never as a violation."""
    for part in _io_chunks(io_path, wd):
        cfg = cfg_text(constants={"TraceFile": "io.ndjson"}, post="Accepted")
        r = tlc("WalImplTrace", cfg, files={"io.ndjson": part}, workers=1, timeout=900, heap="8g")
        if r.error or r.violated:
            stats.setdefault("impl_drift_kinds", []).append("WalImplTrace failed: %s %s" % (r.error, r.violated))
            stats["impl_trace_error"] = (r.errctx or r.out)[1300:3300]
            return
        pl = tlc_payloads(r, "IMPLTRACE")
        if len(pl) != 1:
            return
        c = stats.setdefault("impl_trace_clause_evaluations", {})
        for k, v in pl[0]["cnt"].items():
            c[k] = c.get(k, 0) + v
        stats["impl_trace_states"] = stats.get("impl_trace_states", 0) + r.generated
        stats["impl_drift"] = stats.get("impl_drift", 0) + len(pl[0]["v"])
        if pl[0]["v"]:
            lines = open(part).read().splitlines()
            kinds = set(stats.get("impl_drift_kinds", []))
            sm = stats.setdefault("impl_drift_samples", [])
            for v in pl[0]["v"]:
                kinds.add("WalImplTrace:" + v["clause"])
                if len(sm) < 5:
                    i = v["line"] - 1
                    k = i
                    while k >= 0 and '"ev":"reset"' not in lines[k]:
                        k -= 1
                    e = json.loads(lines[i])
                    sm.append({"clause": v["clause"], "run": json.loads(lines[k]).get("path") if k >= 0 else "?",
                               "event": {kk: e[kk] for kk in ("seq", "call", "name", "ids", "next", "segs", "ares", "afirst", "alast") if kk in e}})
            stats["impl_drift_kinds"] = sorted(kinds)[:30]


class Engine:
    """One check run: collects stats, violations per property, evidence samples."""

    def __init__(self, pid, tier, seed):
        self.pid, self.tier, self.seed = pid, tier, seed
        self.wd = scratch("verif-%s-" % pid)
        self.stats = {}
        self.rng = random.Random(seed)
        self.viols = []       # classified violations (all properties)
        self.samples = []
        self.t0 = time.time()
        self.forks = 0
        self.nontrivial = set()
        self.evals = 0
        self.traces = 0
        self.jobs_by_id = {}

    def crash_rounds(self, jobs, depth, per_run, expand_next, max_exh=10, nrandom=48, tag="c", extra_final=()):
        """depth rounds of: run -> record I/O -> TLC crash images -> attach forks."""
        for j in jobs:
            j["expand"] = True
            self.jobs_by_id[j["id"]] = j
        for lvl in range(depth):
            t0 = time.time()
            obs, io, st = run_jobs(jobs, self.wd, "%s%d" % (tag, lvl), need_io=True)
            t1 = time.time()
            io_grammar(io, self.wd, self.stats)
            impl_trace(io, self.wd, self.stats)
            if lvl == 0:
                for v in io_order(io, self.wd, self.stats):
                    job = self.jobs_by_id.get(v["path"].split("/")[0])
                    self.viols.append({"line": 0, "clause": v["clause"], "job": v["path"], "fork": None, "family": "crash",
                                       "tag": None, "inflight": "none", "ncrash": 0,
                                       "event": {"msg": "%s %s" % (v["event"].get("call"), v["event"].get("name"))},
                                       "props": IO_ATTR.get(v["clause"], ["C01"]), "replay_job": prune_job(job, None) if job else {}})
            by = expand_images(io, self.wd, max_exh=max_exh, nrandom=nrandom, stats=self.stats,
                               want_per_run=per_run[min(lvl, len(per_run) - 1)], rng=self.rng)
            t2 = time.time()
            en = expand_next if isinstance(expand_next, (list, tuple)) else [expand_next]
            n = attach_forks(jobs, by, self.rng, per_run[min(lvl, len(per_run) - 1)],
                             expand_next=(en[min(lvl, len(en) - 1)] if lvl + 1 < depth else 0), replicate=(lvl == 0))
            log("level %d: %d runs expanded, %d images, %d forks attached (run %.1fs, tlc %.1fs, attach %.1fs)" % (
                lvl, len(by), sum(map(len, by.values())), n, t1 - t0, t2 - t1, time.time() - t2))
        return self.final(list(jobs) + list(extra_final), tag)

    def lockstep(self, jobs, tag="lock", grammar=True):
        """Lock-step conformance (DESIGN.md 4.2): the jobs are run once more with I/O recording and the recorded calls,
        committed metadata and reported bounds are validated against spec/WalImplTrace.tla (drift only, no verdict)."""
        import copy
        js = []
        for j in jobs:
            c = copy.deepcopy(j)
            c["expand"] = True
            c["forks"] = []
            js.append(c)
        t0 = time.time()
        _, io, st = run_jobs(js, self.wd, tag, need_io=True)
        if grammar:
            io_grammar(io, self.wd, self.stats)      # (the call-order grammar knows nothing about injected failures)
        impl_trace(io, self.wd, self.stats)
        self.stats["lockstep_runs"] = self.stats.get("lockstep_runs", 0) + st["runs"]
        log("lock-step: %d runs validated against WalImplTrace in %.1fs, drift %d" % (st["runs"], time.time() - t0, self.stats.get("impl_drift", 0)))

    def final(self, jobs, tag="c"):
        for j in jobs:
            self.jobs_by_id[j["id"]] = j
        t0 = time.time()
        obs, _, st = run_jobs(jobs, self.wd, tag + "final")
        log("final run: %d forks, %d events in %.1fs" % (st["forks"], st["events"], time.time() - t0))
        self.forks += st["forks"]
        self.evals += st["runs"] + st["forks"]
        self.traces += st["runs"] + st["forks"]
        self.stats["events"] = self.stats.get("events", 0) + st["events"]
        t0 = time.time()
        vs = judge(obs, self.wd, stats=self.stats)
        log("judge: %.1fs, %d rejected observations" % (time.time() - t0, len(vs)))
        cl = classify(vs, obs)
        for c in cl:
            job = self.jobs_by_id[c["job"]]
            c["props"] = sorted(attribute(c["clause"], c["_ctx"]))
            c["replay_job"] = prune_job(job, c["fork"])
        self.viols += cl
        # distinct non-trivial crash images, measured from the trace
        with open(obs) as f:
            for ln in f:
                if ln.startswith('{"at"') or '"ev":"crash"' in ln:
                    e = json.loads(ln)
                    if e.get("ev") == "crash" and not e.get("trivial", True):
                        self.nontrivial.add(e.get("hash"))
        if len(self.samples) < 3 and jobs:
            j = jobs[0]
            s = {"job": j["id"], "family": j["family"], "segSize": j["segSize"], "codec": j["codec"],
                 "steps": j["steps"][:6]}
            if j.get("forks"):
                s["first_fork"] = {k: j["forks"][0][k] for k in ("image", "cont")}
            self.samples.append(s)
        return cl
