import argparse, json, os, sys, time, traceback
import vlib
from vlib import Inconclusive, log


def registry():
    import checks_wal
    reg = {}
    reg.update(checks_wal.CHECKS)
    for mod in ("checks_conc", "checks_fs", "checks_verifier", "checks_migrate", "checks_corrupt", "checks_misc"):
        try:
            m = __import__(mod)
            reg.update(getattr(m, "CHECKS", {}))
        except ImportError:
            pass
        except Exception as e:   # a broken module must not take the other checks down
            log("module %s failed to load: %r" % (mod, e))
    return reg


def main(argv):
    ap = argparse.ArgumentParser()
    ap.add_argument("id")
    ap.add_argument("path", nargs="?")
    ap.add_argument("--tier", default=os.environ.get("VERIF_TIER", "quick"))
    a = ap.parse_args(argv)
    seed = vlib.seed_of()
    reg = registry()
    try:
        if a.id == "replay":
            import replay
            return replay.replay(a.path)
        if a.id not in reg:
            print("unknown property", a.id)
            return 2
        return reg[a.id](a.id, a.tier, seed)
    except Inconclusive as e:
        print("INCONCLUSIVE property=%s %s" % (a.id, str(e)[:6000]))
        return 2
    except Exception:
        traceback.print_exc()
        print("INCONCLUSIVE property=%s internal error" % a.id)
        return 2
