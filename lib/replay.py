"""check replay <path>: re-execute a saved scenario on the current tree and re-judge it."""
import json, os
import vlib
from vlib import *
import walengine as we


def replay(path):
    r = json.load(open(path))
    pid = r.get("property", "?")
    kind = r.get("kind", "wal")
    if kind != "wal":
        import importlib
        mod = importlib.import_module(r["module"])
        return mod.replay(r)
    job = r["job"]
    if isinstance(job, dict) and job.get("conc_scenario"):
        # a concurrency scenario recorded by a log-store check (C08 / C13 concurrent stages)
        import checks_conc
        sc = job["conc_scenario"]
        build(["concdrive"])
        wd = scratch("verif-replay-")
        trace, races, _ = checks_conc.run_conc([sc], wd, "replay")
        if sc.get("mode") == "stablesched":
            vs = [{"clause": v["clause"], "event": json.loads(open(trace).read().splitlines()[v["line"] - 1])}
                  for v in checks_conc.stable_judge(trace, wd, {})]
        else:
            vs = checks_conc.locate(trace, checks_conc.judge(trace, wd, {}))
        for v in vs:
            print("rejected:", v["clause"], json.dumps(v["event"])[:300])
        if vs:
            print("VIOLATION property=%s replay=%s" % (pid, path))
            return 1
        print("OK property=%s (scenario no longer violates it; concurrency scenarios may need several attempts)" % pid)
        return 0
    build(["walreplay"])
    eng = we.Engine(pid, "quick", seed_of())
    job["soft"] = False
    cl = eng.final([job], "replay")
    mine = [v for v in cl if pid in v["props"]]
    for v in cl:
        print("rejected: line=%d clause=%s props=%s event=%s" % (v["line"], v["clause"], ",".join(v["props"]), json.dumps(v["event"])))
    if mine:
        print("VIOLATION property=%s replay=%s" % (pid, path))
        return 1
    print("OK property=%s (scenario no longer violates it)" % pid)
    return 0
