"""check replay <path>: re-execute a saved scenario on the current tree and re-judge it."""
import json, os
import vlib
from vlib import *
import walengine as we


def replay(path):
    r = json.load(open(path))
    pid = r.get("property", "?")
    kind = r.get("kind", "wal")
    if kind != "wal":
        import importlib
        mod = importlib.import_module(r["module"])
        return mod.replay(r)
    build(["walreplay"])
    eng = we.Engine(pid, "quick", seed_of())
    job = r["job"]
    job["soft"] = False
    cl = eng.final([job], "replay")
    mine = [v for v in cl if pid in v["props"]]
    for v in cl:
        print("rejected: line=%d clause=%s props=%s event=%s" % (v["line"], v["clause"], ",".join(v["props"]), json.dumps(v["event"])))
    if mine:
        print("VIOLATION property=%s replay=%s" % (pid, path))
        return 1
    print("OK property=%s (scenario no longer violates it)" % pid)
    return 0
