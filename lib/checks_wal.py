"""Checks for the log-store properties decided by WalContract/DiskTrace/WalJudge."""
import json, os, re, time
import vlib
from vlib import *
import walengine as we

ASSUME_COMMON = [
    "bbolt transactions are atomic and durable once Commit returns (metadata store modelled as atomic commits)",
    "a crash leaves each un-fsynced 8-byte chunk either old or new (no garbage), per README assumption and property C01's quantifier",
    "CRC-32C / content ids: distinct submitted entries have distinct bytes (the harness makes them so)",
    "harness/sim implements spec/DiskTrace.tla's crash model; C07 checks that the production fs/ layer provides it",
]


def msgclass(e):
    m = e.get("msg", "") or ""
    m = re.sub(r"[0-9a-fx]{6,}", "N", m)
    m = re.sub(r"\d+", "N", m)
    return m[:80]


def signature(v):
    return {"clause": v["clause"], "family": v["family"], "inflight": v["inflight"],
            "msg": msgclass(v["event"]), "crashes": min(v["ncrash"], 3)}


def verdict(eng, pid, level, rule, extra_cov=None, assumptions=None, exhaustive=False):
    """Turn the engine's classified violations into exit code + evidence."""
    mine = [v for v in eng.viols if pid in v["props"]]
    others = [v for v in eng.viols if pid not in v["props"]]
    groups = {}
    for v in mine:
        groups.setdefault(json.dumps(signature(v), sort_keys=True), []).append(v)
    known, viol_paths = [], []
    for k, vs in sorted(groups.items()):
        sig = json.loads(k)
        f = match_finding(pid, sig)
        rp = save_replay(pid, {"property": pid, "signature": sig, "count": len(vs), "clause": vs[0]["clause"],
                               "event": vs[0]["event"], "job": vs[0]["replay_job"]})
        if f:
            known.append("%s (%d occurrences; e.g. replay=%s)" % (f["what"], len(vs), rp))
        else:
            viol_paths.append(rp)
            log("VIOLATION", pid, sig, "x%d" % len(vs), rp)
    st = eng.stats
    cov = {
        "states": max(1, st.get("gen_distinct", 0) + st.get("disk_distinct", 0) + st.get("judge_states", 0) + st.get("design_distinct", 0)),
        "transitions": max(1, st.get("gen_states", 0) + st.get("disk_states", 0) + st.get("judge_states", 0) + st.get("design_states", 0)),
        "traces_validated_against_impl": eng.traces,
        "evaluations": eng.evals,
        "distinct_nontrivial": len(eng.nontrivial) if eng.nontrivial else st.get("distinct_seq", 0),
        "rule": rule,
        "samples": eng.samples[:3] or [{"note": "no sample"}],
        "exhaustive": exhaustive,
        "observations_judged": st.get("nobs", 0),
        "trace_events": st.get("events", 0),
        "tlc": {k: (round(v, 2) if isinstance(v, float) else v) for k, v in st.items()},
        "other_property_rejections": len(others),
        "other_property_rejection_kinds": sorted({"%s:%s" % ("/".join(v["props"]), v["clause"]) for v in others})[:20],
        "known_findings_hit": len(known),
    }
    if extra_cov:
        cov.update(extra_cov)
    write_evidence(pid, eng.tier, eng.seed, level, cov, (assumptions or ASSUME_COMMON), time.time() - eng.t0,
                   len(viol_paths))
    return finish(pid, viol_paths, known)


# ---------------------------------------------------------------------------
# crash family: C01 C02 C03 C04 C13
CRASH_PROFILES = {
    # MaxOps, nworkloads(quick, thorough), geoms, per_run, expand_next, depth(quick, thorough)
    "C01": dict(consts=dict(MaxIdx=7, Starts={1, 3}, MaxBatch=2, Sizes={1, 2}, MaxOps=5, Keys={1}, Vals={0, 2},
                            WithBad=False, WithReopen=True, WithStable=False, MinOps=5),
                n=(6, 40), geoms=((64, 128), (64, 96, 128, 512)), per_run=((300, 40), (3000, 200)),
                expand_next=(4, 30), depth=(2, 3), bin_jobs=(2, 10)),
    "C02": dict(consts=dict(MaxIdx=6, Starts={1}, MaxBatch=2, Sizes={1, 2}, MaxOps=3, Keys={1}, Vals={0, 2},
                            WithBad=False, WithReopen=False, WithStable=False, MinOps=3),
                n=(5, 30), geoms=((512,), (128, 512)), per_run=((200, 120, 40), (2000, 400, 200)),
                expand_next=(6, 40), depth=(3, 3), bin_jobs=(1, 6), chain=True),
    "C03": dict(consts=dict(MaxIdx=7, Starts={1, 4}, MaxBatch=2, Sizes={1, 2}, MaxOps=4, Keys={1}, Vals={0, 2},
                            WithBad=False, WithReopen=True, WithStable=False, MinOps=4),
                n=(6, 40), geoms=((64, 96), (64, 96, 128)), per_run=((300, 40), (3000, 200)),
                expand_next=(4, 30), depth=(2, 3), bin_jobs=(2, 10)),
    "C04": dict(consts=dict(MaxIdx=6, Starts={1}, MaxBatch=2, Sizes={1}, MaxOps=5, Keys={1}, Vals={0, 2},
                            WithBad=False, WithReopen=False, WithStable=False, MinOps=5),
                n=(8, 50), geoms=((64, 96), (64, 96, 160)), per_run=((300, 40), (3000, 200)),
                expand_next=(4, 30), depth=(2, 3), bin_jobs=(2, 10), need_delete=True),
}
CRASH_PROFILES["C13"] = dict(CRASH_PROFILES["C04"])

RULE_CRASH = ("workloads = operation sequences generated by TLC from spec/WalContract.tla; each is executed on the real "
              "WAL over harness/sim; TLC (spec/DiskTrace.tla) enumerates crash images of the recorded I/O (every I/O "
              "boundary x subsets of un-fsynced 8-byte chunks x pending dir ops x durable lengths; exhaustive up to "
              "MaxExh dirty chunks, structured+random subsets above); each image = one evaluation: real Open + probe + "
              "continuation + reopen, judged by spec/WalJudge.tla. distinct_nontrivial = images with pairwise different "
              "content hash that are neither 'nothing pending persisted' nor 'everything pending persisted'")


def gen_crash_workloads(prof, ti, seed, stats):
    consts = dict(prof["consts"])
    want = prof["n"][ti]
    hs = we.gen_workloads(consts, mode="simulate", num=want * 12, seed=seed, stats=stats)
    # keep the workloads with the most accepted mutations (and deletions if required)
    def score(h):
        s = sum(1 for x in h if x["op"] == "store") + 2 * sum(1 for x in h if x["op"] == "delete" and x["max"] >= 1)
        return s
    if prof.get("need_delete"):
        hs = [h for h in hs if any(x["op"] == "delete" for x in h) and any(x["op"] == "store" for x in h)]
    hs = [h for h in hs if h and h[0]["op"] == "store"]
    hs.sort(key=lambda h: (-score(h), json.dumps(h, sort_keys=True)))
    # diversity: avoid identical op-kind signatures
    out, seen = [], set()
    for h in hs:
        k = tuple((x["op"], len(x.get("cids", []))) for x in h)
        if k in seen:
            continue
        seen.add(k)
        out.append(h)
        if len(out) >= want:
            break
    for h in hs:
        if len(out) >= want:
            break
        if h not in out:
            out.append(h)
    return out


def check_crash(pid, tier, seed):
    prof = CRASH_PROFILES[pid]
    ti = 0 if tier == "quick" else 1
    build(["walreplay"])
    eng = we.Engine(pid, tier, seed)
    wl = gen_crash_workloads(prof, ti, seed, eng.stats)
    if not wl:
        raise Inconclusive("no workloads generated")
    jobs = we.make_jobs(wl, "crash", prof["geoms"][ti], ["ident"], seed, prefix="w")
    nb = prof["bin_jobs"][ti]
    jobs += we.make_jobs(wl[:nb], "crash", [prof["geoms"][ti][-1] * 4], ["bin"], seed, prefix="b")
    for j in jobs:
        j["probeEach"] = False
    if prof.get("chain"):
        # chains of crash/recover/append cycles with same-shaped batches (stale remnants)
        for j in jobs:
            j["chain"] = True
    corpus = we.corpus_jobs(pid)
    log("%s: %d workloads -> %d jobs (+%d corpus)" % (pid, len(wl), len(jobs), len(corpus)))
    eng.crash_rounds(jobs, prof["depth"][ti], prof["per_run"][ti], prof["expand_next"][ti],
                     max_exh=(9 if ti == 0 else 11), nrandom=(32 if ti == 0 else 128), extra_final=corpus)
    return verdict(eng, pid, "model_checking", RULE_CRASH)


# ---------------------------------------------------------------------------
# sequential family: C05
RULE_SEQ = ("operation sequences enumerated by TLC from spec/WalContract.tla (BFS: every sequence of length MaxOps over the "
            "alphabet store/illegal store/delete at every (min,max)/reopen; -simulate for longer ones), each executed on "
            "the real WAL under several segment geometries with a probe (FirstIndex, LastIndex, GetLog over the whole "
            "index window) after every step and a second pass with a reopen after every step; judged by spec/WalJudge.tla. "
            "distinct_nontrivial = sequences x geometry with at least one accepted mutation and distinct operation signatures")


def check_seq(pid, tier, seed):
    ti = 0 if tier == "quick" else 1
    build(["walreplay"])
    eng = we.Engine(pid, tier, seed)
    consts = dict(MaxIdx=5, Starts={1, 4}, MaxBatch=2, Sizes={1}, MaxOps=(3, 4)[ti], Keys={1}, Vals={0, 2},
                  WithBad=True, WithReopen=False, WithStable=False, MinOps=3)
    wl = we.gen_workloads(consts, mode="bfs", stats=eng.stats, timeout=600)
    consts2 = dict(consts, MaxOps=(8, 14)[ti], MaxIdx=9)
    wl2 = we.gen_workloads(consts2, mode="simulate", num=(150, 2000)[ti], seed=seed, stats=eng.stats)
    log("%s: %d exhaustive + %d random sequences" % (pid, len(wl), len(wl2)))
    geoms = ((64, 96, 4096), (64, 96, 128, 4096))[ti]
    if ti == 0 and len(wl) > 4000:
        eng.rng.shuffle(wl)
        wl = wl[:4000]
    jobs = we.make_jobs(wl, "seq", geoms, ["ident"], seed, prefix="e", probeEach=True)
    jobs += we.make_jobs(wl2, "seq", geoms[:2], ["ident"], seed, prefix="r", probeEach=True)
    jobs += we.make_jobs(wl2[: (40, 400)[ti]], "seq", [geoms[1]], ["bin"], seed, prefix="rb", probeEach=True)
    jobs += we.make_jobs(wl[: (600, 6000)[ti]] + wl2[: (60, 600)[ti]], "seq", [geoms[0], geoms[-1]], ["ident"], seed,
                         prefix="o", probeEach=True, reopenEach=True)
    jobs += we.corpus_jobs(pid)
    eng.stats["distinct_seq"] = len({json.dumps([j["steps"], j["segSize"], j.get("reopenEach")], sort_keys=True)
                                     for j in jobs if any(s["op"] in ("store", "delete") for s in j["steps"])})
    eng.final(jobs, "s")
    return verdict(eng, pid, "model_checking", RULE_SEQ, exhaustive=False)


CHECKS = {"C01": check_crash, "C02": check_crash, "C03": check_crash, "C04": check_crash, "C13": check_crash,
          "C05": check_seq}
