"""Checks for the log-store properties decided by WalContract/DiskTrace/WalJudge."""
import json, os, re, time
import vlib
from vlib import *
import walengine as we

ASSUME_COMMON = [
    "bbolt transactions are atomic and durable once Commit returns (metadata store modelled as atomic commits)",
    "a crash leaves each un-fsynced 8-byte chunk either old or new (no garbage), per README assumption and property C01's quantifier",
    "CRC-32C / content ids: distinct submitted entries have distinct bytes (the harness makes them so)",
    "harness/sim implements spec/DiskTrace.tla's crash model; C07 checks that the production fs/ layer provides it",
]


def msgclass(e):
    m = e.get("msg", "") or ""
    m = re.sub(r"[0-9a-fx]{6,}", "N", m)
    m = re.sub(r"\d+", "N", m)
    return m[:80]


def signature(v):
    return {"clause": v["clause"], "family": v["family"], "inflight": v["inflight"],
            "msg": msgclass(v["event"]), "crashes": min(v["ncrash"], 3)}


def verdict(eng, pid, level, rule, extra_cov=None, assumptions=None, exhaustive=False):
    """Turn the engine's classified violations into exit code + evidence."""
    mine = [v for v in eng.viols if pid in v["props"]]
    others = [v for v in eng.viols if pid not in v["props"]]
    groups = {}
    for v in mine:
        groups.setdefault(json.dumps(signature(v), sort_keys=True), []).append(v)
    known, viol_paths = [], []
    for k, vs in sorted(groups.items()):
        sig = json.loads(k)
        f = match_finding(pid, sig)
        rp = save_replay(pid, {"property": pid, "signature": sig, "count": len(vs), "clause": vs[0]["clause"],
                               "event": vs[0]["event"], "job": vs[0]["replay_job"]})
        if f:
            known.append("%s (%d occurrences; e.g. replay=%s)" % (f["what"], len(vs), rp))
        else:
            viol_paths.append(rp)
            log("VIOLATION", pid, sig, "x%d" % len(vs), rp)
    st = eng.stats
    cov = {
        "states": max(1, st.get("gen_distinct", 0) + st.get("disk_distinct", 0) + st.get("judge_states", 0) + st.get("design_distinct", 0)),
        "transitions": max(1, st.get("gen_states", 0) + st.get("disk_states", 0) + st.get("judge_states", 0) + st.get("design_states", 0)),
        "traces_validated_against_impl": eng.traces,
        "evaluations": eng.evals,
        "distinct_nontrivial": len(eng.nontrivial) if eng.nontrivial else st.get("distinct_seq", 0),
        "rule": rule,
        "samples": eng.samples[:3] or [{"note": "no sample"}],
        "exhaustive": exhaustive,
        "observations_judged": st.get("nobs", 0),
        "trace_events": st.get("events", 0),
        "tlc": {k: (round(v, 2) if isinstance(v, float) else v) for k, v in st.items()},
        "other_property_rejections": len(others),
        "other_property_rejection_kinds": sorted({"%s:%s" % ("/".join(v["props"]), v["clause"]) for v in others})[:20],
        "known_findings_hit": len(known),
        "impl_drift": st.get("impl_drift", 0),
        "impl_drift_kinds": st.get("impl_drift_kinds", []),
    }
    if extra_cov:
        cov.update(extra_cov)
    write_evidence(pid, eng.tier, eng.seed, level, cov, (assumptions or ASSUME_COMMON), time.time() - eng.t0,
                   len(viol_paths))
    return finish(pid, viol_paths, known)


# ---------------------------------------------------------------------------
# crash family: C01 C02 C03 C04 C13
CRASH_PROFILES = {
    # MaxOps, nworkloads(quick, thorough), geoms, per_run, expand_next, depth(quick, thorough)
    "C01": dict(consts=dict(MaxIdx=7, Starts={1, 3}, MaxBatch=2, Sizes={1, 2}, MaxOps=5, Keys={1}, Vals={0, 2},
                            WithBad=False, WithReopen=True, WithStable=False, MinOps=5),
                n=(6, 20), geoms=((64, 128), (64, 96, 128, 512)), per_run=((300, 40), (1000, 100, 40)),
                expand_next=(4, (5, 1)), depth=(2, 3), bin_jobs=(2, 6)),
    "C02": dict(consts=dict(MaxIdx=6, Starts={1}, MaxBatch=2, Sizes={1, 2}, MaxOps=3, Keys={1}, Vals={0, 2},
                            WithBad=False, WithReopen=False, WithStable=False, MinOps=3),
                n=(4, 12), geoms=((512,), (128, 512)), per_run=((200, 48, 16), (600, 40, 16)),
                expand_next=((4, 1), (6, 1)), depth=(3, 3), bin_jobs=(1, 3), chain=True, chain_cap=(8, 16)),
    "C03": dict(consts=dict(MaxIdx=7, Starts={1, 4}, MaxBatch=2, Sizes={1, 2}, MaxOps=4, Keys={1}, Vals={0, 2},
                            WithBad=False, WithReopen=True, WithStable=False, MinOps=4),
                n=(6, 20), geoms=((64, 96), (64, 96, 128)), per_run=((300, 40), (1000, 100, 40)),
                expand_next=(4, (5, 1)), depth=(2, 3), bin_jobs=(2, 6)),
    "C04": dict(consts=dict(MaxIdx=6, Starts={1}, MaxBatch=2, Sizes={1}, MaxOps=5, Keys={1}, Vals={0, 2},
                            WithBad=False, WithReopen=False, WithStable=False, MinOps=5, WithHuge=True),
                n=(8, 20), geoms=((64, 96), (64, 96, 160)), per_run=((300, 40), (1000, 100, 40)),
                expand_next=(4, (5, 1)), depth=(2, 3), bin_jobs=(2, 6), need_delete=True),
}
CRASH_PROFILES["C13"] = dict(CRASH_PROFILES["C04"])

RULE_CRASH = ("workloads = operation sequences generated by TLC from spec/WalContract.tla; each is executed on the real "
              "WAL over harness/sim; TLC (spec/DiskTrace.tla) enumerates crash images of the recorded I/O (every I/O "
              "boundary x subsets of un-fsynced 8-byte chunks x pending dir ops x durable lengths; exhaustive up to "
              "MaxExh dirty chunks, structured+random subsets above); each image = one evaluation: real Open + probe + "
              "continuation + reopen, judged by spec/WalJudge.tla. distinct_nontrivial = images with pairwise different "
              "content hash that are neither 'nothing pending persisted' nor 'everything pending persisted'")


def gen_crash_workloads(prof, ti, seed, stats):
    consts = dict(prof["consts"])
    want = prof["n"][ti]
    hs = we.gen_workloads(consts, mode="simulate", num=want * 12, seed=seed, stats=stats)
    # keep the workloads with the most accepted mutations (and deletions if required)
    def score(h):
        s = sum(1 for x in h if x["op"] == "store") + 2 * sum(1 for x in h if x["op"] == "delete" and x["max"] >= 1)
        return s
    if prof.get("need_delete"):
        hs = [h for h in hs if any(x["op"] == "delete" for x in h) and any(x["op"] == "store" for x in h)]
    hs = [h for h in hs if h and h[0]["op"] in ("store", "reopen")]
    hs.sort(key=lambda h: (-score(h), json.dumps(h, sort_keys=True)))
    # diversity: avoid identical op-kind signatures
    out, seen = [], set()
    for h in hs:
        k = tuple((x["op"], len(x.get("cids", []))) for x in h)
        if k in seen:
            continue
        seen.add(k)
        out.append(h)
        if len(out) >= want:
            break
    for h in hs:
        if len(out) >= want:
            break
        if h not in out:
            out.append(h)
    return out


def segrecover_design(eng, ti):
    """Design-level check of the tail writer / recoverTail at word granularity (spec/SegRecover.tla):
    the repaired design must satisfy C01/C02/C03 for every torn-write subset and crash chain within the
    bounds; the pinned design (Erase = FALSE) must be rejected (negative control, thorough tier)."""
    consts = dict(N=(12, 16)[ti], MaxIdx=3, Sizes={1, 2}, MaxBatch=2, MaxCrashes=(2, 3)[ti], Erase=True,
                  Looks=({"junk"}, {"junk", "ehdr"})[ti], WithSeal=True, SealFromScan=False)
    invs = ["C03_OpenSucceeds", "C01_AckedPresent", "C02_LatestContent", "C02_BatchAtomic", "C02_Durable", "C01_SealValid", "C01_SealDurable"]
    r = tlc("SegRecover", cfg_text(constants=consts, invariants=invs), timeout=(150, 1500)[ti])
    if r.error == "timeout":
        eng.stats["segrecover_timeout"] = True
    elif r.error or r.violated:
        raise Inconclusive("SegRecover (repaired design) failed: %s %s\n%s" % (r.error, r.violated, r.out[-3000:]))
    eng.stats["design_states"] = eng.stats.get("design_states", 0) + r.generated
    eng.stats["design_distinct"] = eng.stats.get("design_distinct", 0) + r.distinct
    eng.stats["segrecover"] = {"consts": {k: (sorted(v) if isinstance(v, set) else v) for k, v in consts.items()},
                               "distinct": r.distinct, "generated": r.generated, "wall": round(r.wall, 1)}
    if ti == 1:
        neg = tlc("SegRecover", cfg_text(constants=dict(consts, Erase=False, N=14, MaxCrashes=2, Looks={"junk"}), invariants=invs), timeout=600)
        eng.stats["segrecover_negative_control"] = neg.violated
        if not neg.violated:
            raise Inconclusive("SegRecover negative control: the pinned design (no erase) was not rejected")
        neg2 = tlc("SegRecover", cfg_text(constants=dict(consts, SealFromScan=True, N=12, MaxCrashes=2, Looks={"junk"}), invariants=invs), timeout=600)
        eng.stats["segrecover_negative_control_seal"] = neg2.violated
        if neg2.violated != "C01_SealValid":
            raise Inconclusive("SegRecover negative control: the pinned index-start recovery (F2) was not rejected: %s %s" % (neg2.violated, neg2.error))


WALIMPL_INVS = ["C03_OpenSucceeds", "C03_Writable", "C01_ViewAllowed", "C01_Recovered", "C13_ExactDir", "C13_UniqueIds", "MemMatchesMeta"]


def segops_inductive(eng, ti):
    """Unbounded design-level result (Apalache, spec/SegOpsInd.tla): well-formedness of the committed segment list and its
    agreement with the contract's log bounds is an inductive invariant of the metadata transactions of spec/SegOps.tla
    (the operators WalImpl and WalImplTrace use), for symbolic indexes and ids, segment lists of up to 4. Negative
    control: an off-by-one in the head truncation's survival test must break inductiveness."""
    res = {}
    o0, w0, out0 = apalache("SegOpsInd", ["--cinit=CInit", "--init=FreshInit", "--inv=IndInv", "--length=0"], timeout=300)
    o1, w1, out1 = apalache("SegOpsInd", ["--cinit=CInit", "--init=IndInit", "--inv=IndInv", "--length=1"], timeout=600)
    res.update(fresh_open_establishes=o0, inductive_step=o1, wall=round(w0 + w1, 1))
    if o0 != "NoError" or o1 != "NoError":
        raise Inconclusive("SegOpsInd (Apalache): the invariant of the metadata transactions is not inductive: %s %s\n%s" % (o0, o1, (out0 if o0 != "NoError" else out1)))
    if ti == 1:
        o2, w2, out2 = apalache("SegOpsInd", ["--cinit=CInit", "--init=IndInit", "--inv=IndInv", "--length=1"], timeout=600,
                                edit={"SegOps.tla": ("IF sg.sealed THEN sg.max >= newMin ELSE last >= newMin",
                                                     "IF sg.sealed THEN sg.max > newMin ELSE last >= newMin")})
        res["negative_control_head_off_by_one"] = o2
        if o2 != "Error":
            raise Inconclusive("SegOpsInd negative control was not rejected: %s\n%s" % (o2, out2))
    eng.stats["segops_inductive_apalache"] = res


def walimpl_design(eng, ti):
    """Design-level check of the engine at file granularity (spec/WalImpl.tla): crash between any two I/O steps of
    Open / StoreLogs / rotation / DeleteRange, incl. inside recovery; the repaired design must satisfy the C01/C03/C04/C13
    invariants; the design switches (pinned F1, seeded S02, no sweep, no tail re-creation) must each be rejected."""
    consts = dict(MaxIdx=(4, 5)[ti], SealAt=(3, 2)[ti], MaxCrashes=(2, 3)[ti], MaxOps=(5, 6)[ti],
                  RotateOnOpen=True, CreateBeforeCommit=False, Sweep=True, RecreateTail=True, MaxFaults=0, Recommit=True, KeepNextId=True)
    r = tlc("WalImpl", cfg_text(constants=consts, invariants=WALIMPL_INVS), timeout=(200, 1500)[ti])
    if r.error == "timeout":
        eng.stats["walimpl_timeout"] = True
    elif r.error or r.violated:
        raise Inconclusive("WalImpl (repaired design) failed: %s %s\n%s" % (r.error, r.violated, r.out[-3000:]))
    eng.stats["design_states"] = eng.stats.get("design_states", 0) + r.generated
    eng.stats["design_distinct"] = eng.stats.get("design_distinct", 0) + r.distinct
    eng.stats["walimpl"] = {"consts": consts, "distinct": r.distinct, "generated": r.generated, "wall": round(r.wall, 1)}
    if ti == 1 or eng.pid in ("C04", "C13"):
        segops_inductive(eng, ti)
    if ti == 1:
        neg = {}
        for sw, val, expect in (("RotateOnOpen", False, "C03_Writable"), ("CreateBeforeCommit", True, "C03_OpenSucceeds"),
                                ("Sweep", False, "C13_ExactDir"), ("RecreateTail", False, "C03_OpenSucceeds")):
            n = tlc("WalImpl", cfg_text(constants=dict(consts, MaxIdx=4, SealAt=3, MaxCrashes=2, MaxOps=5, MaxFaults=0, **{sw: val}),
                                        invariants=WALIMPL_INVS), timeout=600)
            neg[sw] = n.violated
            if not n.violated:
                raise Inconclusive("WalImpl negative control %s=%s was not rejected" % (sw, val))
        eng.stats["walimpl_negative_controls"] = neg


def check_crash(pid, tier, seed):
    prof = CRASH_PROFILES[pid]
    ti = 0 if tier == "quick" else 1
    build(["walreplay"])
    eng = we.Engine(pid, tier, seed)
    if pid == "C02":
        segrecover_design(eng, ti)
    else:
        walimpl_design(eng, ti)
    wl = gen_crash_workloads(prof, ti, seed, eng.stats)
    if not wl:
        raise Inconclusive("no workloads generated")
    if prof.get("chain"):
        # chain tour: every 2-entry batch shape written behind an acknowledged entry in the same segment (TLC BFS
        # over all 2-operation sequences, filtered) - the in-flight batch whose torn remains the later appends meet
        c2 = dict(prof["consts"], MaxOps=2, MinOps=2, WithReopen=False)
        tour = [h for h in we.gen_workloads(c2, mode="bfs", stats=eng.stats, timeout=120)
                if len(h) == 2 and h[0]["op"] == "store" and len(h[0]["cids"]) == 1 and h[0]["sz"] == [1]
                and h[1]["op"] == "store" and len(h[1]["cids"]) == 2]
        wl = tour + [h for h in wl if h not in tour][: max(2, prof["n"][ti] - len(tour))]
    jobs = we.make_jobs(wl, "crash", prof["geoms"][ti], ["ident"], seed, prefix="w")
    nb = prof["bin_jobs"][ti]
    jobs += we.make_jobs(wl[:nb], "crash", [prof["geoms"][ti][-1] * 4], ["bin"], seed, prefix="b")
    for j in jobs:
        j["probeEach"] = False
    if prof.get("chain"):
        # chains of crash/recover/append cycles with same-shaped batches (stale remnants)
        for j in jobs:
            j["chain"] = True
            j["chainCap"] = prof["chain_cap"][ti]
    corpus = we.corpus_jobs(pid)
    if pid == "C03":
        # directories a power loss inside the very first Open leaves behind on the production stack: a temporary
        # metadata database in any state of completion (real fs + bolt; Open must succeed and the WAL be writable)
        for k, kind in enumerate(("garbage", "empty", "valid", "short", "torn")):
            corpus.append({"id": "lefttmp-%s" % kind, "family": "crash", "codec": "ident", "segSize": 128, "seed": seed, "real": True,
                           "leftTmp": kind, "probeEach": True, "expand": False,
                           "steps": [{"op": "store", "first": 1, "cids": [1, 2], "sz": [1, 1]}, {"op": "reopen"},
                                     {"op": "store", "first": 3, "cids": [3], "sz": [1]}]})
    log("%s: %d workloads -> %d jobs (+%d corpus)" % (pid, len(wl), len(jobs), len(corpus)))
    eng.crash_rounds(jobs, prof["depth"][ti], prof["per_run"][ti], prof["expand_next"][ti],
                     max_exh=(9 if ti == 0 else 11), nrandom=(32 if ti == 0 else 128), extra_final=corpus)
    extra = None
    if pid == "C13":
        import checks_conc
        cst = {}
        vs, nscen = checks_conc.c13_stage(seed, tier, cst)
        for v in vs:
            eng.viols.append({"line": 0, "clause": v["clause"], "job": v["scenario"], "fork": None, "family": "conc", "tag": None,
                              "inflight": "none", "ncrash": 0, "event": v["event"], "props": ["C13"],
                              "replay_job": {"conc_scenario": v.get("scenario_obj")}})
        eng.traces += nscen
        eng.evals += nscen
        extra = {"concurrent_reader_scenarios": nscen, "concurrent_stage": cst}
    return verdict(eng, pid, "model_checking", RULE_CRASH, extra_cov=extra)


# ---------------------------------------------------------------------------
# sequential family: C05
RULE_SEQ = ("operation sequences enumerated by TLC from spec/WalContract.tla (BFS: every sequence of length MaxOps over the "
            "alphabet store/illegal store/delete at every (min,max)/reopen; -simulate for longer ones), each executed on "
            "the real WAL under several segment geometries with a probe (FirstIndex, LastIndex, GetLog over the whole "
            "index window) after every step and a second pass with a reopen after every step; judged by spec/WalJudge.tla. "
            "distinct_nontrivial = sequences x geometry with at least one accepted mutation and distinct operation signatures")


def check_seq(pid, tier, seed):
    ti = 0 if tier == "quick" else 1
    build(["walreplay"])
    eng = we.Engine(pid, tier, seed)
    consts = dict(MaxIdx=5, Starts={1, 4}, MaxBatch=2, Sizes={1}, MaxOps=(3, 4)[ti], Keys={1}, Vals={0, 2},
                  WithBad=True, WithReopen=False, WithStable=False, MinOps=3, WithHuge=True)
    wl = we.gen_workloads(consts, mode="bfs", stats=eng.stats, timeout=600)
    consts2 = dict(consts, MaxOps=(8, 14)[ti], MaxIdx=9)
    wl2 = we.gen_workloads(consts2, mode="simulate", num=(150, 2000)[ti], seed=seed, stats=eng.stats)
    log("%s: %d exhaustive + %d random sequences" % (pid, len(wl), len(wl2)))
    geoms = ((64, 96, 4096), (64, 96, 128, 4096))[ti]
    if ti == 0 and len(wl) > 4000:
        eng.rng.shuffle(wl)
        wl = wl[:4000]
    jobs = we.make_jobs(wl, "seq", geoms, ["ident"], seed, prefix="e", probeEach=True)
    jobs += we.make_jobs(wl2, "seq", geoms[:2], ["ident"], seed, prefix="r", probeEach=True)
    jobs += we.make_jobs(wl2[: (40, 400)[ti]], "seq", [geoms[1]], ["bin"], seed, prefix="rb", probeEach=True)
    jobs += we.make_jobs(wl[: (600, 6000)[ti]] + wl2[: (60, 600)[ti]], "seq", [geoms[0], geoms[-1]], ["ident"], seed,
                         prefix="o", probeEach=True, reopenEach=True)
    # the same sequences on the production fs.FS + BoltMetaDB in a scratch directory (C05: "real segment files + real
    # BoltDB as well as in-memory VFS"), with a reopen after every step
    eng.rng.shuffle(wl2)
    jobs += we.make_jobs(wl[: (250, 2500)[ti]] + wl2[: (40, 400)[ti]], "seq", [geoms[0], geoms[1]], ["ident"], seed,
                         prefix="x", probeEach=True, real=True, reopenEach=True)
    jobs += we.corpus_jobs(pid)
    simjobs = [j for j in jobs if not j.get("real") and not j.get("reopenEach")]
    eng.rng.shuffle(simjobs)
    eng.lockstep(simjobs[: (1500, 12000)[ti]])
    eng.stats["distinct_seq"] = len({json.dumps([j["steps"], j["segSize"], j.get("reopenEach")], sort_keys=True)
                                     for j in jobs if any(s["op"] in ("store", "delete") for s in j["steps"])})
    eng.final(jobs, "s")
    return verdict(eng, pid, "model_checking", RULE_SEQ, exhaustive=False)


# ---------------------------------------------------------------------------
# fault family: C10
RULE_FAULT = ("workloads generated by TLC (spec/WalContract.tla) run once on the real WAL to record their VFS/MetaStore calls; "
              "TLC (spec/FaultPlan.tla) enumerates fault plans over the recorded calls: every call as the failing one x "
              "{transient, persistent} x write-prefix {none, half, all} x fsync {lost, applied}, plus sampled pairs; each plan "
              "is executed on the real code: faulty workload, in-process probe, faults cleared, continuation, clean restart, "
              "probe, continuation; judged by spec/WalJudge.tla (acked entries kept, failed StoreLogs invisible in-process, "
              "failed calls all-or-nothing after reopen). distinct_nontrivial = distinct (failing call ordinal, call kind, "
              "fault kind, variant) plans in which the fault actually fired")


def fault_plans(io_path, wd, max_pairs, stats):
    cfg = cfg_text(constants={"TraceFile": "io.ndjson", "MaxPairs": max_pairs}, invariants=["Emit"], post="Consumed")
    r = tlc("FaultPlan", cfg, files={"io.ndjson": io_path}, timeout=600)
    if r.error or r.violated:
        raise Inconclusive("FaultPlan failed: %s %s\n%s" % (r.error, r.violated, r.out[-3000:]))
    stats["plan_states"] = stats.get("plan_states", 0) + r.generated
    stats["design_distinct"] = stats.get("design_distinct", 0) + r.distinct
    stats["design_states"] = stats.get("design_states", 0) + r.generated
    by = {}
    for p in tlc_payloads(r, "FAULT"):
        by.setdefault(p["path"], []).append(p["faults"])
    return by


def walimpl_fault_design(eng, ti):
    """C10 at design level (spec/WalImpl.tla with MaxFaults > 0): the file creation that follows a metadata commit
    (truncation, base reset, rotation) may fail; with the re-commit of fix F15 what the WAL shows now and after any later
    crash is always a log the contract allows, memory and metadata agree; the pinned design (Recommit = FALSE) must be
    rejected (acknowledged appends vanish at the next restart)."""
    invs = ["C03_OpenSucceeds", "C01_ViewAllowed", "C01_Recovered", "C13_ExactDir", "C13_UniqueIds", "MemMatchesMeta"]
    consts = dict(MaxIdx=(4, 5)[ti], SealAt=(3, 2)[ti], MaxCrashes=2, MaxOps=(5, 6)[ti], RotateOnOpen=True,
                  CreateBeforeCommit=False, Sweep=True, RecreateTail=True, MaxFaults=(1, 2)[ti], Recommit=True, KeepNextId=True)
    r = tlc("WalImpl", cfg_text(constants=consts, invariants=invs), timeout=(200, 1200)[ti])
    if r.error == "timeout":
        eng.stats["walimpl_fault_timeout"] = True
    elif r.error or r.violated:
        raise Inconclusive("WalImpl with I/O failures (repaired design) failed: %s %s\n%s" % (r.error, r.violated, r.out[-3000:]))
    eng.stats["design_states"] = eng.stats.get("design_states", 0) + r.generated
    eng.stats["design_distinct"] = eng.stats.get("design_distinct", 0) + r.distinct
    eng.stats["walimpl_faults"] = {"consts": consts, "distinct": r.distinct, "generated": r.generated, "wall": round(r.wall, 1)}
    neg = tlc("WalImpl", cfg_text(constants=dict(consts, MaxIdx=4, SealAt=3, MaxOps=5, MaxFaults=1, Recommit=False),
                                  invariants=["C01_ViewAllowed"]), timeout=300)
    eng.stats["walimpl_faults_negative_control"] = neg.violated
    if neg.violated != "C01_ViewAllowed":
        raise Inconclusive("WalImpl negative control Recommit=FALSE (F15) was not rejected: %s %s" % (neg.violated, neg.error))
    neg2 = tlc("WalImpl", cfg_text(constants=dict(consts, MaxIdx=4, SealAt=3, MaxOps=5, MaxFaults=1, KeepNextId=False),
                                   invariants=["C03_OpenSucceeds", "C13_UniqueIds"]), timeout=300)
    eng.stats["walimpl_faults_negative_control_nextid"] = neg2.violated
    if not neg2.violated:
        raise Inconclusive("WalImpl negative control KeepNextId=FALSE (segment id handed out again after a creation that "
                           "failed half-way) was not rejected: %s" % neg2.error)


def check_fault(pid, tier, seed):
    ti = 0 if tier == "quick" else 1
    build(["walreplay"])
    eng = we.Engine(pid, tier, seed)
    walimpl_fault_design(eng, ti)
    consts = dict(MaxIdx=7, Starts={1, 3}, MaxBatch=2, Sizes={1, 2}, MaxOps=(4, 5)[ti], Keys={1}, Vals={0, 2},
                  WithBad=False, WithReopen=True, WithStable=False, MinOps=4)
    prof = dict(consts=consts, n=(6, 30))
    wl = gen_crash_workloads(prof, ti, seed, eng.stats)
    base = we.make_jobs(wl, "fault", ((64, 128), (64, 96, 128, 512))[ti], ["ident"], seed, prefix="w", expand=True)
    base += we.make_jobs(wl[:(1, 6)[ti]], "fault", [512], ["bin"], seed, prefix="b", expand=True)
    # batches larger than the buffers a writer may keep (first batch of a fresh segment / after a small one)
    import checks_misc
    bb = checks_misc.big_batch_jobs(seed, family="fault", expand=True)
    for j in bb:
        j["steps"] = [s for s in j["steps"] if s["op"] == "store" and not s.get("rel")][:2]
    base += [j for k, j in enumerate(bb) if j["segSize"] == 8 << 20 and (ti == 1 or k % 4 in (0, 1))][: (4, 8)[ti]]
    for j in base:
        j["cont"] = [{"op": "store", "rel": True, "n": 1, "sz": [1]}]
    obs, io, st = we.run_jobs(base, eng.wd, "f0", need_io=True)
    plans = fault_plans(io, eng.wd, (20, 200)[ti], eng.stats)
    jobs, sigs = [], set()
    byid = {j["id"]: j for j in base}
    for path, ps in sorted(plans.items()):
        ps = sorted(ps, key=lambda p: json.dumps(p, sort_keys=True))
        cap = (400, 5000)[ti]
        if len(ps) > cap:
            eng.rng.shuffle(ps)
            ps = ps[:cap]
        for k, fl in enumerate(ps):
            # what follows the fault: one of the continuation shapes in turn, and always the two truncations
            # (a writer left in a wrong state by a failed append shows when the segment is force-sealed or dropped)
            ts = [k % len(we.CONT_TEMPLATES)] + [t for t in (7, 8, 11) if t != k % len(we.CONT_TEMPLATES) and (t in (7, 11) or k % 3 == 0)]
            for t in ts:
                j = dict(byid[path])
                j["id"] = "%s.p%d.t%d" % (path, k, t)
                j["expand"] = False
                j["faults"] = fl
                j["cont"] = we.CONT_TEMPLATES[t]
                jobs.append(j)
            sigs.add(json.dumps([path, fl], sort_keys=True))
    corpus = we.corpus_jobs(pid)
    log("%s: %d workloads, %d fault plans (+%d corpus)" % (pid, len(base), len(jobs), len(corpus)))
    eng.stats["distinct_seq"] = len(sigs)
    sample = list(jobs)
    eng.rng.shuffle(sample)
    eng.lockstep(sample[: (300, 3000)[ti]], grammar=False)
    eng.final(jobs + corpus, "f")
    return verdict(eng, pid, "model_checking", RULE_FAULT)


# ---------------------------------------------------------------------------
# stable store: C08
RULE_STABLE = ("operation sequences over Set/Get/SetUint64/GetUint64 (3 keys, values incl. nil/empty) interleaved with "
               "appends/truncations/reopens, enumerated by TLC from spec/WalContract.tla (BFS + simulate); executed on the real "
               "WAL (a) over harness/sim and (b) over the production fs + BoltMetaDB in a scratch directory, where after every "
               "step the directory is copied (process-kill image) and the copy reopened and read; (c) crash images of the "
               "recorded I/O (DiskTrace) for workloads containing Set; judged by spec/WalJudge.tla (per-key value sets; log "
               "state untouched by stable ops and vice versa)")


def mark_u64(h, u64keys):
    out = []
    for s in h:
        s = dict(s)
        if s.get("op") in ("set", "getk") and s.get("key") in u64keys:
            s["u64"] = True
        out.append(s)
    return out


def check_stable(pid, tier, seed):
    ti = 0 if tier == "quick" else 1
    build(["walreplay"])
    eng = we.Engine(pid, tier, seed)
    consts = dict(MaxIdx=4, Starts={1}, MaxBatch=2, Sizes={1}, MaxOps=(3, 4)[ti], Keys={1, 2, 3}, Vals={0, 1, 2, 3},
                  WithBad=False, WithReopen=True, WithStable=True, MinOps=3)
    wl = we.gen_workloads(consts, mode="bfs", stats=eng.stats, timeout=600)
    wl = [h for h in wl if any(s["op"] == "set" for s in h)]
    eng.rng.shuffle(wl)
    wl = wl[:(1500, 20000)[ti]]
    consts2 = dict(consts, MaxOps=(9, 14)[ti], MaxIdx=8)
    wl2 = we.gen_workloads(consts2, mode="simulate", num=(200, 3000)[ti], seed=seed, stats=eng.stats)
    wl2 = [h for h in wl2 if any(s["op"] == "set" for s in h)]
    allw = [mark_u64(h, {2}) for h in wl + wl2]
    for h in allw:   # read every key back at the end
        h += [{"op": "getk", "key": 1}, {"op": "getk", "key": 2, "u64": True}, {"op": "getk", "key": 3}]
    jobs = we.make_jobs(allw, "seq", [96], ["ident"], seed, prefix="s", probeEach=True)
    real = allw[:(150, 2500)[ti]]
    # on real bolt: large values (the bucket leaves bolt's inline form) and a long tail of Sets, so that a value
    # returned by Get that still points into bolt's pages is seen to change
    big = [[{"op": "set", "key": 3, "val": 100 + (k % 40)}, {"op": "getk", "key": 3}] + h +
           [{"op": "set", "key": 3, "val": 150 + (k % 40)}, {"op": "set", "key": 1, "val": 101}, {"op": "getk", "key": 3},
            {"op": "set", "key": 3, "val": 200 + (k % 40)}, {"op": "set", "key": 1, "val": 102}, {"op": "store", "rel": True, "n": 1, "sz": [1]}]
           for k, h in enumerate(real[:(60, 600)[ti]])]
    jobs += we.make_jobs(real, "seq", [96], ["ident"], seed, prefix="r", probeEach=True, real=True, snapshotEach=True,
                         keys=[1, 3])
    jobs += we.make_jobs(big, "seq", [96], ["ident"], seed, prefix="rb", probeEach=True, real=True, keys=[1, 3])
    eng.stats["distinct_seq"] = len({json.dumps(j["steps"], sort_keys=True) for j in jobs})
    log("%s: %d sim jobs, %d real-bolt jobs" % (pid, len(allw), len(real)))
    eng.final(jobs + we.corpus_jobs(pid), "k")
    # crash images for workloads with Set
    cw = [h for h in allw if sum(1 for s in h if s["op"] == "set") >= 1 and any(s["op"] == "store" for s in h)][:(6, 40)[ti]]
    cj = we.make_jobs(cw, "crash", [96], ["ident"], seed, prefix="c")
    eng.crash_rounds(cj, 1, ((300,), (3000,))[ti], 0, max_exh=8, nrandom=16, tag="kc")
    import checks_conc
    cst = {}
    vs, nscen = checks_conc.c08_stage(seed, tier, cst)
    for v in vs:
        eng.viols.append({"line": 0, "clause": v["clause"], "job": v["scenario"], "fork": None, "family": "conc", "tag": None,
                          "inflight": "none", "ncrash": 0, "event": v["event"], "props": ["C08"],
                          "replay_job": {"conc_scenario": v.get("scenario_obj")}})
    eng.traces += nscen
    eng.evals += nscen
    vs2, nscen2 = checks_conc.c08_sched_stage(seed, tier, cst)
    for v in vs2:
        eng.viols.append({"line": 0, "clause": v["clause"], "job": v["scenario"], "fork": None, "family": "conc", "tag": None,
                          "inflight": "none", "ncrash": 0, "event": v["event"], "props": ["C08"],
                          "replay_job": {"conc_scenario": v.get("scenario_obj")}})
    eng.traces += nscen2
    eng.evals += nscen2
    return verdict(eng, pid, "model_checking", RULE_STABLE,
                   extra_cov={"concurrent_client_scenarios": nscen, "forced_stable_interleavings": nscen2, "concurrent_stage": cst})


# ---------------------------------------------------------------------------
# metrics: C20 (dynamic half; the static half is cmd/metricscan)
RULE_METRICS = ("operation sequences enumerated by TLC (spec/WalContract.tla, BFS + simulate, incl. truncations that empty the "
                "log, repeated truncations, truncation with an empty tail) executed on the real WAL with "
                "metrics.NewAtomicCollector(wal.MetricDefinitions) (which panics on an undeclared name); after every step the "
                "collector summary must equal the reference counters kept by spec/WalJudge.tla (appends, entries, encoded "
                "bytes written/read, reads, stable gets/sets, rotations, head/tail truncation = entries actually removed). "
                "Static half: cmd/metricscan parses wal.go and verifier/*.go and requires every IncrementCounter/SetGauge "
                "literal to be declared in the MetricDefinitions of its package")


def check_metrics(pid, tier, seed):
    ti = 0 if tier == "quick" else 1
    build(["walreplay", "metricscan"])
    eng = we.Engine(pid, tier, seed)
    # static half
    p = run_bin("metricscan", [REPO], ok_codes=(0, 1))
    scan = json.loads(p.stdout.strip().splitlines()[-1])
    consts = dict(MaxIdx=5, Starts={1, 3}, MaxBatch=2, Sizes={1}, MaxOps=(3, 4)[ti], Keys={1}, Vals={0, 2},
                  WithBad=True, WithReopen=False, WithStable=True, MinOps=3, WithHuge=True)
    wl = we.gen_workloads(consts, mode="bfs", stats=eng.stats, timeout=600)
    eng.rng.shuffle(wl)
    wl = wl[:(3000, 40000)[ti]]
    consts2 = dict(consts, MaxOps=(10, 16)[ti], MaxIdx=9)
    wl2 = we.gen_workloads(consts2, mode="simulate", num=(200, 3000)[ti], seed=seed, stats=eng.stats)
    jobs = we.make_jobs(wl + wl2, "seq", [64, 96], ["ident"], seed, prefix="m", probeEach=True, metrics=True)
    jobs += we.make_jobs(wl2[:(60, 600)[ti]], "seq", [256], ["bin"], seed, prefix="mb", probeEach=True, metrics=True)
    # a batch that the segment writer refuses (an entry above the 64 MiB limit): nothing was appended, so none of the
    # append counters may move ("calls appended")
    for k, pos in enumerate(([67108865], [24, 67108865])):
        jobs.append({"id": "mrefused%d" % k, "family": "seq", "codec": "ident", "segSize": 1 << 20, "seed": seed, "metrics": True,
                     "probeEach": False,
                     "steps": [{"op": "store", "first": 1, "cids": [1], "sz": [1]},
                               {"op": "store", "first": 2, "cids": list(range(2, 2 + len(pos))), "sz": [1] * len(pos), "bytes": pos},
                               {"op": "store", "rel": True, "n": 1, "sz": [1]}, {"op": "probe"}]})
    eng.stats["distinct_seq"] = len({json.dumps([j["steps"], j["segSize"]], sort_keys=True) for j in jobs})
    eng.final(jobs + we.corpus_jobs(pid), "m")
    if scan["undeclared"]:
        for u in scan["undeclared"]:
            eng.viols.append({"line": 0, "clause": "Metric_undeclared", "job": "static", "fork": None, "family": "seq",
                              "tag": None, "inflight": "none", "ncrash": 0, "event": {"msg": u}, "props": ["C20"],
                              "replay_job": {"static": u}})
    return verdict(eng, pid, "model_checking", RULE_METRICS,
                   extra_cov={"static_call_sites": scan["sites"], "static_undeclared": scan["undeclared"]})


CHECKS = {"C01": check_crash, "C02": check_crash, "C03": check_crash, "C04": check_crash, "C13": check_crash,
          "C05": check_seq, "C10": check_fault, "C08": check_stable, "C20": check_metrics}
