"""Shared machinery of the raft-wal verification checks.

TLC runs (model checking, scenario generation, crash-image expansion, trace
validation), Go harness build/run, evidence files, known findings.
Exit codes of checks: 0 held, 1 VIOLATION (reproduced on real code), 2 inconclusive.
"""
import atexit, hashlib, json, os, random, re, shutil, subprocess, sys, tempfile, time

VERIF = os.path.dirname(os.path.dirname(os.path.abspath(__file__)))
SPEC = os.path.join(VERIF, "spec")
HARN = os.path.join(VERIF, "harness")
BIN = os.path.join(HARN, "bin")
EVID = os.path.join(VERIF, "evidence")
REPLAYS = os.path.join(EVID, "replays")
REPO = os.environ.get("VERIF_REPO", "/repo")
NCPU = int(os.environ.get("VERIF_NCPU", "0")) or os.cpu_count() or 4
if REPO != "/repo":
    # development aid: run the checks against another checkout (a scratch worktree with a
    # seeded change) without touching /repo or /verif/harness: build in a private copy.
    _alt = tempfile.mkdtemp(prefix="verif-harness-")
    shutil.copytree(HARN, os.path.join(_alt, "harness"), ignore=shutil.ignore_patterns("bin", "go.sum", "go.mod"))
    HARN = os.path.join(_alt, "harness")
    BIN = os.path.join(HARN, "bin")
    EVID = os.path.join(_alt, "evidence")
    REPLAYS = os.path.join(EVID, "replays")
    atexit.register(lambda: None if os.environ.get("VERIF_KEEP") else shutil.rmtree(_alt, ignore_errors=True))


class Inconclusive(Exception):
    pass


def goenv():
    e = dict(os.environ)
    e.update(GOFLAGS="-mod=mod", GOPROXY="off", GOSUMDB="off", GOTOOLCHAIN="local")
    e.setdefault("GOCACHE", os.path.join(os.path.expanduser("~"), ".cache", "go-build"))
    return e


def log(*a):
    print("[verif]", *a, file=sys.stderr, flush=True)


# ---------------------------------------------------------------- scratch
_scratch = []


def scratch(prefix="verif-"):
    d = tempfile.mkdtemp(prefix=prefix)
    _scratch.append(d)
    return d


@atexit.register
def _cleanup():
    if os.environ.get("VERIF_KEEP"):
        for d in _scratch:
            log("kept scratch", d)
        return
    for d in _scratch:
        shutil.rmtree(d, ignore_errors=True)


# ---------------------------------------------------------------- build
def write_gomod():
    """harness/go.mod mirrors /repo/go.mod's requirements and replaces the module by /repo."""
    src = open(os.path.join(REPO, "go.mod")).read()
    m = re.search(r"^module\s+(\S+)", src, re.M)
    mod = m.group(1)
    gover = re.search(r"^go\s+(\S+)", src, re.M).group(1)
    reqs = re.findall(r"^require \((.*?)^\)", src, re.M | re.S)
    single = re.findall(r"^require\s+([^\s(]+\s+\S+)\s*$", src, re.M)
    out = ["module verif/harness", "", "go " + gover, "", "require %s v0.0.0" % mod, ""]
    for r in reqs:
        out += ["require (" + r + ")", ""]
    for s in single:
        out += ["require " + s, ""]
    out += ["replace %s => %s" % (mod, REPO), ""]
    with open(os.path.join(HARN, "go.mod"), "w") as f:
        f.write("\n".join(out))
    shutil.copy(os.path.join(REPO, "go.sum"), os.path.join(HARN, "go.sum"))


def build(cmds=None, tags="verif", race=False):
    """(Re)build harness binaries against /repo's current working tree."""
    write_gomod()
    os.makedirs(BIN, exist_ok=True)
    pkgs = ["./cmd/" + c for c in (cmds or sorted(os.listdir(os.path.join(HARN, "cmd"))))]
    for p in pkgs:
        name = os.path.basename(p) + ("-race" if race else "")
        args = ["go", "build", "-tags", tags, "-o", os.path.join(BIN, name)]
        if race:
            args.append("-race")
        args.append(p)
        r = subprocess.run(args, cwd=HARN, env=goenv(), capture_output=True, text=True)
        if r.returncode != 0:
            raise Inconclusive("harness build failed (%s):\n%s" % (p, r.stderr[-4000:]))
    return True


# ---------------------------------------------------------------- TLC
class TlcResult:
    def __init__(self):
        self.out = ""
        self.generated = 0
        self.distinct = 0
        self.depth = 0
        self.rc = 0
        self.wall = 0.0
        self.violated = None  # name of violated invariant / property
        self.error = None
        self.errctx = ""
        self.lines = []


def tlc(module, cfg, files=None, workers=None, timeout=600, simulate=None, seed=None,
        extra_modules=(), depth=None, coverage=False, dfid=None, heap=None, keep_dir=None, extra=None, on_payload=None):
    """Run TLC on spec/<module>.tla with the given cfg text in a scratch copy of spec/."""
    wd = keep_dir or scratch("verif-tlc-")
    for f in os.listdir(SPEC):
        if f.endswith(".tla"):
            shutil.copy(os.path.join(SPEC, f), wd)
    with open(os.path.join(wd, module + ".cfg"), "w") as f:
        f.write(cfg)
    for name, text in (extra or {}).items():
        with open(os.path.join(wd, name), "w") as f:
            f.write(text)
    for name, path in (files or {}).items():
        dst = os.path.join(wd, name)
        if os.path.abspath(path) != os.path.abspath(dst):
            try:
                os.link(path, dst)
            except OSError:
                shutil.copy(path, dst)
    args = ["timeout", str(int(timeout)), "java", "-XX:+UseParallelGC", "-Xss512m"]
    if heap:
        args.append("-Xmx" + heap)
    args += ["-cp", "/opt/veriftools/tla/tla2tools.jar:/opt/veriftools/tla/CommunityModules-deps.jar",
             "tlc2.TLC", "-workers", str(workers or NCPU), "-metadir", os.path.join(wd, "meta"),
             "-config", module + ".cfg", "-noGenerateSpecTE"]
    if simulate:
        args += ["-simulate", simulate]
    if depth:
        args += ["-depth", str(depth)]
    if seed is not None:
        args += ["-seed", str(seed)]
    if coverage:
        args += ["-coverage", "1"]
    args.append(module + ".tla")
    st = time.time()
    r = TlcResult()
    if on_payload is None:
        p = subprocess.run(args, cwd=wd, capture_output=True, text=True, errors="replace")
        r.rc = p.returncode
        r.out = p.stdout + p.stderr
        r.lines = p.stdout.splitlines()
    else:
        # streaming: payload lines (PrintT of a tuple) go to the callback and are not kept; the callback returns False
        # to stop TLC (r.error = "aborted")
        proc = subprocess.Popen(args, cwd=wd, stdout=subprocess.PIPE, stderr=subprocess.STDOUT, text=True, errors="replace")
        keep, aborted = [], False
        for ln in proc.stdout:
            if ln.startswith('<<"'):
                if not aborted and on_payload(ln.rstrip("\n")) is False:
                    aborted = True
                    proc.kill()
            elif len(keep) < 200000:
                keep.append(ln)
        proc.wait()
        r.rc = proc.returncode
        r.out = "".join(keep)
        r.lines = []
        if aborted:
            r.wall = time.time() - st
            r.dir = wd
            r.error = "aborted"
            return r
    r.wall = time.time() - st
    r.dir = wd
    m = re.findall(r"(\d+) states generated, (\d+) distinct states found", r.out)
    if m:
        r.generated, r.distinct = int(m[-1][0]), int(m[-1][1])
    m = re.search(r"depth of the complete state graph search is (\d+)", r.out)
    if m:
        r.depth = int(m.group(1))
    m = re.search(r"Invariant (\S+) is violated", r.out)
    if m:
        r.violated = m.group(1)
    m = re.search(r"(Temporal properties were violated|Action property \S+ is violated|property (\S+) is violated)", r.out)
    if m and not r.violated:
        r.violated = m.group(0)
    if r.rc == 124:
        r.error = "timeout"
    elif "Error:" in r.out and not r.violated:
        mm = re.search(r"Error: (.*)", r.out)
        r.error = mm.group(1) if mm else "error"
    elif "java.lang.OutOfMemoryError" in r.out:
        r.error = "oom"
    if r.error and r.error != "timeout":
        # the text around the first error (the tail of a long run is other workers' output)
        i = r.out.find("Error:")
        r.errctx = r.out[max(0, i - 1500):i + 2500] if i >= 0 else r.out[-3000:]
        if os.environ.get("VERIF_KEEP"):
            open(os.path.join(wd, "tlc.out"), "w").write(r.out)
    return r


def apalache(module, opts, timeout=600, edit=None):
    """Run apalache-mc check on spec/<module>.tla in a scratch copy of spec/ (edit: {file: (old, new)} textual change of
    the copy, for negative controls). Returns (outcome, wall, tail of the output); outcome = "NoError" | "Error" | None."""
    wd = scratch("verif-apa-")
    for f in os.listdir(SPEC):
        if f.endswith(".tla"):
            shutil.copy(os.path.join(SPEC, f), wd)
    for f, (old, new) in (edit or {}).items():
        t = open(os.path.join(wd, f)).read()
        if old not in t:
            raise Inconclusive("apalache negative control: text to edit not found in " + f)
        open(os.path.join(wd, f), "w").write(t.replace(old, new))
    st = time.time()
    p = subprocess.run(["timeout", str(int(timeout)), "apalache-mc", "check", "--out-dir=" + os.path.join(wd, "_apalache-out")] + list(opts) + [module + ".tla"],
                       cwd=wd, capture_output=True, text=True, errors="replace")
    out = p.stdout + p.stderr
    m = re.search(r"The outcome is: (\w+)", out)
    return (m.group(1) if m else None), time.time() - st, out[-2000:]


def parse_payload(ln, tag):
    """one line printed by PrintT(<<tag, ToJson(x)>>) -> x (None if the line is something else)."""
    pre = '<<"%s", ' % tag
    if not (ln.startswith(pre) and ln.endswith(">>")):
        return None
    lit = ln[len(pre):-2]
    try:
        return json.loads(json.loads(lit))
    except Exception:
        # TLC escapes: try a manual unescape
        s = lit[1:-1].replace('\\"', '"').replace("\\\\", "\\")
        return json.loads(s)


def tlc_payloads(res, tag):
    """JSON payloads printed by PrintT(<<tag, ToJson(x)>>)."""
    out = []
    for ln in res.lines:
        x = parse_payload(ln, tag)
        if x is not None:
            out.append(x)
    return out


def cfg_text(spec="Spec", constants=None, invariants=(), properties=(), post=None, deadlock=False,
             view=None, constraint=None, action_constraint=None, init=None, next_=None, symmetry=None):
    ls = []
    if init:
        ls += ["INIT " + init, "NEXT " + next_]
    else:
        ls.append("SPECIFICATION " + spec)
    if constants:
        ls.append("CONSTANTS")
        for k, v in constants.items():
            ls.append("  %s = %s" % (k, tla_val(v)))
    for i in invariants:
        ls.append("INVARIANT " + i)
    for p in properties:
        ls.append("PROPERTY " + p)
    if post:
        ls.append("POSTCONDITION " + post)
    if view:
        ls.append("VIEW " + view)
    if constraint:
        ls.append("CONSTRAINT " + constraint)
    if action_constraint:
        ls.append("ACTION_CONSTRAINT " + action_constraint)
    if symmetry:
        ls.append("SYMMETRY " + symmetry)
    ls.append("CHECK_DEADLOCK " + ("TRUE" if deadlock else "FALSE"))
    return "\n".join(ls) + "\n"


def tla_val(v):
    if isinstance(v, bool):
        return "TRUE" if v else "FALSE"
    if isinstance(v, int):
        return str(v)
    if isinstance(v, str):
        if v.startswith("@"):  # raw TLA expression / model value
            return v[1:]
        return '"%s"' % v
    if isinstance(v, (set, frozenset)):
        return "{" + ", ".join(tla_val(x) for x in sorted(v, key=str)) + "}"   # {} for the empty set
    if isinstance(v, (list, tuple)):
        return "<<" + ", ".join(tla_val(x) for x in v) + ">>"
    raise ValueError(v)


# ---------------------------------------------------------------- harness runs
def run_bin(name, args, timeout=1800, cwd=None, env=None, ok_codes=(0,)):
    p = subprocess.run([os.path.join(BIN, name)] + args, capture_output=True, text=True, timeout=timeout,
                       cwd=cwd, env=env or goenv(), errors="replace")
    if p.returncode not in ok_codes:
        raise Inconclusive("%s exited %d: %s" % (name, p.returncode, (p.stderr or p.stdout)[-3000:]))
    return p


def write_ndjson(path, items):
    with open(path, "w") as f:
        for it in items:
            f.write(json.dumps(it, separators=(",", ":")) + "\n")


def read_ndjson(path):
    out = []
    with open(path) as f:
        for ln in f:
            ln = ln.strip()
            if ln:
                out.append(json.loads(ln))
    return out


# ---------------------------------------------------------------- evidence / findings
def write_evidence(pid, tier, seed, level, coverage, assumptions, wall, violations, extra=None):
    os.makedirs(EVID, exist_ok=True)
    ev = {"property_id": pid, "tier": tier, "seed": int(seed), "level": level, "coverage": coverage,
          "assumptions": assumptions, "wall_s": round(wall, 2), "violations": int(violations)}
    if extra:
        ev.update(extra)
    with open(os.path.join(EVID, pid + ".json"), "w") as f:
        json.dump(ev, f, indent=1, sort_keys=True, default=str)
    return ev


def load_findings():
    p = os.path.join(VERIF, "known_findings.json")
    if not os.path.exists(p):
        return []
    return json.load(open(p))


def match_finding(pid, sig):
    """An open finding matches only if every key of its signature equals the violation's."""
    for f in load_findings():
        if f.get("property") != pid or f.get("status") != "open":
            continue
        fs = f.get("signature", {})
        if all(sig.get(k) == v for k, v in fs.items()):
            return f
    return None


def save_replay(pid, obj):
    os.makedirs(REPLAYS, exist_ok=True)
    blob = json.dumps(obj, sort_keys=True)
    h = hashlib.sha1(blob.encode()).hexdigest()[:12]
    p = os.path.join(REPLAYS, "%s-%s.json" % (pid, h))
    with open(p, "w") as f:
        f.write(blob)
    return p


def seed_of():
    try:
        return int(os.environ.get("VERIF_SEED", "1"))
    except ValueError:
        return 1


def finish(pid, violations, known, inconclusive=None):
    """Print verdict lines and return the exit code."""
    for k in known:
        print("KNOWN-FINDING: property=%s %s" % (pid, k))
    for v in violations:
        print("VIOLATION property=%s replay=%s" % (pid, v))
    if violations:
        return 1
    if inconclusive:
        print("INCONCLUSIVE property=%s %s" % (pid, inconclusive))
        return 2
    print("OK property=%s" % pid)
    return 0
