"""C06 (linearizable reads) and C14 (Close) : spec/WalConc.tla + harness/cmd/concdrive + spec/ConcJudge.tla."""
import json, os, random, subprocess, time
import vlib
from vlib import *

ASSUME = [
    "schedule points are the verifPoint hooks (tag verif) and the sim filesystem's Sync gate; interleavings inside a "
    "single hook-free stretch of code are explored only by the free-running runs under the Go race detector",
    "read intervals [from,to] are over-approximations sampled from the writer driver's counters (sound: never rejects a linearizable read)",
    "a call that does not return within 10 s with its goroutine parked inside raft-wal code is a deadlock",
]


def mc_module(prog):
    return "---- MODULE MCWalConc ----\nEXTENDS WalConc\nMCProg == <<%s>>\n====\n" % ", ".join('"%s"' % p for p in prog)


def conc_cfg(consts, invariants, deadlock=True, view=True):
    c = dict(consts)
    c.setdefault("CoverProcs", set())
    ls = ["SPECIFICATION " + ("EagerSpec" if c.get("Record") else "Spec"), "CONSTANTS", "  Prog <- MCProg"]
    for k, v in c.items():
        ls.append("  %s = %s" % (k, tla_val(v)))
    for i in invariants:
        ls.append("INVARIANT " + i)
    if view:
        ls.append("VIEW View")
    ls.append("CHECK_DEADLOCK " + ("TRUE" if deadlock else "FALSE"))
    return "\n".join(ls) + "\n"


INVS = ["NoPanic", "Justified", "DurableFirst", "WriterOK", "StableOK", "Released", "Reclaimed"]


def design_run(prog, consts, stats, timeout):
    cfg = conc_cfg(dict(consts, Record=False), INVS)
    r = tlc("MCWalConc", cfg, extra={"MCWalConc.tla": mc_module(prog)}, timeout=timeout, heap="24g")
    if r.error == "timeout":
        stats["design_timeout"] = True
    elif r.error or r.violated or "Deadlock reached" in r.out:
        raise Inconclusive("WalConc design run (repaired design) failed: %s %s\n%s" % (r.error, r.violated, r.out[-3000:]))
    stats["design_states"] = stats.get("design_states", 0) + r.generated
    stats["design_distinct"] = stats.get("design_distinct", 0) + r.distinct
    stats["design_wall"] = stats.get("design_wall", 0) + r.wall
    return r


def liveness_run(prog, consts, stats, timeout, expect_ok=True):
    """C14 'never hangs' at design level: under weak fairness of every goroutine (PlusCal fair processes) every call
    returns - PROPERTY Termination. Catches what the deadlock check cannot: a livelock (e.g. the re-validation loop of
    acquireState spinning). Run without VIEW (a view is unsound for liveness). expect_ok=False is the negative control:
    the pinned design (FIXED = FALSE: Close does not wake a parked writer) must violate it."""
    c = dict(consts, Record=False)
    c.setdefault("CoverProcs", set())
    ls = ["SPECIFICATION Spec", "CONSTANTS", "  Prog <- MCProg"] + ["  %s = %s" % (k, tla_val(v)) for k, v in c.items()]
    ls += ["PROPERTY Termination", "CHECK_DEADLOCK FALSE"]
    r = tlc("MCWalConc", "\n".join(ls) + "\n", extra={"MCWalConc.tla": mc_module(prog)}, timeout=timeout, heap="16g")
    bad = "Temporal property Termination was violated" in (r.out or "") or "Temporal property Termination was violated" in str(r.error)
    key = "liveness" if expect_ok else "liveness_control"
    if r.error == "timeout":
        stats[key + "_timeout"] = True
        return
    if expect_ok and (bad or r.error or r.violated):
        raise Inconclusive("WalConc liveness run (repaired design) failed: %s %s\n%s" % (r.error, r.violated, r.out[-3000:]))
    if not expect_ok and not bad:
        raise Inconclusive("WalConc liveness negative control was not rejected (FIXED = FALSE must leave a parked writer "
                           "waiting for ever): %s\n%s" % (r.error, r.out[-2000:]))
    stats[key + "_states"] = stats.get(key + "_states", 0) + r.distinct
    stats[key + "_wall"] = round(stats.get(key + "_wall", 0) + r.wall, 1)


def gen_schedules(prog, consts, num, seed, stats):
    cfg = conc_cfg(dict(consts, Record=True), ["EmitSched"], deadlock=False, view=False)
    r = tlc("MCWalConc", cfg, extra={"MCWalConc.tla": mc_module(prog)}, timeout=300, workers=1,
            simulate="num=%d" % num, depth=150, seed=seed)
    if r.error and r.error != "timeout":
        raise Inconclusive("WalConc schedule generation failed: %s\n%s" % (r.error, r.out[-2000:]))
    out, seen = [], set()
    for p in tlc_payloads(r, "SCHED"):
        k = json.dumps(p["sched"])
        if k not in seen:
            seen.add(k)
            out.append(p["sched"])
    stats["sched_generated"] = stats.get("sched_generated", 0) + len(out)
    return out


def gen_cover_schedules(prog, consts, cover, stats, cap, timeout=400, solo_cap=600):
    """Coverage-directed export (spec/WalConc.tla CoverSpec/CoverPairs): one shortest schedule prefix per reachable
    co-location of two goroutines at a pair of labels, found by TLC breadth-first search."""
    c = dict(consts, Record=True, CoverProcs=set(cover))
    ls = ["SPECIFICATION CoverSpec", "CONSTANTS", "  Prog <- MCProg"]
    for k, v in c.items():
        ls.append("  %s = %s" % (k, tla_val(v)))
    ls += ["INVARIANT CoverPairs", "VIEW View", "CHECK_DEADLOCK FALSE"]
    r = tlc("MCWalConc", "\n".join(ls) + "\n", extra={"MCWalConc.tla": mc_module(prog)}, timeout=timeout, workers=1, heap="8g")
    if r.error and r.error != "timeout":
        raise Inconclusive("WalConc coverage export failed: %s\n%s" % (r.error, r.out[-2000:]))
    ps = tlc_payloads(r, "SCHED")
    stats["cover_states"] = stats.get("cover_states", 0) + r.distinct
    stats["cover_colocations"] = stats.get("cover_colocations", 0) + sum(p["fresh"] for p in ps)
    scheds = [p["sched"] for p in ps if p["sched"]]
    # drop schedules that are a proper prefix of another one
    keys = sorted({json.dumps(s) for s in scheds}, key=len, reverse=True)
    keep = []
    for k in keys:
        body = k[:-1]
        if not any(o.startswith(body + ",") for o in keep):
            keep.append(k)
    out = [(json.loads(k), "") for k in keep]
    random.Random(len(out)).shuffle(out)
    out = out[:cap]
    # every witness (also those that are a prefix of a longer one) continued "one of the co-located goroutines first"
    # (harness/cmd/concdrive Scenario.Solo): the prefix is played, then that goroutine alone runs until it finishes or blocks
    solo = []
    for p in ps:
        if p["sched"]:
            for w in sorted(p.get("who") or []):
                solo.append((p["sched"], PROC_NAMES.get(w, "r%d" % w)))
    random.Random(len(solo)).shuffle(solo)
    solo = solo[:solo_cap]
    stats["cover_schedules"] = stats.get("cover_schedules", 0) + len(out)
    stats["cover_solo"] = stats.get("cover_solo", 0) + len(solo)
    return out + solo


PROC_NAMES = {10: "w", 20: "rot", 30: "closer", 40: "stable"}


def ordered_pairs(sched):
    """ordered pairs of hook passages of different processes (the racing orders a schedule decides)."""
    ps = set()
    for i, a in enumerate(sched):
        for b in sched[i + 1:]:
            if a[0] != b[0]:
                ps.add((a[0], a[1], b[0], b[1]))
    return ps


def select(scheds, want):
    """greedy selection maximising pairwise-order coverage."""
    covered, pick = set(), []
    cand = [(s, ordered_pairs(s)) for s in scheds]
    while cand and len(pick) < want:
        best = max(cand, key=lambda c: len(c[1] - covered))
        if not (best[1] - covered) and len(pick) >= want // 2:
            break
        pick.append(best[0])
        covered |= best[1]
        cand.remove(best)
    return pick, covered


def run_conc(scen, wd, tag, race=False):
    sp = os.path.join(wd, tag + ".scen.ndjson")
    tp = os.path.join(wd, tag + ".trace.ndjson")
    write_ndjson(sp, scen)
    name = "concdrive-race" if race else "concdrive"
    env = goenv()
    env["GORACE"] = "halt_on_error=0 exitcode=0"
    p = subprocess.run([os.path.join(vlib.BIN, name), "-scen", sp, "-out", tp], capture_output=True, text=True,
                       timeout=1800, env=env, errors="replace")
    if p.returncode != 0:
        # the driver process died. If it was taken down by a panic inside raft-wal on one of the library's own
        # goroutines (which the driver cannot recover), that is an observation: the scenario in progress panicked.
        err = p.stderr or ""
        i = err.find("panic:")
        j = err.find("fatal error:")
        k = min(x for x in (i, j, len(err)) if x >= 0)
        head = err[k:k + 4000]
        frames = [l for l in head.splitlines() if l and not l.startswith(("\t", " "))]
        lib_first = next((l for l in frames if "hashicorp/raft-wal" in l or "verif/harness" in l), "")
        if (i >= 0 or j >= 0) and "hashicorp/raft-wal" in lib_first:
            lines = open(tp, errors="replace").read().split("\n")
            good = []
            for l in lines:
                try:
                    json.loads(l)
                    good.append(l)
                except Exception:
                    pass
            good.append(json.dumps({"ev": "panic", "who": "library goroutine (process died)", "msg": head.splitlines()[0][:200],
                                    "stack": head[:1500]}))
            open(tp, "w").write("\n".join(good) + "\n")
            return tp, 0, ""
        raise Inconclusive("%s exited %d: %s" % (name, p.returncode, (p.stderr or p.stdout)[-3000:]))
    if '"ev":"harness_panic"' in open(tp).read():
        raise Inconclusive("the harness itself panicked: " + [l for l in open(tp) if "harness_panic" in l][0][:1500])
    reports = [r for r in p.stderr.split("==================") if "WARNING: DATA RACE" in r]
    lib = [r for r in reports if "github.com/hashicorp/raft-wal" in r or "/raft-wal." in r or "raft-wal/segment" in r]
    if len(lib) < len(reports) and not lib:
        raise Inconclusive("data race inside the harness itself (not in raft-wal):\n" + reports[0][:2000])
    return tp, len(lib), "\n==================\n".join(lib)


def judge(trace, wd, stats):
    cfg = cfg_text(constants={"TraceFile": "trace.ndjson"}, post="Accepted")
    r = tlc("ConcJudge", cfg, files={"trace.ndjson": trace}, workers=1, timeout=900, heap="8g")
    if r.error or r.violated:
        raise Inconclusive("ConcJudge did not accept the trace format: %s %s\n%s" % (r.error, r.violated, r.out[-3000:]))
    pl = tlc_payloads(r, "VIOL")
    if len(pl) != 1:
        raise Inconclusive("ConcJudge printed no verdict\n" + r.out[-2000:])
    stats["judge_states"] = stats.get("judge_states", 0) + r.generated
    stats["reads_judged"] = stats.get("reads_judged", 0) + pl[0]["nobs"]
    return pl[0]["v"]


def locate(trace, viols):
    lines = open(trace).read().splitlines()
    out = []
    for v in viols:
        # find the scenario (last reset before the line)
        i = v["line"] - 1
        ev = json.loads(lines[i])
        k = i
        while k >= 0 and '"ev":"reset"' not in lines[k]:
            k -= 1
        sid = json.loads(lines[k])["id"] if k >= 0 else "?"
        out.append({"clause": v["clause"], "scenario": sid, "event": ev})
    return out


def check_conc(pid, tier, seed):
    ti = 0 if tier == "quick" else 1
    t0 = time.time()
    build(["concdrive"])
    build(["concdrive"], race=True)
    wd = scratch("verif-%s-" % pid)
    stats = {}
    rng = random.Random(seed)
    closer = pid == "C14"
    # (program, design-run constants, schedule-generation constants); the exhaustive design run uses the
    # smaller constants, the simulated schedules (no state-space limit) the larger ones
    if closer:
        b = dict(NReaders=1, ReadsEach=1, SealAt=1, FIXED=True, WithCloser=True, WithStable=True, EarlyPublish=False)
        cfgs = ([(["store"], b, dict(b, NReaders=2)), (["store", "store"], None, b)],
                [(["store", "store"], b, dict(b, NReaders=2)), (["store", "delt"], b, dict(b, NReaders=2)),
                 (["store", "delh", "store"], b, b), (["store", "store", "delt", "store"], None, dict(b, SealAt=2))])[ti]
    else:
        b = dict(NReaders=1, ReadsEach=1, SealAt=1, FIXED=True, WithCloser=False, WithStable=False, EarlyPublish=False)
        cfgs = ([(["store", "delt", "store"], b, dict(b, NReaders=2)), (["store", "store", "delh"], None, dict(b, NReaders=2))],
                [(["store", "delt"], dict(b, NReaders=2), dict(b, NReaders=3)), (["store", "store", "delh"], b, dict(b, NReaders=2)),
                 (["store", "delt", "store", "store"], b, dict(b, NReaders=2, SealAt=2)),
                 (["store", "store", "delt", "delh", "store"], None, dict(b, NReaders=2, ReadsEach=2))])[ti]
    if closer:
        lb = dict(b, WithStable=False)
        if ti == 0:
            liveness_run(["store"], dict(lb, NReaders=1), stats, 300)
        else:
            liveness_run(["store", "store"], lb, stats, 2400)
            liveness_run(["store"], b, stats, 1800)
            liveness_run(["store", "store"], dict(lb, FIXED=False), stats, 1200, expect_ok=False)
    scen, allpairs, nsched = [], set(), 0
    for pi, (prog, dconsts, consts) in enumerate(cfgs):
        if dconsts is not None:
            design_run(prog, dconsts, stats, timeout=(240, 1500)[ti])
        ss = gen_schedules(prog, consts, (400, 3000)[ti], seed + pi, stats)
        pick, cov = select(ss, (40, 300)[ti])
        cover = [30] if closer else list(range(1, consts["NReaders"] + 1))
        cconsts = consts if ti == 1 else dict(consts, NReaders=1)      # quick: one reader keeps the breadth-first export small
        if ti == 0:
            cover = [30] if closer else [1]
        cs = gen_cover_schedules(prog, cconsts, (cover if ti == 0 else []), stats, (120, 1500)[ti], timeout=(240, 1500)[ti])
        pick = [(s, "") for s in pick] + [(s, solo) for s, solo in cs if solo or s not in pick]
        for s, _ in cs:
            cov |= ordered_pairs(s)
        allpairs |= {(pi,) + p for p in cov}
        for k, (sc, solo) in enumerate(pick):
            scen.append({"id": "%s-p%d-s%d" % (pid, pi, k), "mode": "forced", "world": "sim", "prog": prog,
                         "nreaders": consts["NReaders"], "readsEach": consts["ReadsEach"], "withCloser": closer,
                         "withStable": consts["WithStable"], "segSize": 60 if consts["SealAt"] == 1 else 80,
                         "sched": sc, "seed": seed, "solo": solo})
        nsched += len(pick)
    log("%s: %d forced schedules covering %d ordered racing pairs" % (pid, nsched, len(allpairs)))
    trace, _, _ = run_conc(scen, wd, "forced")
    viols = locate(trace, judge(trace, wd, stats))
    realised = sum(1 for l in open(trace) if '"ev":"schedule"' in l and '"aborted":false' in l)
    # free-running histories under the race detector
    free = []
    nfree = (12, 120)[ti]
    for k in range(nfree):
        n = rng.randint(12, 40)
        prog = [rng.choice(["store", "store", "store", "delh", "delt", "jump"]) for _ in range(n)]
        free.append({"id": "%s-free%d" % (pid, k), "mode": "free", "world": ("real" if k % 2 == 0 else "sim"), "prog": prog,
                     "nreaders": 4, "readsEach": (150, 400)[ti], "withCloser": closer, "withStable": True,
                     "segSize": rng.choice([60, 80, 200, 4096]), "sched": [], "seed": seed * 1000 + k,
                     "preload": rng.randint(0, 6), "closeAfter": rng.randint(0, n), "stableClients": 3})
    # hot-tail stress (no race detector: speed matters): many readers spinning on the index being appended / the newest one
    hot = []
    for k in range((3, 12)[ti]):
        hot.append({"id": "%s-hot%d" % (pid, k), "mode": "free", "world": "sim", "prog": ["store"] * (600, 1500)[ti],
                    "nreaders": 1, "readsEach": 50, "withCloser": closer, "withStable": False, "segSize": (4096, 65536, 512)[k % 3],
                    "sched": [], "seed": seed * 1000 + 500 + k, "preload": 1, "closeAfter": (600, 1500)[ti] - 1,
                    "hotReaders": 2 * NCPU})
    # ... and the same on the tail segment itself (segment.Writer over the sim fs): the publication protocol of the
    # in-memory index (offsets, commit index) under tight-looping readers
    for k in range((4, 16)[ti]):
        hot.append({"id": "%s-seg%d" % (pid, k), "mode": "segstress", "world": "sim", "prog": ["store"] * 20000, "nreaders": 0,
                    "readsEach": 0, "withCloser": False, "withStable": False, "segSize": 4 << 20, "sched": [], "seed": seed + k,
                    "preload": 0, "closeAfter": 0, "hotReaders": (2, 8, 4, 1)[k % 4] * NCPU})
    # entries above the 64 KiB read buffer (two ReadAt calls per read): a second reader runs between the two reads of
    # the first one, in the tail and in sealed segments
    # ... and the other hand-offs of the pooled read buffer (bigVariants in cmd/concdrive): reader A parked before / after
    # its n-th ReadAt while reader B completes whole reads, after reads that left their buffers in the pool
    for k, (seg, var) in enumerate([(s, v) for v in range(8) for s in (1 << 20, 100000)]):
        hot.append({"id": "%s-big%d" % (pid, k), "mode": "bigread", "world": "sim", "prog": [], "nreaders": 2, "readsEach": 1,
                    "withCloser": False, "withStable": False, "segSize": seg, "sched": [], "seed": seed + 17 * k, "preload": 0,
                    "closeAfter": 0, "variant": var})
    htrace, _, _ = run_conc(hot, wd, "hot")
    viols += locate(htrace, judge(htrace, wd, stats))
    stats["hot_reads"] = sum(json.loads(l).get("hotReads", 0) for l in open(htrace) if '"hotReads"' in l)
    stats["seg_tail_reads"] = sum(json.loads(l).get("segReads", 0) for l in open(htrace) if '"segReads"' in l)
    stats["seg_tail_appends"] = sum(json.loads(l).get("segAppends", 0) for l in open(htrace) if '"segAppends"' in l)
    free += hot
    ftrace, races, stderr = run_conc(free[:nfree], wd, "free", race=True)
    viols += locate(ftrace, judge(ftrace, wd, stats))
    overlapping = sum(1 for l in open(ftrace) if '"ev":"read"' in l and json.loads(l)["from"] < json.loads(l)["to"])
    if races:
        rp = os.path.join(wd, "race.txt")
        open(rp, "w").write(stderr)
        viols.append({"clause": "DataRace", "scenario": "free", "event": {"report": stderr[:3000]}})
    # verdict
    groups = {}
    for v in viols:
        sig = {"clause": v["clause"], "msg": (v["event"].get("msg") or "")[:60]}
        groups.setdefault(json.dumps(sig, sort_keys=True), []).append(v)
    known, paths = [], []
    allscen = {s["id"]: s for s in scen + free}
    for k, vs in sorted(groups.items()):
        sig = json.loads(k)
        f = match_finding(pid, sig)
        rp = save_replay(pid, {"property": pid, "kind": "conc", "module": "checks_conc", "signature": sig, "count": len(vs),
                               "event": vs[0]["event"], "scenario": allscen.get(vs[0]["scenario"])})
        if f:
            known.append("%s (%d occurrences; e.g. replay=%s)" % (f["what"], len(vs), rp))
        else:
            paths.append(rp)
            log("VIOLATION", pid, sig, "x%d" % len(vs), rp)
    cov = {"states": max(1, stats.get("design_distinct", 0)), "transitions": max(1, stats.get("design_states", 0)),
           "traces_validated_against_impl": len(scen) + len(free),
           "evaluations": len(scen) + len(free),
           "distinct_nontrivial": len(allpairs) + overlapping,
           "rule": "forced schedules: hook-passage sequences exported by TLC from spec/WalConc.tla (simulation), selected greedily for "
                   "pairwise-order coverage of racing hook passages of different goroutines, replayed through the verifPoint gates; "
                   "free-running: writer programs x 4 readers (+Close, +StableStore client) under -race on real files and on the sim fs; "
                   "distinct_nontrivial = distinct ordered racing pairs decided by the replayed schedules + free-running reads that "
                   "overlapped at least one writer operation",
           "samples": [scen[0] if scen else {}, {k: free[0][k] for k in ("id", "prog", "nreaders", "segSize", "closeAfter")}],
           "forced_schedules": len(scen), "forced_realised": realised, "ordered_racing_pairs": len(allpairs),
           "free_histories": len(free), "overlapping_reads": overlapping, "reads_judged": stats.get("reads_judged", 0),
           "race_reports": races, "tlc": {k: (round(v, 2) if isinstance(v, float) else v) for k, v in stats.items()}}
    write_evidence(pid, tier, seed, "model_checking", cov, ASSUME, time.time() - t0, len(paths))
    if realised < max(1, len(scen) // 3):
        return finish(pid, paths, known, inconclusive=None if paths else "only %d of %d forced schedules could be realised on the real code" % (realised, len(scen)))
    return finish(pid, paths, known)


def c13_stage(seed, tier, stats):
    """C13 'with concurrent readers pinning old state': truncations that delete whole segments race with readers
    (forced schedules from WalConc's coverage export + free-running); once everything has returned the sim directory
    must hold exactly the listed segments (ConcJudge clause FilesNotReclaimed)."""
    ti = 0 if tier == "quick" else 1
    build(["concdrive"])
    wd = scratch("verif-C13c-")
    rng = random.Random(seed)
    b = dict(NReaders=1, ReadsEach=1, SealAt=1, FIXED=True, WithCloser=False, WithStable=False, EarlyPublish=False)
    scen = []
    for pi, prog in enumerate(([["store", "store", "delh"]], [["store", "store", "delh"], ["store", "delt", "store", "delh"]])[ti]):
        cs = gen_cover_schedules(prog, b, [1], stats, (120, 600)[ti], timeout=(200, 900)[ti])
        for k, (sc, solo) in enumerate(cs):
            if True:
                scen.append({"id": "C13c-p%d-s%d" % (pi, k), "mode": "forced", "world": "sim", "prog": prog,
                             "nreaders": 1, "readsEach": 1, "withCloser": False, "withStable": False, "segSize": 60, "sched": sc,
                             "seed": seed, "solo": solo})
    for k in range((6, 40)[ti]):
        n = rng.randint(10, 30)
        prog = [rng.choice(["store", "store", "delh", "delt"]) for _ in range(n)]
        scen.append({"id": "C13c-free%d" % k, "mode": "free", "world": "sim", "prog": prog, "nreaders": 3, "readsEach": 100,
                     "withCloser": False, "withStable": False, "segSize": rng.choice([60, 80]), "sched": [], "seed": seed * 77 + k,
                     "preload": rng.randint(0, 4), "closeAfter": 0})
    # ... and with Close in the race: a reader may pin a state over a truncation AND over Close; what it releases last still
    # has to take the removed segments' files away
    bc = dict(b, WithCloser=True)
    for pi, prog in enumerate(([["store", "store", "delh"]], [["store", "store", "delh"], ["store", "delt", "store", "delh"]])[ti]):
        cs = gen_cover_schedules(prog, bc, [1], stats, (120, 400)[ti], timeout=(200, 900)[ti])
        for k, (sc, solo) in enumerate(cs):
            scen.append({"id": "C13c-close-p%d-s%d" % (pi, k), "mode": "forced", "world": "sim", "prog": prog,
                         "nreaders": 1, "readsEach": 1, "withCloser": True, "withStable": False, "segSize": 60, "sched": sc,
                         "seed": seed, "solo": solo})
    for k in range((6, 30)[ti]):
        n = rng.randint(10, 30)
        prog = [rng.choice(["store", "store", "delh", "delt"]) for _ in range(n)]
        scen.append({"id": "C13c-closefree%d" % k, "mode": "free", "world": "sim", "prog": prog, "nreaders": 3, "readsEach": 100,
                     "withCloser": True, "withStable": False, "segSize": rng.choice([60, 80]), "sched": [], "seed": seed * 79 + k,
                     "preload": rng.randint(0, 4), "closeAfter": rng.randint(3, n)})
    trace, _, _ = run_conc(scen, wd, "c13")
    vs = [v for v in locate(trace, judge(trace, wd, stats)) if v["clause"] in ("FilesNotReclaimed", "Panic", "Deadlock")]
    byid = {s["id"]: s for s in scen}
    return [dict(v, scenario_obj=byid.get(v["scenario"])) for v in vs], len(scen)


def c08_stage(seed, tier, stats):
    """C08 'across any interleaving': several StableStore clients (SetUint64/GetUint64, one key each, plus Set/Get) run
    concurrently with each other, with appends, truncations and rotations, under the race detector; each client must read
    back what it wrote last (ConcJudge clause StableWrong), no panic, no data race in raft-wal."""
    ti = 0 if tier == "quick" else 1
    build(["concdrive"], race=True)
    wd = scratch("verif-C08c-")
    rng = random.Random(seed)
    scen = []
    for k in range((6, 40)[ti]):
        n = rng.randint(8, 30)
        prog = [rng.choice(["store", "store", "delh", "delt"]) for _ in range(n)]
        scen.append({"id": "C08c-free%d" % k, "mode": "free", "world": ("real" if k % 2 == 0 else "sim"), "prog": prog, "nreaders": 1,
                     "readsEach": 20, "withCloser": False, "withStable": True, "segSize": rng.choice([60, 80, 4096]), "sched": [],
                     "seed": seed * 91 + k, "preload": rng.randint(0, 3), "closeAfter": 0, "stableClients": 4})
    trace, races, stderr = run_conc(scen, wd, "c08", race=True)
    vs = [v for v in locate(trace, judge(trace, wd, stats)) if v["clause"] in ("StableWrong", "StableError", "Panic", "Deadlock")]
    if races:
        vs.append({"clause": "DataRace", "scenario": scen[0]["id"], "event": {"report": stderr[:3000]}})
    byid = {s["id"]: s for s in scen}
    return [dict(v, scenario_obj=byid.get(v["scenario"])) for v in vs], len(scen)


def stable_judge(trace, wd, stats):
    cfg = cfg_text(constants={"TraceFile": "t.ndjson"}, post="Accepted")
    r = tlc("StableTrace", cfg, files={"t.ndjson": trace}, workers=1, timeout=1200, heap="8g")
    if r.error or r.violated:
        raise Inconclusive("StableTrace did not accept the trace format: %s %s\n%s" % (r.error, r.violated, (r.errctx or r.out)[-3000:]))
    pl = tlc_payloads(r, "VIOL")
    if len(pl) != 1:
        raise Inconclusive("StableTrace printed no verdict\n" + r.out[-2000:])
    stats["stable_judge_states"] = stats.get("stable_judge_states", 0) + r.generated
    stats["stable_gets_judged"] = stats.get("stable_gets_judged", 0) + pl[0]["nget"]
    stats["stable_gets_overlapping_a_set"] = stats.get("stable_gets_overlapping_a_set", 0) + pl[0]["nover"]
    return pl[0]["v"]


def c08_sched_stage(seed, tier, stats):
    """C08 'across any interleaving', exhaustively for small client programs: spec/StableConc.tla (every StableStore call =
    Start / Txn / Ret; TLC checks the per-key register property RegLin on every interleaving, the read-through-cache design
    as negative control) exports every interleaving; each is forced on the real WAL (concdrive mode stablesched: gates
    around the MetaStore's GetStable/SetStable, sim and real bolt, []byte and uint64 API), followed by quiescent reads before
    and after a restart; the recorded invocation/response history is judged by spec/StableTrace.tla (same predicate)."""
    ti = 0 if tier == "quick" else 1
    build(["concdrive"])
    wd = scratch("verif-C08s-")
    rng = random.Random(seed * 31 + 5)
    want = (8000, 40000)[ti]
    res = []

    def on_payload(ln):
        p = parse_payload(ln, "SCHED")
        if p is not None:
            if len(res) < want * 4:
                res.append(p)
            else:
                k = rng.randrange(on_payload.n + 1)      # reservoir
                if k < len(res):
                    res[k] = p
            on_payload.n += 1
        return True
    on_payload.n = 0
    r = tlc("StableConc", cfg_text(constants={"ProgSet": tier if ti else "quick", "Cache": False}, invariants=["Fresh", "Emit"]),
            timeout=(300, 1500)[ti], on_payload=on_payload)
    if r.error or r.violated:
        raise Inconclusive("StableConc design run failed: %s %s\n%s" % (r.error, r.violated, (r.errctx or r.out)[-2000:]))
    neg = tlc("StableConc", cfg_text(constants={"ProgSet": "quick", "Cache": True}, invariants=["Fresh"]), timeout=300)
    if neg.violated != "Fresh":
        raise Inconclusive("StableConc negative control (read-through cache) was not rejected: %s %s" % (neg.violated, neg.error))
    stats.update(stableconc_states=r.generated, stableconc_distinct=r.distinct, stableconc_interleavings=on_payload.n,
                 stableconc_negative_control=neg.violated)
    rng.shuffle(res)
    res = res[:want]
    scen = []
    for k, p in enumerate(res):
        scen.append({"id": "C08s-%d" % k, "mode": "stablesched", "world": ("real" if k % 12 == 0 else "sim"), "prog": [], "nreaders": 0,
                     "readsEach": 0, "withCloser": False, "withStable": True, "segSize": 4096, "sched": [], "seed": seed + k,
                     "preload": 0, "closeAfter": 0, "clients": p["progs"], "order": p["sched"], "u64": k % 2 == 0})
    trace, _, _ = run_conc(scen, wd, "c08s")
    vs = stable_judge(trace, wd, stats)
    # other observations of the runs (panic, stuck, failed open/close) through the common judge's eyes
    lines = open(trace).read().splitlines()
    out = []
    byid = {s["id"]: s for s in scen}

    def scen_of(i):
        while i >= 0 and '"ev":"reset"' not in lines[i]:
            i -= 1
        return json.loads(lines[i])["id"] if i >= 0 else "?"
    for v in vs:
        e = json.loads(lines[v["line"] - 1])
        sid = scen_of(v["line"] - 1)
        out.append({"clause": v["clause"], "scenario": sid, "event": e, "scenario_obj": byid.get(sid)})
    for i, ln in enumerate(lines):
        if ln.startswith('{"ev":"stuck"') or ln.startswith('{"ev":"panic"') or ('"res":"err"' in ln and ('"ev":"open"' in ln or '"ev":"close"' in ln)):
            e = json.loads(ln)
            sid = scen_of(i)
            out.append({"clause": {"stuck": "Deadlock", "panic": "Panic"}.get(e["ev"], "StableError"), "scenario": sid, "event": e,
                        "scenario_obj": byid.get(sid)})
    return out, len(scen)


def replay(r):
    build(["concdrive"])
    wd = scratch("verif-replay-")
    trace, races, _ = run_conc([r["scenario"]], wd, "replay")
    vs = locate(trace, judge(trace, wd, {}))
    for v in vs:
        print("rejected:", v["clause"], json.dumps(v["event"])[:300])
    if vs:
        print("VIOLATION property=%s replay=-" % r["property"])
        return 1
    print("OK property=%s (scenario no longer violates it; concurrency scenarios may need several attempts)" % r["property"])
    return 0


CHECKS = {"C06": check_conc, "C14": check_conc}
