"""C19 - migration (migrate.CopyLogs / migrate.CopyStable), DESIGN.md 2.8 / 5 "C19".

  TLC (spec/Migrate.tla)      design check of the repaired design + enumeration of ALL terminal
                              behaviours: source shape x batchBytes x store pairing x progress
                              channel kind x cancellation point
  harness/cmd/migratereplay   every behaviour = ONE real call of CopyLogs/CopyStable between real
                              stores (raft-wal, raft-boltdb/v2, raft.InmemStore), context cancelled
                              on entry of the TLC-chosen store call; records what the code returned
                              and digests of what the stores hold afterwards
  TLC (spec/MigrateTrace.tla) judges the recorded trace against the clauses of C19

A VIOLATION is only raised for a real call whose recorded observations MigrateTrace rejects.
A disagreement between the real code and the outcome Migrate.tla predicts is `impl_drift`
(evidence only)."""
import concurrent.futures as cf
import json, os, re, time
import vlib
from vlib import *

PID = "C19"

MAIN_LABELS_LOGS = ["Start", "FirstIndex", "LastIndex", "EmptyTest", "Setup", "UStart", "LoopHead", "GetLog", "Account",
                    "FlushTest", "StoreLogs", "UFlush", "Reset", "Incr", "RemTest", "RemStore", "URem", "RemReset",
                    "UDone", "Deferred"]
MAIN_LABELS_STABLE = ["UCopying", "IntLoop", "GetU", "SetU", "UInt", "KeyLoop", "GetK", "SetK", "UKey", "UDoneS"]
DESIGN_INVARIANTS = ["TypeOK", "ResultOK", "DestEqualsSource", "CancelPrefix", "CancelHonoured", "StableCopied",
                     "ProgressClosed", "NoInvalidCall", "BatchSound"]
HUGE = 1 << 30

RULE = ("spec/Migrate.tla transcribes migrate.go statement by statement (PlusCal, one label per statement, a canceller "
        "process that may fire at any label). TLC checks the C19 invariants on the repaired design "
        "(BUG_EmptySourceLoop=FALSE; with TRUE it must report the F12 counterexample) and prints EVERY terminal state "
        "(exhaustive BFS) as a scenario: source length 0..MaxLen (fresh-empty and emptied-by-truncation included) x first "
        "index x len(Data) class per entry x batchBytes x <source store, destination store> x progress channel kind "
        "(buffered+drained, nil, unbuffered+unread) x cancellation point; CopyStable: extra keys/int keys shapes x "
        "pairing x cancellation point. Cancellation labels between two store calls with no ctx check in between are the "
        "same real scenario (cancel on entry of the earlier call). Each scenario is ONE real call on real stores "
        "(raft-wal with 512-byte segments, raft-boltdb/v2, raft.InmemStore), entries with all raft.Log fields populated "
        "and distinct contents; the harness records results and field digests only; spec/MigrateTrace.tla judges every "
        "recorded call: normal return => same FirstIndex/LastIndex/every field of every entry/nothing extra, every "
        "stable key equal; cancellation => context's error (nil only if no source read was still to be started) and "
        "destination = prefix of source; no other error or panic; progress channel closed. distinct_nontrivial = "
        "distinct real scenarios (terminal behaviours after merging equivalent cancellation labels) replayed and judged")

ASSUMPTIONS = [
    "the stores are healthy (no I/O errors): error paths of migrate.go other than ctx/not-found are not exercised",
    "the destination is empty before the call (documented precondition of CopyLogs)",
    "equality of entries is judged on Index, Term, Type, Data bytes, Extensions bytes and the AppendedAt instant; "
    "nil vs empty slices, time zone and monotonic clock reading are not content",
    "all standard raft keys and all extra keys are set in the source with non-zero / non-empty values "
    "(an unset key is outside C19's statement)",
    "cancellation is injected on entry of a store call (or before the call); the code has no other observable "
    "points between two store calls",
    "a cancellation that arrives when no source read remains to be started may legitimately go unnoticed (nil)",
    "bounded: sources of at most MaxLen entries, the listed size/batchBytes classes",
]


def tiers(tier, seed):
    """TLC runs whose terminal behaviours are replayed (constants of spec/Migrate.tla)."""
    base = dict(Firsts={1, 5}, Sizes={0, 40, 3000}, Overhead=32, Stores={"wal", "bolt", "inmem"},
                ProgSet={"buf", "nil", "blocked"}, Seed=seed % 100003, TrackLabel=False, BUG_EmptySourceLoop=False)
    if tier == "quick":
        return [dict(base, MaxLen=3, BatchBytes={0, 1, 72, 73, HUGE}, NegBatch=False, ExtraShapes={0, 22}, Ops={"logs", "stable"},
                     PairMode="rotate", ProgMode="rotate")]
    return [dict(base, MaxLen=3, BatchBytes={0, 1, 72, 73, HUGE}, NegBatch=True, ExtraShapes={0, 1, 10, 22},
                 Ops={"logs", "stable"}, PairMode="all", ProgMode="rotate"),
            dict(base, MaxLen=4, Firsts={5}, BatchBytes={0, 1, 72, 3032, HUGE}, NegBatch=False, ExtraShapes={0},
                 Ops={"logs"}, PairMode="rotate", ProgMode="rotate")]


# ----------------------------------------------------------------------------- TLC: design + generation
def parse_coverage(out):
    """action name -> number of states it generated (TLC -coverage output)."""
    cov = {}
    for m in re.finditer(r"^<(\w+) line \d+, col \d+ to line \d+, col \d+ of module Migrate>: (\d+):(\d+)", out, re.M):
        cov[m.group(1)] = max(cov.get(m.group(1), 0), int(m.group(3)))
    return cov


def model_run(consts, invariants, coverage=False, timeout=900, workers=None):
    cfg = cfg_text(constants=consts, invariants=list(invariants) + ["Emit"])
    r = tlc("Migrate", cfg, timeout=timeout, coverage=coverage, workers=workers)
    return r


def scen_key(p):
    return json.dumps({k: p[k] for k in p if k not in ("label", "expect")}, sort_keys=True)


def collect(payloads, into, which="expect"):
    """Merge label-level terminal behaviours into real scenarios; the predicted outcome must not depend on the label.
    which = "expect" (repaired design) or "expect_pinned" (BUG_EmptySourceLoop=TRUE model)."""
    for p in payloads:
        k = scen_key(p)
        e = dict(p["expect"])
        e.pop("remain", None)
        cur = into.get(k)
        if cur is None:
            into[k] = {"scen": {x: p[x] for x in p if x not in ("label", "expect")}, which: p["expect"],
                       "labels": [p["label"]]}
        elif which not in cur:
            cur[which] = p["expect"]
        else:
            ce = dict(cur[which])
            ce.pop("remain", None)
            if ce != e:
                raise Inconclusive("spec bug: cancellation labels %s and %s map to the same real scenario but predict "
                                   "different outcomes: %s vs %s" % (cur["labels"], p["label"], cur[which], p["expect"]))
            if p["label"] not in cur["labels"]:
                cur["labels"].append(p["label"])


def generate(tier, seed, stats):
    runs = tiers(tier, seed)
    scen = {}
    complete = True
    with cf.ThreadPoolExecutor(max_workers=4) as ex:
        futs = [ex.submit(model_run, c, DESIGN_INVARIANTS, False) for c in runs]
        # action coverage (vacuity guard) on a reduced configuration: -coverage slows the big runs down
        fcov = ex.submit(model_run, dict(runs[0], MaxLen=2, Ops={"logs", "stable"}, ExtraShapes={11}, TrackLabel=True,
                                         PairMode="rotate", ProgMode="rotate"), DESIGN_INVARIANTS, True, 900, 2)
        # the pinned behaviour on an empty source: the design invariants must catch it (detection power of the
        # invariants), and its terminal behaviours are replayed too (cancellation during GetLog(0))
        bugc = dict(runs[0], MaxLen=0, Ops={"logs"}, BUG_EmptySourceLoop=True)
        fbug = ex.submit(model_run, bugc, DESIGN_INVARIANTS, False, 900, 1)
        fbug2 = ex.submit(model_run, bugc, [], False, 900, 2)
        res = [f.result() for f in futs]
        rbug, rbug2, rcov = fbug.result(), fbug2.result(), fcov.result()
    if rcov.error or rcov.violated:
        raise Inconclusive("Migrate.tla coverage run failed: %s %s\n%s" % (rcov.error, rcov.violated, rcov.out[-3000:]))
    cov_all = parse_coverage(rcov.out)
    plc = tlc_payloads(rcov, "SCEN")
    labels_seen = {p["label"] for p in plc}
    collect(plc, {})          # labels that the harness cannot tell apart must predict the same outcome
    stats["coverage_run_label_level_behaviours"] = len(plc)
    stats["coverage_run_real_scenarios"] = len({scen_key(p) for p in plc})
    for c, r in zip(runs, res):
        if r.error:
            raise Inconclusive("Migrate.tla run failed: %s\n%s" % (r.error, r.out[-3000:]))
        if r.violated:
            # the REPAIRED design violates a C19 invariant: a flaw of the specification, not of the code
            raise Inconclusive("Migrate.tla (repaired design) violates %s: spec bug\n%s" % (r.violated, r.out[-4000:]))
        if "Model checking completed" not in r.out:
            complete = False
        pl = tlc_payloads(r, "SCEN")
        if not pl:
            raise Inconclusive("Migrate.tla printed no scenario\n" + r.out[-2000:])
        collect(pl, scen)
        stats["design_states"] = stats.get("design_states", 0) + r.generated
        stats["design_distinct"] = stats.get("design_distinct", 0) + r.distinct
        stats["design_wall"] = round(stats.get("design_wall", 0) + r.wall, 2)
        stats["terminal_behaviours"] = stats.get("terminal_behaviours", 0) + len(pl)
        stats.setdefault("design_depth", 0)
        stats["design_depth"] = max(stats["design_depth"], r.depth)
    # --- the BUG=TRUE model
    if rbug.error or rbug2.error or rbug2.violated:
        raise Inconclusive("Migrate.tla BUG_EmptySourceLoop=TRUE run failed: %s %s\n%s" % (rbug.error, rbug2.error, rbug.out[-2000:]))
    if rbug.violated not in ("NoInvalidCall", "ResultOK"):
        raise Inconclusive("vacuity guard: the design invariants do not reject BUG_EmptySourceLoop=TRUE (violated=%s)"
                           % rbug.violated)
    stats["bug_model_violates"] = rbug.violated
    plb = tlc_payloads(rbug2, "SCEN")
    nb = len(scen)
    collect(plb, scen, "expect_pinned")
    stats["bug_model_extra_scenarios"] = len(scen) - nb
    stats["design_states"] += rbug2.generated
    stats["design_distinct"] += rbug2.distinct
    # --- vacuity guard: every label of the algorithm fired and was a cancellation point
    want = set(MAIN_LABELS_LOGS) | set(MAIN_LABELS_STABLE)
    spec_labels = set(re.findall(r'^(\w+) == /\\ pc\["main"\] = "\1"', open(os.path.join(SPEC, "Migrate.tla")).read(), re.M))
    if spec_labels != set(MAIN_LABELS_LOGS) | set(MAIN_LABELS_STABLE):
        raise Inconclusive("labels of spec/Migrate.tla changed: %s" % sorted(spec_labels ^ (set(MAIN_LABELS_LOGS) | set(MAIN_LABELS_STABLE))))
    dead = sorted(a for a in set(MAIN_LABELS_LOGS) | set(MAIN_LABELS_STABLE) | {"Cancel"} if cov_all.get(a, 0) == 0)
    if dead:
        raise Inconclusive("vacuity guard: actions of Migrate.tla never fired: %s (coverage parsed: %s)" % (dead, sorted(cov_all)))
    nocancel = sorted(want - labels_seen)
    if nocancel:
        raise Inconclusive("vacuity guard: no behaviour cancels the context at labels %s" % nocancel)
    stats["actions_fired"] = len([a for a in cov_all if cov_all[a] > 0])
    stats["cancel_labels"] = len(labels_seen - {"none"})
    out = []
    for i, k in enumerate(sorted(scen)):
        s = dict(scen[k]["scen"])
        s["sid"] = i
        s["seed"] = seed % 1000003
        s["ctx"] = "deadline" if (i + seed) % 4 == 0 else "cancel"   # "the context's error", whatever it is
        out.append({"scen": s, "expect": scen[k].get("expect"), "expect_pinned": scen[k].get("expect_pinned"),
                    "labels": sorted(scen[k]["labels"])})
    # scale: the same call on sources far beyond the model's bounds (thousands of entries in ONE batch, several
    # batches of hundreds, a first index beyond 2^32); judged like every other call, from the recorded source and
    # destination contents
    big = [(5000, 1, 1 << 20, "inmem", "inmem"), (4500, 1000, 4096 * 44 + 1, "inmem", "wal"), (3000, (1 << 32) + 5, 20000, "wal", "inmem"),
           (4097, 7, 1 << 22, "inmem", "inmem")][:(2, 4)[0 if tier == "quick" else 1]]
    # batchBytes at the edges of int ("copy everything in one append"): the largest value there is, just below it, around
    # 2^31 and 2^32 (arithmetic on the batch size must not overflow)
    MAXINT = (1 << 63) - 1
    big += [(40, 1, MAXINT, "inmem", "inmem"), (40, 3, MAXINT - 7, "inmem", "wal"), (12, 1, MAXINT - 31, "wal", "inmem"),
            (40, 1, (1 << 31) - 1, "inmem", "inmem"), (40, 1, 1 << 31, "inmem", "inmem"), (40, 1, (1 << 32) + 3, "inmem", "inmem"),
            (40, 1, 1 << 62, "inmem", "inmem")]
    # CopyStable: one name in BOTH key lists (stores with separate key spaces hold two values under it)
    for xk, xi, prog in ((1, 1, "buf"), (2, 2, "nil"), (2, 1, "buf")):
        out.append({"scen": {"sid": len(out), "op": "stable", "n": 0, "first": 0, "sizes": [], "kind": "fresh", "bb": 0, "xk": xk, "xi": xi,
                             "xshare": True, "src": "inmem", "dst": "inmem", "prog": prog, "call": "none", "k": 0, "seed": seed % 1000003,
                             "seg": 1 << 20, "ctx": "cancel"},
                    "expect": None, "expect_pinned": None, "labels": []})
    for n, first, bb, src, dst in big:
        out.append({"scen": {"sid": len(out), "op": "logs", "n": n, "first": first, "sizes": [12 + (j % 5) for j in range(n)],
                             "kind": "filled", "bb": bb, "xk": 0, "xi": 0, "src": src, "dst": dst, "prog": "buf", "call": "none",
                             "k": 0, "seed": seed % 1000003, "seg": 1 << 20, "ctx": "cancel"},
                    "expect": None, "expect_pinned": None, "labels": []})
    return out, complete


# ----------------------------------------------------------------------------- replay + judge
def replay_real(items, wd, tag):
    sp, tp = os.path.join(wd, tag + ".scen.ndjson"), os.path.join(wd, tag + ".trace.ndjson")
    write_ndjson(sp, [it["scen"] for it in items])
    tmp = os.path.join(wd, tag + ".stores")
    os.makedirs(tmp, exist_ok=True)
    t0 = time.time()
    p = run_bin("migratereplay", ["-in", sp, "-out", tp, "-tmp", tmp, "-workers", str(NCPU)], timeout=3000)
    try:
        info = json.loads(p.stdout.strip().splitlines()[-1])
    except Exception:
        raise Inconclusive("migratereplay printed no summary: " + p.stdout[-500:] + p.stderr[-500:])
    if info.get("scenarios") != len(items):
        raise Inconclusive("migratereplay ran %s of %d scenarios" % (info.get("scenarios"), len(items)))
    left = os.listdir(tmp)
    if left:
        raise Inconclusive("migratereplay left scratch directories behind: %s" % left[:5])
    return tp, time.time() - t0


def judge_file(path, wd_unused=None, timeout=1800):
    cfg = cfg_text(constants={"TraceFile": "trace.ndjson"}, invariants=["TypeOK"], post="Accepted")
    r = tlc("MigrateTrace", cfg, files={"trace.ndjson": path}, workers=1, timeout=timeout, heap="4g")
    if r.error or r.violated:
        raise Inconclusive("MigrateTrace did not accept the trace format: %s %s\n%s" % (r.error, r.violated, r.out[-3000:]))
    pl = tlc_payloads(r, "VIOL")
    if len(pl) != 1:
        raise Inconclusive("MigrateTrace printed no verdict\n" + r.out[-3000:])
    return pl[0], r


def judge(trace_path, wd, stats, chunks=None):
    """TLC validation of the recorded trace, in parallel chunks (one JVM each)."""
    lines = open(trace_path).read().splitlines()
    n = len(lines)
    nch = chunks or max(1, min(NCPU // 2, (n + 1499) // 1500))
    per = (n + nch - 1) // nch
    paths = []
    for c in range(nch):
        part = lines[c * per:(c + 1) * per]
        if not part:
            continue
        p = os.path.join(wd, "judge.%d.ndjson" % c)
        with open(p, "w") as f:
            f.write("\n".join(part) + "\n")
        paths.append(p)
    viols, nobs, nlines = [], 0, 0
    with cf.ThreadPoolExecutor(max_workers=len(paths)) as ex:
        for pl, r in ex.map(judge_file, paths):
            viols += pl["v"]
            nobs += pl["nobs"]
            nlines += pl["lines"]
            stats["judge_states"] = stats.get("judge_states", 0) + r.generated
            stats["judge_wall"] = round(max(stats.get("judge_wall", 0), r.wall), 2)
    if nlines != n:
        raise Inconclusive("MigrateTrace consumed %d of %d trace lines" % (nlines, n))
    stats["nobs"] = stats.get("nobs", 0) + nobs
    return viols


def selftest(trace_path, wd, force_synthetic=False):
    """The judge must bite: a recorded call with ONE destination entry altered must be rejected (else exit 2)."""
    pick = fallback = None
    for ln in open(trace_path):
        e = json.loads(ln)
        if e["ev"] != "logs" or e["setup"] or len(e["src"]) < 2:
            continue
        if fallback is None:
            fallback = e
        if e["err"] == "nil" and e["closed"] and sum(1 for d in e["dst"] if d["st"] == "ok") == len(e["src"]):
            pick = e
            break
    synthetic = False
    if force_synthetic and (pick or fallback) is not None:
        fallback, pick = (pick or fallback), None
    if pick is None and fallback is not None:
        synthetic = True
        # the tree under test never copied >= 2 entries successfully: judge the judge on the call as it
        # should have gone (destination = the recorded source), so that the self-test cannot mask a violation
        pick = json.loads(json.dumps(fallback))
        pick.update(err="nil", msg="", closed=True, fired=False, remain=0, dfirst=pick["sfirst"], dlast=pick["slast"],
                    dst=[dict(x) for x in pick["src"]] + [{"i": pick["slast"] + 1, "st": "nf"}])
    if pick is None:
        raise Inconclusive("self-test: no call on a source of >= 2 entries in the recorded trace")
    def variant(sid, f):
        e = json.loads(json.dumps(pick))
        e["sid"] = sid
        f(e)
        return e
    def alt_data(e):
        d = [x for x in e["dst"] if x["st"] == "ok"][-1]
        d["dh"] = ("0" if d["dh"][0] != "0" else "1") + d["dh"][1:]
    def alt_term(e):
        d = [x for x in e["dst"] if x["st"] == "ok"][0]
        d["t"] += 1
    def alt_time(e):
        d = [x for x in e["dst"] if x["st"] == "ok"][0]
        d["ts"] = str(int(d["ts"]) + 1)
    def drop(e):
        d = [x for x in e["dst"] if x["st"] == "ok"][-1]
        d.clear()
        d.update({"i": e["slast"], "st": "nf"})
    def notclosed(e):
        e["closed"] = False
    def ignored(e):
        e["fired"], e["remain"] = True, 1
    def last(e):
        e["dlast"] -= 1
    vs = [variant(-1, lambda e: None), variant(-2, alt_data), variant(-3, alt_term), variant(-4, alt_time),
          variant(-5, drop), variant(-6, notclosed), variant(-7, ignored), variant(-8, last)]
    want = {-2: "EntryDiffers", -3: "EntryDiffers", -4: "EntryDiffers", -5: "EntryMissing", -6: "ProgressNotClosed",
            -7: "CancelIgnored", -8: "LastIndex"}
    p = os.path.join(wd, "selftest.ndjson")
    write_ndjson(p, vs)
    pl, _ = judge_file(p)
    got = {}
    for v in pl["v"]:
        got.setdefault(v["sid"], set()).add(v["clause"])
    if -1 in got and not synthetic:
        # the recorded call itself is rejected (the main judging reports that): judge the judge on the call as it should
        # have gone, so that the self-test can neither mask nor be broken by a violation of the tree under test
        return selftest(trace_path, wd, force_synthetic=True)
    if -1 in got:
        raise Inconclusive("self-test: the unaltered reference call is rejected: %s" % sorted(got[-1]))
    for sid, clause in want.items():
        if clause not in got.get(sid, set()):
            raise Inconclusive("self-test: MigrateTrace accepted a trace with an altered observation (%s expected for "
                               "variant %d, got %s)" % (clause, sid, sorted(got.get(sid, []))))
    return len(want)


def msgclass(m):
    m = re.sub(r"\d+", "N", m or "")
    return m.split("\n")[0][:100]


def signature(clause, scen, ev):
    return {"clause": clause, "op": scen["op"], "empty_source": bool(scen["op"] == "logs" and scen["n"] == 0),
            "msg": msgclass(ev.get("msg", "")) if clause == "UnexpectedError" else ""}


def drift_of(it, ev, design):
    """Differences between what Migrate.tla predicted and what the real code did (diagnostic only).
    On an empty source two designs are modelled (BUG_EmptySourceLoop); `design` is the one the tree follows
    (read off the uncancelled empty-source calls); behaviours that only the other design has are skipped."""
    x = it.get("expect_pinned" if (design == "pinned" and it["scen"]["op"] == "logs" and it["scen"]["n"] == 0) else "expect")
    return drift1(it, ev, x) if x else None


def drift1(it, ev, x):
    d = []
    res = {"nil": "nil", "canceled": "ctx"}.get(ev["err"], "other")
    if res != x["result"]:
        d.append("result %s, model %s" % (res, x["result"]))
    if ev["ev"] == "logs":
        nd = sum(1 for e in ev["dst"] if e["st"] == "ok")
        if nd != x["dlen"]:
            d.append("destination entries %d, model %d" % (nd, x["dlen"]))
    else:
        nk = sum(1 for e in ev["dkv"] if e["st"] == "ok" and e["v"] not in ("", "0"))
        if nk != x["klen"]:
            d.append("destination keys %d, model %d" % (nk, x["klen"]))
    if ev["prog"] == "buf" and ev["closed"] and ev["nsent"] != x["sent"]:
        d.append("progress messages %d, model %d" % (ev["nsent"], x["sent"]))
    if ev["ev"] == "logs" and (ev["gets"] != x["gets"] or ev["stores"] != x["stores"]):
        d.append("GetLog/StoreLogs calls %d/%d, model %d/%d" % (ev["gets"], ev["stores"], x["gets"], x["stores"]))
    if it["scen"]["call"] != "none" and not ev["fired"]:
        d.append("cancellation point %s#%d never reached" % (it["scen"]["call"], it["scen"]["k"]))
    return d


def run_and_judge(items, wd, stats, tag="r", hook=None):
    tp, wall = replay_real(items, wd, tag)
    if hook:
        hook(tp)
    stats["replay_wall"] = round(stats.get("replay_wall", 0) + wall, 2)
    evs = read_ndjson(tp)
    if len(evs) != len(items):
        raise Inconclusive("trace has %d lines for %d scenarios" % (len(evs), len(items)))
    bysid = {it["scen"]["sid"]: (it, ev) for it, ev in zip(items, evs)}
    for it, ev in zip(items, evs):
        if ev["sid"] != it["scen"]["sid"]:
            raise Inconclusive("trace out of order at sid %s" % ev["sid"])
    viols = judge(tp, wd, stats)
    return tp, evs, bysid, viols


def check(pid, tier, seed):
    t0 = time.time()
    stats = {}
    build(["migratereplay"])
    wd = scratch("verif-%s-" % pid)
    items, complete = generate(tier, seed, stats)
    log("%s: %d real scenarios from %d terminal behaviours (%.1fs TLC)"
        % (pid, len(items), stats["terminal_behaviours"], stats["design_wall"]))
    with cf.ThreadPoolExecutor(max_workers=1) as ex:
        fself = [None]
        def after_replay(tp):      # the judge's self-test runs next to the judging of the real trace
            fself[0] = ex.submit(selftest, tp, wd)
        tp, evs, bysid, viols = run_and_judge(items, wd, stats, hook=after_replay)
        ntests = fself[0].result()
    setup_failed = [v for v in viols if v["clause"] == "SetupFailed"]
    if setup_failed:
        it, ev = bysid[setup_failed[0]["sid"]]
        raise Inconclusive("harness could not set up %d scenarios, e.g. %s: %s"
                           % (len(setup_failed), json.dumps(it["scen"]), ev["setup"]))
    hung = [it["scen"] for it, ev in zip(items, evs) if ev["err"] == "hang"]
    if hung:
        # DESIGN.md 4.10: without a goroutine dump showing the call parked in migrate code a time-out is not a verdict
        raise Inconclusive("%d calls did not return within the 60 s watchdog, e.g. %s" % (len(hung), json.dumps(hung[0])))
    # ---- violations -> signatures -> known findings / replays
    groups = {}
    for v in viols:
        it, ev = bysid[v["sid"]]
        sig = signature(v["clause"], it["scen"], ev)
        groups.setdefault(json.dumps(sig, sort_keys=True), []).append((it, ev, v["clause"]))
    known, paths = [], []
    for k, g in sorted(groups.items()):
        sig = json.loads(k)
        g.sort(key=lambda x: (x[0]["scen"]["call"] != "none", x[0]["scen"]["n"], x[0]["scen"]["sid"]))
        rp = save_replay(pid, {"property": pid, "kind": "migrate", "module": "checks_migrate", "signature": sig,
                               "count": len(g), "clause": sig["clause"],
                               "scenarios": [x[0]["scen"] for x in g[:3]],
                               "observed": [{k2: x[1][k2] for k2 in ("err", "msg", "closed", "fired", "remain", "sfirst",
                                                                      "slast", "dfirst", "dlast")} for x in g[:3]]})
        f = match_finding(pid, sig)
        if f:
            known.append("%s (%d occurrences; e.g. replay=%s)" % (f["what"], len(g), rp))
        else:
            paths.append(rp)
            log("VIOLATION", pid, sig, "x%d" % len(g), rp)
    # ---- drift
    design = "pinned" if any(ev["err"] == "other" and it["scen"]["op"] == "logs" and it["scen"]["n"] == 0
                             and it["scen"]["call"] == "none" for it, ev in zip(items, evs)) else "repaired"
    drift, skipped, dropped = [], 0, 0
    for it, ev in zip(items, evs):
        d = drift_of(it, ev, design)
        if d is None:
            skipped += 1
        elif d:
            if all(x.startswith("progress messages") for x in d):
                dropped += 1     # delivery is documented as best effort (1 ms wait): not even drift
            else:
                drift.append({"scenario": it["scen"], "diff": d})
    pairs = sorted({(it["scen"]["src"], it["scen"]["dst"]) for it in items})
    samples = []
    for it, ev in list(zip(items, evs))[:: max(1, len(items) // 3)][:3]:
        samples.append({"scenario": it["scen"], "model_prediction": it.get("expect_pinned" if (design == "pinned" and it["scen"]["op"] == "logs"
                                                                          and it["scen"]["n"] == 0) else "expect"),
                        "observed": {k: ev[k] for k in ("err", "closed", "fired", "remain", "sfirst", "slast", "dfirst", "dlast", "gets", "stores")}})
    cov = {
        "states": max(1, stats.get("design_distinct", 0) + stats.get("judge_states", 0)),
        "transitions": max(1, stats.get("design_states", 0) + stats.get("judge_states", 0)),
        "traces_validated_against_impl": len(evs),
        "evaluations": len(evs),
        "distinct_nontrivial": len({scen_key(it["scen"]) for it in items}),
        "samples": samples,
        "rule": RULE,
        "exhaustive": bool(complete),
        "observations_judged": stats.get("nobs", 0),
        "terminal_behaviours_printed_by_tlc": stats["terminal_behaviours"],
        "store_pairings": ["%s->%s" % p for p in pairs],
        "cancelled_scenarios": sum(1 for it in items if it["scen"]["call"] != "none"),
        "copystable_scenarios": sum(1 for it in items if it["scen"]["op"] == "stable"),
        "selftest_altered_traces_rejected": ntests,
        "impl_drift": len(drift),
        "empty_source_design_followed_by_tree": "BUG_EmptySourceLoop=%s" % ("TRUE" if design == "pinned" else "FALSE"),
        "behaviours_of_the_other_design_not_compared": skipped,
        "impl_drift_samples": drift[:5],
        "calls_with_progress_messages_dropped_best_effort": dropped,
        "results": {k: sum(1 for ev in evs if ev["err"] == k) for k in sorted({ev["err"] for ev in evs})},
        "model_constants": [{k: (sorted(v) if isinstance(v, (set, frozenset)) else v) for k, v in c.items()} for c in tiers(tier, seed)],
        "tlc": stats,
        "known_findings_hit": len(known),
    }
    write_evidence(pid, tier, seed, "model_checking", cov, ASSUMPTIONS, time.time() - t0, len(paths))
    return finish(pid, paths, known)


def replay(r):
    """bin/check replay <path>: re-execute the saved scenarios on the current tree and re-judge them."""
    pid = r.get("property", PID)
    build(["migratereplay"])
    wd = scratch("verif-%s-replay-" % pid)
    items = []
    for i, s in enumerate(r["scenarios"]):
        s = dict(s)
        s["sid"] = i
        items.append({"scen": s, "expect": {}, "labels": []})
    stats = {}
    tp, evs, bysid, viols = run_and_judge(items, wd, stats, tag="replay")
    for ev in evs:
        print("observed: sid=%d err=%s msg=%s closed=%s fired=%s src=[%d,%d] dst=[%d,%d]%s"
              % (ev["sid"], ev["err"], json.dumps(ev.get("msg", "")[:200]), ev["closed"], ev["fired"], ev["sfirst"], ev["slast"],
                 ev["dfirst"], ev["dlast"], (" SETUP FAILED: " + ev["setup"]) if ev["setup"] else ""))
    for v in viols:
        print("rejected: sid=%d clause=%s scenario=%s" % (v["sid"], v["clause"], json.dumps(bysid[v["sid"]][0]["scen"])))
    if any(v["clause"] == "SetupFailed" for v in viols):
        print("INCONCLUSIVE property=%s scenario could not be set up" % pid)
        return 2
    if viols:
        import hashlib
        rp = os.path.join(REPLAYS, "%s-%s.json" % (pid, hashlib.sha1(json.dumps(r, sort_keys=True).encode()).hexdigest()[:12]))
        print("VIOLATION property=%s replay=%s" % (pid, rp))
        return 1
    print("OK property=%s (scenario no longer violates it)" % pid)
    return 0


CHECKS = {"C19": check}
