"""setup_cmd: build the harness offline, parse every spec, run the binding self-tests."""
import os, subprocess, sys, shutil
sys.path.insert(0, os.path.dirname(os.path.abspath(__file__)))
import vlib
from vlib import *


def sany_all():
    wd = scratch("verif-sany-")
    mods = [f for f in os.listdir(SPEC) if f.endswith(".tla")]
    for f in mods:
        shutil.copy(os.path.join(SPEC, f), wd)
    bad = []
    for f in sorted(mods):
        if "Apalache" in open(os.path.join(SPEC, f)).read().split("\n====")[0].split("EXTENDS", 1)[-1].split("\n", 1)[0]:
            # an Apalache module (EXTENDS Apalache: not on TLC's classpath): type-checked by apalache-mc instead
            p = subprocess.run(["timeout", "300", "apalache-mc", "typecheck", "--out-dir=" + os.path.join(wd, "_apalache-out"), f],
                               cwd=wd, capture_output=True, text=True)
            if p.returncode != 0:
                bad.append((f, (p.stdout + p.stderr)[-1500:]))
            continue
        p = subprocess.run(["java", "-cp", "/opt/veriftools/tla/tla2tools.jar:/opt/veriftools/tla/CommunityModules-deps.jar",
                            "tla2sany.SANY", f], cwd=wd, capture_output=True, text=True)
        if p.returncode != 0 or "error" in (p.stdout + p.stderr).lower().replace("0 error", ""):
            if "Semantic errors" in p.stdout or "Parse Error" in p.stdout or "Fatal" in p.stdout or p.returncode != 0:
                bad.append((f, (p.stdout + p.stderr)[-1500:]))
    return mods, bad


def main():
    os.makedirs(EVID, exist_ok=True)
    build()
    log("harness built")
    mods, bad = sany_all()
    if bad:
        for f, o in bad:
            print("SANY FAILED", f, o)
        return 1
    log("SANY parsed %d modules" % len(mods))
    if "--no-selftest" not in sys.argv:
        import selftest
        rc = selftest.main()
        if rc != 0:
            return rc
    print("setup ok")
    return 0


if __name__ == "__main__":
    try:
        sys.exit(main())
    except Inconclusive as e:
        print("setup failed:", e)
        sys.exit(1)
