"""C16 / C17 / C18: the verifying LogStore middleware (DESIGN.md 2.7, 5).

Per check:  build -> TLC design runs of spec/Verifier.tla (the repaired design must satisfy the
property's invariants; the model of what the pinned code does yields counterexample and
"interesting" behaviours) -> TLC -simulate behaviours seeded by VERIF_SEED -> every behaviour is
executed by harness/cmd/verifreplay on REAL verifier.LogStore instances (raft.InmemStore and the
real WAL) -> TLC (spec/VerifierTrace.tla) judges the recorded trace against the contract clauses.
A VIOLATION is only ever raised from a clause the judge rejected on real-code observations."""
import json, os, random, re, time
import vlib
from vlib import *

CLAUSES = {
    "C16": {"C16_FalseAlarm", "C16_LacksCorruption", "C16_LacksNotRange"},
    "C17": {"C17_Missed", "C17_Blame"},
    "C18": {"C18a_ForeignAccepted", "C18a_ResultDiffers", "C18a_StoreFailed", "C18a_DeleteDiffers", "C18a_IndexDiffers",
            "C18a_EntryDiffers", "C18b_StoreHang", "C18c_CheckpointsWritten", "C18c_ReportWithoutCheckpoint",
            "C18c_RangesVerified", "C18c_Accounting", "C18d_SkippedNotNamed"},
}
MODEL_INVS = {
    "C16": {"C16_NoFalseAlarm", "C16_LacksIsRange", "C16_LacksNotCorruption"},
    "C17": {"C17_Detects", "C17_Blame"},
    "C18": {"C18a_PassThrough", "C18c_Accounting", "C18c_Bound", "C18d_SkippedNamed"},
}
ALL_FIELDS = {"i", "t", "y", "d", "e"}

BASE = dict(N=2, MaxIdx=4, MaxCp=2, MaxTerm=1, MaxBatch=2, MaxTT=0, MaxTH=0, MaxSnap=0, MaxRestart=0, MaxCorrupt=0,
            MaxForeign=0, MaxBlock=0, MaxFail=0, MaxSteps=40, Eager=True, CfgAt1=True, Fields=set(), InFlight=False,
            AtRest=False, TrackWrote=False, EmitEvery=0,
            # what the pinned code does (DESIGN 6 F11; and verify()'s range test, found by this check)
            BUG_NoResetOnDelete=True, BUG_LacksByFirstOnly=True)


def C(**kw):
    d = dict(BASE)
    d.update(kw)
    return d


# design configurations: (name, constants, also check the repaired design?)
F5 = dict(Fields=ALL_FIELDS | {"w"}, InFlight=True, AtRest=True, TrackWrote=True)     # "w": whole records exchanged at rest

PROFILES = {
    "C16": {
        "quick": dict(
            design=[("2 nodes, 4 indexes: leader change + conflicting suffix", C(MaxTerm=2, MaxTT=1), True),
                    ("2 nodes, 3 indexes: head truncation + blocked ReportFn", C(MaxIdx=3, MaxTH=1, MaxBlock=1), True)],
            sim=C(N=3, MaxIdx=6, MaxCp=3, MaxTerm=3, MaxTT=2, MaxTH=1, MaxSnap=1, MaxRestart=1, MaxBlock=1, MaxFail=1,
                  MaxSteps=16),
            nsim=50, emit_every=12, ncex=30, nint=40, wal_share=8, tlc_timeout=45),
        "thorough": dict(
            design=[("2 nodes, 3 indexes: leader change + conflicting suffix + head truncation + snapshot install + blocked ReportFn",
                     C(MaxIdx=3, MaxTerm=2, MaxTT=1, MaxTH=1, MaxBlock=1, MaxSnap=1), True),
                    ("2 nodes, 4 indexes: leader change + conflicting suffix + snapshot install + restart",
                     C(MaxTerm=2, MaxTT=1, MaxSnap=1, MaxRestart=1), True),
                    ("2 nodes, 4 indexes: head truncation + blocked ReportFn + restart", C(MaxTH=1, MaxBlock=1, MaxRestart=1), True),
                    ("3 nodes, 4 indexes: leader change + conflicting suffix", C(N=3, MaxTerm=2, MaxTT=1, MaxBatch=1), True),
                    ("2 nodes, 5 indexes, 3 checkpoints: leader change + conflicting suffix",
                     C(MaxIdx=5, MaxCp=3, MaxTerm=2, MaxTT=1), True)],
            sim=C(N=3, MaxIdx=6, MaxCp=3, MaxTerm=3, MaxTT=3, MaxTH=2, MaxSnap=1, MaxRestart=1, MaxBlock=2, MaxFail=1,
                  MaxSteps=20),
            nsim=700, emit_every=60, ncex=300, nint=500, wal_share=6, tlc_timeout=100, heap="8g"),
    },
    "C17": {
        "quick": dict(
            design=[("2 nodes, 3 indexes, restart, 1 corruption (any field, in flight / at rest)",
                     C(MaxIdx=3, MaxRestart=1, MaxCorrupt=1, CfgAt1=False, **F5), False),
                    ("2 nodes, 2 indexes, bootstrap entries, 1 corruption", C(MaxIdx=2, MaxCorrupt=1, **F5), False)],
            sim=C(N=3, MaxIdx=6, MaxCp=3, MaxTerm=2, MaxRestart=1, MaxCorrupt=2, MaxTH=1, MaxSteps=14, **F5),
            nsim=50, emit_every=10, ncex=30, nint=120, wal_share=8, tlc_timeout=45),
        "thorough": dict(
            design=[("2 nodes, 4 indexes, leader change, restart, 1 corruption (any field, in flight / at rest)",
                     C(MaxIdx=4, MaxTerm=2, MaxRestart=1, MaxCorrupt=1, **F5), False),
                    ("3 nodes, 4 indexes, 1 corruption", C(N=3, MaxIdx=4, MaxCorrupt=1, MaxBatch=1, CfgAt1=False, **F5), False),
                    ("2 nodes, 5 indexes, 3 checkpoints, 1 corruption", C(MaxIdx=5, MaxCp=3, MaxCorrupt=1, CfgAt1=False, **F5), False)],
            sim=C(N=3, MaxIdx=6, MaxCp=3, MaxTerm=2, MaxRestart=1, MaxCorrupt=2, MaxTH=1, MaxSteps=18, **F5),
            nsim=700, emit_every=120, ncex=300, nint=800, wal_share=6, tlc_timeout=170, heap="8g"),
    },
    "C18": {
        "quick": dict(
            design=[("1 node, 5 indexes, 4 checkpoints: every goroutine schedule, blocked ReportFn, foreign checkpoint, failing store",
                     C(N=1, MaxIdx=5, MaxCp=4, MaxBlock=2, MaxForeign=1, MaxFail=1, Eager=False), False)],
            sim=C(N=2, MaxIdx=8, MaxCp=6, MaxTerm=2, MaxTT=1, MaxTH=1, MaxRestart=1, MaxBlock=3, MaxForeign=1, MaxFail=1,
                  MaxSteps=20),
            nsim=50, emit_every=10, ncex=30, nint=80, wal_share=8, tlc_timeout=45),
        "thorough": dict(
            design=[("1 node, 5 indexes, 4 checkpoints: every goroutine schedule, head truncation, restart, foreign checkpoint, failing store",
                     C(N=1, MaxIdx=5, MaxCp=4, MaxBlock=2, MaxForeign=1, MaxFail=1, MaxTH=1, MaxRestart=1, Eager=False), False),
                    ("1 node, 7 indexes, 6 checkpoints: every goroutine schedule",
                     C(N=1, MaxIdx=7, MaxCp=6, MaxBlock=3, MaxForeign=1, Eager=False), False),
                    ("2 nodes, 4 indexes, 4 checkpoints: blocked ReportFn on leader and follower",
                     C(N=2, MaxIdx=4, MaxCp=4, MaxBlock=2, MaxForeign=1, MaxBatch=1, CfgAt1=False), False)],
            sim=C(N=3, MaxIdx=9, MaxCp=7, MaxTerm=2, MaxTT=1, MaxTH=2, MaxRestart=1, MaxBlock=4, MaxForeign=2, MaxFail=1,
                  MaxSteps=26),
            nsim=700, emit_every=120, ncex=300, nint=600, wal_share=6, tlc_timeout=170, heap="8g"),
    },
}

ASSUME = [
    "64-bit FNV-1a collisions are out of scope (the model's hash is injective); the structural collision from unframed "
    "Data||Extensions concatenation needs a two-field change and is outside C17's single-field quantifier",
    "checksumLog's documented exception: an index-1 configuration entry is not hashed, differences confined to it are not claimed",
    "the application's IsCheckpointFn is Type==LogCommand && Data has prefix 'CP'",
    "the underlying store is a contiguous log (raft.InmemStore behind a contiguity guard, or the real WAL)",
    "ranges are not modified while verify() reads them: the verifier goroutine is parked at verify()'s first store access and "
    "in ReportFn by the harness, truncations happen while a report is queued or delivered, never in between",
    "'the report following a drop' is read in log order (the next checkpoint accepted after the drop), not in wall-clock order",
]

RULE = ("each evaluation = one event of a real execution judged by spec/VerifierTrace.tla (delivered VerificationReports with "
        "harness-recorded ground truth: what the checkpoint's leader held, what the node wrote, what its store returns; StoreLogs/"
        "DeleteRange results vs a twin store; reads through the middleware vs the twin; metric summaries at quiescence). "
        "Scenarios = counterexample and antecedent-true behaviours printed by the TLC design runs of spec/Verifier.tla (BFS) + "
        "TLC -simulate behaviours seeded by VERIF_SEED + 5 fixed self-test scenarios, each executed on real verifier.LogStore "
        "instances over raft.InmemStore (all) and over the real WAL (every 5th). distinct_nontrivial = distinct scenarios "
        "(step lists) in which the real code delivered at least one report")

SELFTESTS = [
    # at-rest corruption inside a verified range on a follower: must be reported as storage corruption
    {"id": "st-rot", "steps": [
        {"op": "append", "n": 1, "first": 1, "term": 1, "kinds": ["a", "a"]}, {"op": "repl", "n": 2, "from": 1, "first": 1, "k": 2},
        {"op": "rot", "n": 2, "i": 2, "f": "d", "m": "alt1"},
        {"op": "append", "n": 1, "first": 3, "term": 1, "kinds": ["cp"]}, {"op": "finish", "n": 1},
        {"op": "repl", "n": 2, "from": 1, "first": 3, "k": 1}, {"op": "finish", "n": 2}], "expect": ("report", 2, "storage")},
    # at rest, two intact records of a verified range returned in each other's place: storage corruption
    {"id": "st-swap", "steps": [
        {"op": "append", "n": 1, "first": 1, "term": 1, "kinds": ["a", "a", "a"]}, {"op": "repl", "n": 2, "from": 1, "first": 1, "k": 3},
        {"op": "rot", "n": 2, "i": 1, "f": "w", "m": "alt1"},
        {"op": "append", "n": 1, "first": 4, "term": 1, "kinds": ["cp"]}, {"op": "finish", "n": 1},
        {"op": "repl", "n": 2, "from": 1, "first": 4, "k": 1}, {"op": "finish", "n": 2}], "expect": ("report", 2, "storage")},
    # in-flight corruption: must be reported as in-flight corruption
    {"id": "st-inflight", "steps": [
        {"op": "append", "n": 1, "first": 1, "term": 1, "kinds": ["a", "a", "cp"]}, {"op": "finish", "n": 1},
        {"op": "repl", "n": 2, "from": 1, "first": 1, "k": 3, "cp": 2, "cf": "t", "cm": "alt2"}, {"op": "finish", "n": 2}],
     "expect": ("report", 2, "inflight")},
    # a follower that holds only part of the range: range mismatch
    {"id": "st-range", "steps": [
        {"op": "append", "n": 1, "first": 1, "term": 1, "kinds": ["a", "a"]}, {"op": "repl", "n": 2, "from": 1, "first": 1, "k": 2},
        {"op": "trunchead", "n": 2, "min": 1, "max": 1},
        {"op": "append", "n": 1, "first": 3, "term": 1, "kinds": ["cp"]}, {"op": "finish", "n": 1},
        {"op": "repl", "n": 2, "from": 1, "first": 3, "k": 1}, {"op": "finish", "n": 2}], "expect": ("report", 2, "range")},
    # blocked ReportFn, four checkpoints: one delivered, one queued, two dropped, then the report after the drop
    {"id": "st-drop", "steps": [
        {"op": "block", "n": 1},
        {"op": "append", "n": 1, "first": 1, "term": 1, "kinds": ["a", "cp"]}, {"op": "finish", "n": 1},
        {"op": "append", "n": 1, "first": 3, "term": 1, "kinds": ["a", "cp"]},
        {"op": "append", "n": 1, "first": 5, "term": 1, "kinds": ["a", "cp"]},
        {"op": "append", "n": 1, "first": 7, "term": 1, "kinds": ["cp"]},
        {"op": "unblock", "n": 1}, {"op": "finish", "n": 1},
        {"op": "append", "n": 1, "first": 8, "term": 1, "kinds": ["a", "cp"]}, {"op": "finish", "n": 1}],
     "expect": ("skipped", 1, [4, 7])},
    # blocked ReportFn, one report delivered, one queued, then ONE batch holding two checkpoints: both dropped and counted
    {"id": "st-drop-batch", "steps": [
        {"op": "block", "n": 1},
        {"op": "append", "n": 1, "first": 1, "term": 1, "kinds": ["a", "cp"]}, {"op": "finish", "n": 1},
        {"op": "append", "n": 1, "first": 3, "term": 1, "kinds": ["a", "cp"]},
        {"op": "append", "n": 1, "first": 5, "term": 1, "kinds": ["cp", "a", "cp"]},
        {"op": "unblock", "n": 1}, {"op": "finish", "n": 1},
        {"op": "append", "n": 1, "first": 8, "term": 1, "kinds": ["a", "cp"]}, {"op": "finish", "n": 1}],
     "expect": ("skipped", 1, [4, 7])},
    # a checkpoint whose Extensions hold foreign data is refused
    {"id": "st-foreign", "steps": [
        {"op": "append", "n": 1, "first": 1, "term": 1, "kinds": ["a"]},
        {"op": "append", "n": 1, "first": 2, "term": 1, "kinds": ["a", "cpf"]},
        {"op": "append", "n": 1, "first": 2, "term": 1, "kinds": ["cp"]}, {"op": "finish", "n": 1}], "expect": ("refused", 1, None)},
]


# members of classes the bounded design runs reach rarely or not at all (same judge, no expectation of their own)
DIRECTED = [
    # a drop that follows a report ending in an ERROR: ReportFn blocked on A, B queued, a head compaction makes B's range
    # unreadable, C dropped, then B is delivered (range mismatch) and D must name C's range as skipped
    {"id": "dr-drop-after-range", "steps": [
        {"op": "block", "n": 1},
        {"op": "append", "n": 1, "first": 1, "term": 1, "kinds": ["a", "cp"]}, {"op": "finish", "n": 1},
        {"op": "append", "n": 1, "first": 3, "term": 1, "kinds": ["a", "cp"]},
        {"op": "trunchead", "n": 1, "min": 1, "max": 3},
        {"op": "append", "n": 1, "first": 5, "term": 1, "kinds": ["a", "cp"]},
        {"op": "unblock", "n": 1}, {"op": "finish", "n": 1},
        {"op": "append", "n": 1, "first": 7, "term": 1, "kinds": ["a", "cp"]}, {"op": "finish", "n": 1}]},
    # the same with a report that ends in a checksum error (at-rest corruption inside B's range)
    {"id": "dr-drop-after-storage", "steps": [
        {"op": "block", "n": 1},
        {"op": "append", "n": 1, "first": 1, "term": 1, "kinds": ["a", "cp"]}, {"op": "finish", "n": 1},
        {"op": "append", "n": 1, "first": 3, "term": 1, "kinds": ["a", "cp"]},
        {"op": "rot", "n": 1, "i": 3, "f": "d", "m": "alt1"},
        {"op": "append", "n": 1, "first": 5, "term": 1, "kinds": ["a", "cp"]},
        {"op": "unblock", "n": 1}, {"op": "finish", "n": 1},
        {"op": "append", "n": 1, "first": 7, "term": 1, "kinds": ["a", "cp"]}, {"op": "finish", "n": 1}]},
]


# ------------------------------------------------------------------ TLC side
def jvm_env():
    """TLC's default ParallelGC starts one GC thread per core; on a busy machine that alone makes small models
    crawl (measured: 118k states 11 s vs 60 s).  Only for the TLC processes started by these checks."""
    os.environ.setdefault("JAVA_TOOL_OPTIONS", "-XX:ParallelGCThreads=4")


WORKERS = max(2, min(NCPU, 8))


def design_run(consts, seed, timeout, emit_every=0, modes=(True,), heap="4g", props=("C16", "C17", "C18")):
    """BFS of Verifier.tla.  modes: True = the model of the pinned code, False = the repaired design (both in one run).
    Returns (result, {bug mode: {invariant: [hist]}}, [interesting behaviours of the pinned-code model])."""
    c = dict(consts, EmitEvery=emit_every, Props=set(props), BugModes="@{" + ", ".join("TRUE" if m else "FALSE" for m in modes) + "}")
    cfg = cfg_text(constants=c, invariants=["TypeOK", "EmitCex", "EmitInt"], view="View")
    cover = bool(os.environ.get("VERIF_COVERAGE"))
    r = tlc("Verifier", cfg, timeout=timeout * (4 if cover else 1), seed=seed, workers=WORKERS, heap=heap, coverage=cover)
    r.actions = action_coverage(r.out, consts) if cover else None
    if r.error == "timeout":
        m = re.findall(r"Progress\(\d+\) at [^:]*:\d\d:\d\d: ([\d,]+) states generated .*?, ([\d,]+) distinct states found", r.out)
        if m:
            r.generated, r.distinct = int(m[-1][0].replace(",", "")), int(m[-1][1].replace(",", ""))
        log("design run hit its time limit after %d states (partial exploration)" % r.generated)
    elif r.error or r.violated:
        raise Inconclusive("Verifier.tla design run failed: %s %s\n%s" % (r.error, r.violated, r.out[-3000:]))
    cex = {True: {}, False: {}}
    for p in tlc_payloads(r, "CEX"):
        cex[bool(p["bug"])].setdefault(p["inv"], []).append(p["h"])
    ints = [p for p in tlc_payloads(r, "INT") if p["bug"]]
    return r, cex, ints


ACTION_BUDGET = {"LeaderAppend": lambda c: True, "Replicate": lambda c: c["N"] > 1, "VerifierFinish": lambda c: True,
                 "Boot": lambda c: c["CfgAt1"], "ChangeLeader": lambda c: c["MaxTerm"] > 1 and c["N"] > 1,
                 "TruncateTail": lambda c: c["MaxTT"] > 0 and c["MaxTerm"] > 1, "TruncateHead": lambda c: c["MaxTH"] > 0,
                 "Snap": lambda c: c["MaxSnap"] > 0 and c["N"] > 1, "Restart": lambda c: c["MaxRestart"] > 0,
                 "CorruptAtRest": lambda c: c["AtRest"] and c["MaxCorrupt"] > 0 and len(c["Fields"]) > 0,
                 "VerifierTake": lambda c: not c["Eager"], "ReportFnBlock": lambda c: c["MaxBlock"] > 0,
                 "ReportFnUnblock": lambda c: c["MaxBlock"] > 0}


def action_coverage(out, consts):
    """-coverage 1: every action that the configuration's budgets allow must have produced states (DESIGN 4.6 iii)."""
    acts = {}
    src = open(os.path.join(SPEC, "Verifier.tla")).read().splitlines()
    for m in re.finditer(r"^<(\w+) line \d+, col \d+ to line \d+, col \d+ of module Verifier(?: \((\d+) [^)]*\))?>: (\d+):(\d+)", out, re.M):
        name = m.group(1)
        if name == "Next" and m.group(2):      # a disjunct of Next whose quantifier bounds depend on the state
            mm = re.search(r": (\w+)\(", src[int(m.group(2)) - 1])
            name = mm.group(1) if mm else name
        a = acts.setdefault(name, {"distinct": 0, "generated": 0})
        a["distinct"] += int(m.group(3))
        a["generated"] += int(m.group(4))
    dead = sorted(a for a, on in ACTION_BUDGET.items() if on(consts) and acts.get(a, {}).get("generated", 0) == 0)
    return {"actions": {a: acts.get(a) for a in ACTION_BUDGET}, "dead": dead}


def simulate(consts, seed, num, timeout):
    c = dict(consts, EmitEvery=0, Props=set(), BugModes="@{TRUE}")
    cfg = cfg_text(constants=c, invariants=["TypeOK", "Emit"])
    r = tlc("Verifier", cfg, timeout=timeout, workers=1, simulate="num=%d" % num, depth=consts["MaxSteps"] + 1, seed=seed,
            heap="2g")
    if r.error and r.error != "timeout":
        raise Inconclusive("Verifier.tla simulation failed: %s\n%s" % (r.error, r.out[-3000:]))
    if r.violated:
        raise Inconclusive("Verifier.tla sanity invariant violated in simulation: %s\n%s" % (r.violated, r.out[-3000:]))
    seen, out = set(), []
    for h in tlc_payloads(r, "SCEN"):
        k = json.dumps(h, sort_keys=True)
        if k not in seen:
            seen.add(k)
            out.append(h)
    m = re.findall(r"(\d+) states (?:generated|checked)", r.out)
    r.generated = r.generated or (int(m[-1]) if m else 0)
    return r, out


def pick(rng, lists, n):
    """shortest and random members of each group, round robin, without duplicates."""
    out, seen = [], set()
    groups = []
    for k in sorted(lists):
        hs = sorted(lists[k], key=lambda h: (len(h), json.dumps(h, sort_keys=True)))
        head, rest = hs[:max(2, n // (4 * max(1, len(lists))))], hs[max(2, n // (4 * max(1, len(lists)))):]
        rng.shuffle(rest)
        groups.append(head + rest)
    i = 0
    while len(out) < n and any(groups):
        g = groups[i % len(groups)]
        if g:
            h = g.pop(0)
            key = json.dumps(h, sort_keys=True)
            if key not in seen:
                seen.add(key)
                out.append(h)
        i += 1
        if i > 100000:
            break
    return out


def nodes_of(steps):
    return max([1] + [max(s.get("n", 1), s.get("from", 1)) for s in steps])


# ------------------------------------------------------------------ real code + judge
def run_real(scens, wd, tag, timeout=2400):
    sp = os.path.join(wd, tag + ".scen.ndjson")
    tp = os.path.join(wd, tag + ".trace.ndjson")
    write_ndjson(sp, scens)
    p = run_bin("verifreplay", ["-scen", sp, "-trace", tp], timeout=timeout, ok_codes=(0, 3))
    try:
        st = json.loads(p.stdout.strip().splitlines()[-1])
    except Exception:
        raise Inconclusive("verifreplay produced no statistics: %s" % (p.stderr or p.stdout)[-2000:])
    fails = list(st.get("failures") or [])
    # "channel mirror out of range": the middleware's own counters (checkpoints_written - dropped_reports) claim that
    # more reports entered the 1-buffered channel than it can hold, i.e. a checkpoint got neither a report nor a
    # counted drop. That is not a harness failure but an observation of the code under test (C18c); the scenario
    # stops there. It is turned into a violation by the caller (C18) or noted (C16/C17).
    mirror = [f for f in fails if "channel mirror out of range" in f]
    rest = [f for f in fails if "channel mirror out of range" not in f]
    # "watchdog" while waiting for a report the counters promised: re-run the scenario alone twice; if the report
    # never arrives in any run it is an observation (a checkpoint with neither a report nor a counted drop), else a flake
    # (whatever step was waiting for it: finish, await, or the append that queued the checkpoint)
    wd_fail = [f for f in rest if f.endswith("watchdog")]
    if wd_fail and tag != "retry":
        byid_ = {s["id"]: s for s in scens}
        confirmed = []
        for f in wd_fail[:3]:
            sid = f.split(":")[0]
            again = 0
            for k in range(2):
                try:
                    _, st2 = run_real([byid_[sid]], wd, "retry")
                    if st2.get("mirror") or st2.get("watchdog_confirmed"):
                        again += 1
                except Inconclusive as e:
                    if "watchdog" in str(e):
                        again += 1
            if again == 2:
                confirmed.append(sid + ": a report announced by the counters was never delivered (watchdog, reproduced 3 times)")
        if confirmed:
            mirror += confirmed
            rest = [f for f in rest if f not in wd_fail]
    st["mirror"] = mirror
    if (p.returncode == 3 and not mirror) or rest or st.get("errors"):
        raise Inconclusive("verifreplay harness failure: %s %s" % (rest or fails, st.get("errors")))
    return tp, st


def judge(trace, timeout=1800):
    cfg = cfg_text(constants={"TraceFile": "trace.ndjson"}, invariants=["TypeOK"], post="Accepted")
    r = tlc("VerifierTrace", cfg, files={"trace.ndjson": trace}, workers=1, timeout=timeout, heap="4g")
    if r.error or r.violated:
        raise Inconclusive("VerifierTrace failed: %s %s\n%s" % (r.error, r.violated, r.out[-3000:]))
    pl = tlc_payloads(r, "VIOL")
    if not pl:
        raise Inconclusive("VerifierTrace printed no verdict\n%s" % r.out[-2000:])
    v = pl[-1]["v"]
    r.cells = pl[-1].get("cells") or []
    return (v if isinstance(v, list) else []), pl[-1]["stat"], r


def index_trace(trace):
    """line number -> event, scenario id -> list of (line, event)."""
    evs = read_ndjson(trace)
    by = {}
    cur = None
    for i, e in enumerate(evs):
        if e["ev"] == "reset":
            cur = e["id"]
        by.setdefault(cur, []).append((i + 1, e))
    return evs, by


def signature(v, evs, by):
    e = evs[v["line"] - 1]
    sid = v["id"]
    deleted = any(x["ev"] == "del" and x["n"] == v["n"] for ln, x in by[sid] if ln < v["line"])
    corrupted = any((x["ev"] == "note" and x.get("what") == "rot") for ln, x in by[sid] if ln < v["line"])
    return {"clause": v["clause"], "err": e.get("err", e.get("res", "")), "deleted": deleted, "corrupted": corrupted}


def drift(scen, events):
    """model-predicted reports (hist 'finish' records) vs delivered reports, per node, in order."""
    pred, real = {}, {}
    for s in scen["steps"]:
        if s.get("op") == "finish" and "err" in s:
            pred.setdefault(s["n"], []).append((s["s"], s["e"], s["err"]))
    for ln, e in events:
        if e["ev"] == "report":
            real.setdefault(e["n"], []).append((e["s"], e["e"], e["err"]))
    if any((s.get("cf") == "i" and s.get("cp")) or (s.get("op") == "rot" and s.get("f") == "i") for s in scen["steps"]):
        # the model's data domain does not tell entries of different indexes apart: an entry that lands on another
        # index through a damaged Index field is "the same entry" there but not in the real code. Not comparable.
        return 0
    d = 0
    for n, ps in pred.items():
        rs = real.get(n, [])
        for k, p in enumerate(ps):
            if k >= len(rs) or rs[k] != p:
                d += 1
                break
    return d


def check_selftests(by):
    """the binding must bite: injected corruption detected, drops named, foreign checkpoints refused."""
    for st in SELFTESTS:
        kind, n, want = st["expect"]
        evl = [e for ln, e in by.get(st["id"], [])]
        if kind == "report":
            ok = any(e["ev"] == "report" and e["n"] == n and e["err"] == want for e in evl)
        elif kind == "skipped":
            ok = any(e["ev"] == "report" and e["n"] == n and e["sk"] == want for e in evl) and \
                any(e["ev"] == "quiesce" and e["met"][1] == 2 for e in evl)
        else:
            ok = any(e["ev"] == "store" and e["foreign"] and e["res"] == "err" for e in evl)
        if not ok:
            return "self-test scenario %s did not show the expected behaviour %r" % (st["id"], st["expect"])
    return None


def mk_scen(sid, steps, seed, backend="inmem", auto=False, doctor=None):
    s = {"id": sid, "backend": backend, "nodes": nodes_of(steps), "seed": int(seed), "auto": auto, "steps": steps}
    if doctor:
        s["doctor"] = doctor
    return s


def check(pid, tier, seed):
    t0 = time.time()
    prof = PROFILES[pid][tier if tier in ("quick", "thorough") else "quick"]
    rng = random.Random(seed * 7919 + int(pid[1:]))
    jvm_env()
    build(["verifreplay"])
    wd = scratch("verif-%s-" % pid)
    tl = {"design": [], "states": 0, "transitions": 0}
    cex_all, int_all = {}, {}
    repaired_cex = 0
    for name, consts, both in prof["design"]:
        r, cex, ints = design_run(consts, seed, prof["tlc_timeout"], emit_every=prof["emit_every"],
                                  modes=((True, False) if both else (True,)), props=(pid,), heap=prof.get("heap", "4g"))
        # the design that has to satisfy the property's invariants: the repaired one where the pinned code is known
        # to deviate (C16), the model of the pinned code itself otherwise
        must_hold = cex[False] if both else cex[True]
        bad = {k: len(v) for k, v in must_hold.items() if k in MODEL_INVS[pid]}
        tl["design"].append({"cfg": name, "models": ["pinned code", "repaired design"] if both else ["pinned code"],
                             "states": r.distinct, "transitions": r.generated, "depth": r.depth, "wall_s": round(r.wall, 1),
                             "complete": r.error is None, "pinned_model_cex": {k: len(v) for k, v in cex[True].items()},
                             "design_cex": bad, "interesting": len(ints), "action_coverage": r.actions})
        if r.actions and r.actions["dead"]:
            raise Inconclusive("vacuous design run %r: actions never fired: %s" % (name, r.actions["dead"]))
        tl["states"] += r.distinct
        tl["transitions"] += r.generated
        repaired_cex += sum(bad.values())
        for m in (True, False):
            for k, v in cex[m].items():
                cex_all.setdefault(k, []).extend(v)
        for it in ints:
            int_all.setdefault("+".join(sorted(it["tags"])), []).append(it["h"])
    log("%s: design runs: %d distinct states, %d transitions; model counterexamples %s; interesting %d" % (
        pid, tl["states"], tl["transitions"], {k: len(v) for k, v in cex_all.items()}, sum(len(v) for v in int_all.values())))
    rs, sims = simulate(prof["sim"], seed, prof["nsim"], prof["tlc_timeout"])
    tl["sim"] = {"behaviours": len(sims), "states": rs.generated, "wall_s": round(rs.wall, 1)}
    tl["transitions"] += rs.generated
    # ------------------------------------------------------------ scenarios
    scens, origin = [], {}

    def add(prefix, hs, **kw):
        for k, h in enumerate(hs):
            sid = "%s%d" % (prefix, k)
            scens.append(mk_scen(sid, h, seed * 1000 + len(scens), **kw))
            origin[sid] = prefix
            if k % prof["wal_share"] == 0:
                scens.append(mk_scen(sid + "w", h, seed * 1000 + len(scens), backend="wal", **kw))
                origin[sid + "w"] = prefix
    add("cex", pick(rng, cex_all, prof["ncex"]))
    add("int", pick(rng, int_all, prof["nint"]))
    add("sim", sims)
    add("auto", sims[:max(8, len(sims) // 5)], auto=True)
    # index corruption with wild values (a flipped high bit, +2..+6) instead of the model's +1: harness-only variants
    wild = []
    for sc in list(scens):
        if any((st.get("cf") == "i" and st.get("cp") and st.get("cm") == "alt2") or
               (st.get("op") == "rot" and st.get("f") == "i" and st.get("m") == "alt2") for st in sc["steps"]):
            steps = [dict(st, **({"cm": "alt3"} if st.get("cf") == "i" and st.get("cp") else {}),
                          **({"m": "alt3"} if st.get("op") == "rot" and st.get("f") == "i" else {})) for st in sc["steps"]]
            wild.append(steps)
    add("wild", wild[:max(10, len(scens) // 10)])
    # the integer fields byte by byte: every scenario that alters Term (or Index) is repeated with the flipped bit in each of
    # the eight bytes of the value (the model's alteration is "another value"; which bits differ is the harness's choice)
    lanes = []
    for sc in list(scens):
        hit = [k for k, st in enumerate(sc["steps"]) if (st.get("cp") and st.get("cf") in ("t", "i") and st.get("cm") != "alt1") or
               (st.get("op") == "rot" and st.get("f") in ("t", "i") and st.get("m") != "alt1")]
        if hit and len(lanes) < 8 * (12, 60)[0 if tier == "quick" else 1]:
            for lane in range(8):
                steps = [dict(st) for st in sc["steps"]]
                for k in hit:
                    steps[k]["cm" if steps[k].get("cp") else "m"] = "lane%d" % lane
                lanes.append(steps)
    add("lane", lanes)
    # truncations the underlying store applies and THEN reports as failed (the caller - raft - simply carries on: what it
    # wanted gone is gone): every scenario with a truncation is repeated with that fault on its first truncation
    fdel = []
    for sc in list(scens):
        hit = [k for k, st in enumerate(sc["steps"]) if st.get("op") in ("trunctail", "trunchead")]
        if hit and len(fdel) < (40, 300)[0 if tier == "quick" else 1]:
            steps = [dict(st) for st in sc["steps"]]
            steps[hit[0]]["failafter"] = True
            fdel.append(steps)
    add("fdel", fdel)
    for st in SELFTESTS:
        scens.append(mk_scen(st["id"], st["steps"], seed))
    for st in DIRECTED:
        scens.append(mk_scen(st["id"], st["steps"], seed))
        scens.append(mk_scen(st["id"] + "w", st["steps"], seed, backend="wal"))
    scens.append(mk_scen("st-doctored", SELFTESTS[0]["steps"], seed, doctor="ok"))
    corpus_dir = os.path.join(VERIF, "corpus", pid)
    if os.path.isdir(corpus_dir):
        for f in sorted(os.listdir(corpus_dir)):
            if f.endswith(".json"):
                j = json.load(open(os.path.join(corpus_dir, f)))
                j["id"] = "corpus-" + f[:-5]
                scens.append(j)
    byid = {s["id"]: s for s in scens}
    log("%s: %d scenarios (%d model counterexamples, %d antecedent-true, %d simulated)" % (
        pid, len(scens), sum(1 for o in origin.values() if o == "cex"), sum(1 for o in origin.values() if o == "int"),
        sum(1 for o in origin.values() if o in ("sim", "auto"))))
    trace, hst = run_real(scens, wd, pid)
    viols, stat, jr = judge(trace)
    evs, by = index_trace(trace)
    tl["judge"] = {"states": jr.generated, "wall_s": round(jr.wall, 1)}
    # ------------------------------------------------------------ self-tests (vacuity guards)
    # The guards can only turn a would-be OK into "inconclusive": a violation found on the real code is reported
    # even if a self-test scenario (which runs the same code under test) misbehaves.
    guard_failure = check_selftests(by)
    doctored = [v for v in viols if v["id"] == "st-doctored"]
    if not guard_failure and not any(v["clause"] == "C17_Missed" for v in doctored):
        guard_failure = "the judge accepted a trace in which a corrupted range was reported as verified"
    viols = [v for v in viols if v["id"] != "st-doctored"]
    need = {"C16": ("eq", "lacks", "range"), "C17": ("div", "inflight", "storage"), "C18": ("afterdrop", "blockedstores", "refused", "probes")}[pid]
    empty = [k for k in need if stat.get(k, 0) == 0]
    if empty and not guard_failure:
        guard_failure = "vacuous run: no real-code observation exercised %s" % empty
    # ------------------------------------------------------------ verdict
    mine = [v for v in viols if v["clause"] in CLAUSES[pid]]
    others = [v for v in viols if v["clause"] not in CLAUSES[pid]]
    groups = {}
    for v in mine:
        sig = signature(v, evs, by)
        groups.setdefault(json.dumps(sig, sort_keys=True), []).append(v)
    known, paths = [], []
    for k, vs in sorted(groups.items()):
        sig = json.loads(k)
        vs.sort(key=lambda v: (len(byid[v["id"]]["steps"]), v["id"]))
        v = vs[0]
        rp = save_replay(pid, {"property": pid, "kind": "verifier", "module": "checks_verifier", "signature": sig,
                               "count": len(vs), "clause": v["clause"], "event": evs[v["line"] - 1],
                               "scenario": byid[v["id"]]})
        f = match_finding(pid, sig)
        if f:
            known.append("%s (%d occurrences; e.g. replay=%s)" % (f["what"], len(vs), rp))
        else:
            paths.append(rp)
            log("VIOLATION", pid, sig, "x%d" % len(vs), rp)
    if hst.get("mirror"):
        sig = {"clause": "C18c_ChannelAccounting", "msg": "checkpoints_written - dropped_reports exceeds what the 1-buffered channel can hold"}
        if pid == "C18":
            sid = hst["mirror"][0].split(":")[0]
            rp = save_replay(pid, {"property": pid, "kind": "verifier", "module": "checks_verifier", "signature": sig,
                                   "count": len(hst["mirror"]), "clause": sig["clause"], "event": {"msg": hst["mirror"][0]},
                                   "scenario": byid.get(sid)})
            f = match_finding(pid, sig)
            if f:
                known.append("%s (%d occurrences; e.g. replay=%s)" % (f["what"], len(hst["mirror"]), rp))
            else:
                paths.append(rp)
                log("VIOLATION", pid, sig, "x%d" % len(hst["mirror"]), rp)
        else:
            others = others + [{"clause": "C18c_ChannelAccounting", "id": "mirror", "line": 0}] * len(hst["mirror"])
    if guard_failure and not paths:
        raise Inconclusive(guard_failure)
    withrep = {sid for sid, l in by.items() if any(e["ev"] == "report" for ln, e in l)}
    distinct = len({json.dumps(byid[sid]["steps"], sort_keys=True) for sid in withrep if sid in byid})
    # behaviours of a design run that explores every goroutine schedule (Eager=FALSE) cannot be forced on the real
    # goroutine; their predictions are not comparable
    comparable = ("cex", "int", "sim") if all(c.get("Eager", True) for _, c, _ in prof["design"]) else ("sim",)
    ndrift = sum(drift(byid[sid], l) for sid, l in by.items() if sid in byid and not byid[sid].get("auto")
                 and origin.get(sid) in comparable and not sid.endswith("w"))
    samples = [byid[s] for s in ([v["id"] for v in mine[:1]] + ["int0", "sim0", "cex0"]) if s in byid][:3]
    cov = {
        "states": max(1, tl["states"] + jr.distinct),
        "transitions": max(1, tl["transitions"] + jr.generated),
        "traces_validated_against_impl": len(by),
        "evaluations": len(evs),
        "reports_judged": stat["reports"],
        "distinct_nontrivial": distinct,
        "rule": RULE,
        "samples": samples or [{"note": "no sample"}],
        "judge_antecedents_true": stat,
        "c17_divergence_cells": {"note": "[differing-field mask (index=1 term=2 type=4 data=8 extensions=16), position in range, "
                                         "reported error class] observed on the real code", "count": len(jr.cells),
                                 "cells": sorted(jr.cells, key=str)[:80]},
        "tlc": tl,
        "harness": hst,
        "impl_drift": {"scenarios_where_the_pinned_code_model_mispredicts_a_report": ndrift,
                       "note": "diagnostic only; the model used for prediction has BUG_NoResetOnDelete and BUG_LacksByFirstOnly set"},
        "repaired_design_counterexamples": repaired_cex,
        "model_counterexamples_replayed": {k: len(v) for k, v in cex_all.items()},
        "other_property_rejections": len(others),
        "other_property_rejection_kinds": sorted({v["clause"] for v in others}),
        "known_findings_hit": len(known),
        "scenario_origins": {o: sum(1 for x in origin.values() if x == o) for o in sorted(set(origin.values()))},
    }
    write_evidence(pid, tier, seed, "model_checking", cov, ASSUME, time.time() - t0, len(paths))
    if repaired_cex and not paths:
        # the repaired design is supposed to satisfy the property: a counterexample there that the real code does
        # not reproduce is a flaw of the specification, not of the code
        return finish(pid, paths, known, inconclusive="Verifier.tla: the design model violates %s and the real code does not reproduce it" % pid)
    return finish(pid, paths, known)


def replay(r):
    """check replay <path>: re-execute a saved scenario on the current tree and re-judge it."""
    pid = r["property"]
    jvm_env()
    build(["verifreplay"])
    wd = scratch("verif-replay-")
    sc = dict(r["scenario"])
    trace, _ = run_real([sc], wd, "replay")
    viols, stat, _ = judge(trace)
    evs, by = index_trace(trace)
    for v in viols:
        print("rejected: line=%d clause=%s node=%d event=%s" % (v["line"], v["clause"], v["n"], json.dumps(evs[v["line"] - 1])[:600]))
    if any(v["clause"] in CLAUSES[pid] for v in viols):
        import hashlib
        path = os.path.join(REPLAYS, "%s-%s.json" % (pid, hashlib.sha1(json.dumps(r, sort_keys=True).encode()).hexdigest()[:12]))
        print("VIOLATION property=%s replay=%s" % (pid, path))
        return 1
    print("OK property=%s (scenario no longer violates it)" % pid)
    return 0


CHECKS = {"C16": check, "C17": check, "C18": check}
