"""Self-tests of the binding (DESIGN.md 4.6): they fail if a corrupted trace is accepted."""
import json, os, sys
import vlib
from vlib import *
import walengine as we


def main():
    wd = scratch("verif-selftest-")
    job = {"id": "st", "family": "seq", "codec": "ident", "segSize": 96, "seed": 1, "probeEach": True,
           "steps": [{"op": "store", "first": 1, "cids": [1, 2], "sz": [1, 1]},
                     {"op": "store", "first": 3, "cids": [3], "sz": [2]},
                     {"op": "delete", "min": 1, "max": 1}, {"op": "reopen"},
                     {"op": "store", "first": 4, "cids": [4], "sz": [1]}]}
    obs, _, st = we.run_jobs([job], wd, "st")
    vs = we.judge(obs, wd)
    if vs:
        print("selftest: pristine trace rejected:", vs)
        return 1
    # (i) alter one reply: the judge must reject
    lines = open(obs).read().splitlines()
    k = max(i for i, l in enumerate(lines) if '"ev":"get"' in l and '"res":"ok"' in l)
    e = json.loads(lines[k])
    e["cid"] = e["cid"] + 1
    lines[k] = json.dumps(e)
    bad = os.path.join(wd, "bad.obs.ndjson")
    open(bad, "w").write("\n".join(lines) + "\n")
    vs = we.judge(bad, wd)
    if not vs:
        print("selftest: trace with an altered reply was accepted")
        return 1
    # (ii) drop the acknowledgement of a store: later reads are unexplained
    lines = open(obs).read().splitlines()
    k = next(i for i, l in enumerate(lines) if '"ev":"store"' in l)
    del lines[k]
    open(bad, "w").write("\n".join(lines) + "\n")
    vs = we.judge(bad, wd)
    if not vs:
        print("selftest: trace with a dropped store event was accepted")
        return 1
    # (iii) the engine trace specification (spec/WalImplTrace.tla) is bound to the recorded I/O: the pristine recording
    # shows no drift; one committed metadata field altered, or one recorded call removed, must be noticed
    job2 = dict(job, id="st2", expand=True, forks=[],
                steps=job["steps"] + [{"op": "store", "first": 5, "cids": [5, 6, 7, 8], "sz": [2, 2, 2, 2]},
                                      {"op": "delete", "min": 7, "max": 8}, {"op": "reopen"}])
    _, io, _ = we.run_jobs([job2], wd, "st2", need_io=True)

    def drift(path):
        stt = {}
        we.impl_trace(path, wd, stt)
        if "impl_trace_error" in stt or "impl_trace_clause_evaluations" not in stt:
            print("selftest: WalImplTrace did not run:", stt)
            raise SystemExit(1)
        return stt.get("impl_drift", 0), stt
    n0, st0 = drift(io)
    ev = st0["impl_trace_clause_evaluations"]
    if n0 or min(ev[k] for k in ("shape", "wf", "file", "bounds", "dirx", "Init", "Rotate", "Head", "Tail")) == 0:
        print("selftest: WalImplTrace on a pristine recording: drift %d, clause evaluations %s" % (n0, ev), st0.get("impl_drift_samples"))
        return 1
    lines = open(io).read().splitlines()
    k = max(i for i, l in enumerate(lines) if '"call":"mcommit"' in l and '"bg":true' in l)
    e = json.loads(lines[k])
    e["segs"][-2][3] += 1            # the sealed segment's MaxIndex
    e["segs"][-1][1] += 1            # (keep the list contiguous: the alteration is only visible against the transaction)
    e["segs"][-1][2] += 1
    lines[k] = json.dumps(e)
    badio = os.path.join(wd, "bad.io.ndjson")
    open(badio, "w").write("\n".join(lines) + "\n")
    n1, st1 = drift(badio)
    if not any("ShapeRotate" in x for x in st1.get("impl_drift_kinds", [])):
        print("selftest: an altered rotation commit was accepted by WalImplTrace", st1.get("impl_drift_kinds"))
        return 1
    lines = open(io).read().splitlines()
    k = max(i for i, l in enumerate(lines) if '"call":"unlink"' in l)
    del lines[k]
    open(badio, "w").write("\n".join(lines) + "\n")
    n2, st2 = drift(badio)
    if not any("DirExact" in x for x in st2.get("impl_drift_kinds", [])):
        print("selftest: a recording without one unlink was accepted by WalImplTrace", st2.get("impl_drift_kinds"))
        return 1
    # a recorded write that holds one entry frame more than the call submitted / that starts somewhere else
    lines = open(io).read().splitlines()
    k = max(i for i, l in enumerate(lines) if '"call":"write"' in l and '"nent":' in l and '"frames":"Z"' not in l)
    e = json.loads(lines[k])
    e["nent"] += 1
    lines[k] = json.dumps(e)
    open(badio, "w").write("\n".join(lines) + "\n")
    n3, st3 = drift(badio)
    if not any("WriteShape" in x for x in st3.get("impl_drift_kinds", [])):
        print("selftest: a write holding an extra entry frame was accepted by WalImplTrace", st3.get("impl_drift_kinds"))
        return 1
    e["nent"] -= 1
    e["woff"] += 1
    lines[k] = json.dumps(e)
    open(badio, "w").write("\n".join(lines) + "\n")
    n4, st4 = drift(badio)
    if not any("WriteContiguous" in x for x in st4.get("impl_drift_kinds", [])):
        print("selftest: a write that does not start where the previous one ended was accepted by WalImplTrace", st4.get("impl_drift_kinds"))
        return 1
    log("selftests passed (altered reply rejected, dropped event rejected, altered metadata commit / dropped unlink / altered write noticed by WalImplTrace)")
    return 0
