"""Self-tests of the binding (DESIGN.md 4.6): they fail if a corrupted trace is accepted."""
import json, os, sys
import vlib
from vlib import *
import walengine as we


def main():
    wd = scratch("verif-selftest-")
    job = {"id": "st", "family": "seq", "codec": "ident", "segSize": 96, "seed": 1, "probeEach": True,
           "steps": [{"op": "store", "first": 1, "cids": [1, 2], "sz": [1, 1]},
                     {"op": "store", "first": 3, "cids": [3], "sz": [2]},
                     {"op": "delete", "min": 1, "max": 1}, {"op": "reopen"},
                     {"op": "store", "first": 4, "cids": [4], "sz": [1]}]}
    obs, _, st = we.run_jobs([job], wd, "st")
    vs = we.judge(obs, wd)
    if vs:
        print("selftest: pristine trace rejected:", vs)
        return 1
    # (i) alter one reply: the judge must reject
    lines = open(obs).read().splitlines()
    k = max(i for i, l in enumerate(lines) if '"ev":"get"' in l and '"res":"ok"' in l)
    e = json.loads(lines[k])
    e["cid"] = e["cid"] + 1
    lines[k] = json.dumps(e)
    bad = os.path.join(wd, "bad.obs.ndjson")
    open(bad, "w").write("\n".join(lines) + "\n")
    vs = we.judge(bad, wd)
    if not vs:
        print("selftest: trace with an altered reply was accepted")
        return 1
    # (ii) drop the acknowledgement of a store: later reads are unexplained
    lines = open(obs).read().splitlines()
    k = next(i for i, l in enumerate(lines) if '"ev":"store"' in l)
    del lines[k]
    open(bad, "w").write("\n".join(lines) + "\n")
    vs = we.judge(bad, wd)
    if not vs:
        print("selftest: trace with a dropped store event was accepted")
        return 1
    log("selftests passed (altered reply rejected, dropped event rejected)")
    return 0
