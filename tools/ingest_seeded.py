#!/usr/bin/env python3
"""ingest_seeded.py <worktree> <PID> <Sxx> <round-note> : copy a sub-agent's deliverable (_mutant/<PID>/) into seeded/<Sxx>/
in the format tools/verify_seeded.sh and tools/run_seeded.py expect."""
import json, os, shutil, sys
wt, pid, sid, note = sys.argv[1:5]
src = os.path.join(wt, "_mutant", pid)
dst = os.path.join("/verif/seeded", sid)
os.makedirs(dst, exist_ok=True)
m = json.load(open(os.path.join(src, "meta.json")))
for f in os.listdir(src):
    if f != "meta.json":
        shutil.copy(os.path.join(src, f), dst)
meta = {"id": sid, "breaks": [pid], "written_for": pid, "summary": m.get("summary", ""), "needs": m.get("needs", ""),
        "files_changed": m.get("files_changed", []), "demo_cmd": m.get("demo_run", ""),
        "origin": "independent sub-agent given only the property texts and a scratch worktree (%s)" % note}
json.dump(meta, open(os.path.join(dst, "meta.json"), "w"), indent=1)
print(sid, pid, meta["demo_cmd"])
