#!/bin/bash
# verify_seeded.sh <mutant-dir> : confirm a seeded change in a scratch worktree of /repo HEAD:
#  (1) patch applies and builds, (2) existing suite passes with it, (3) demo fails with it, (4) demo passes without it.
set -u
export GOFLAGS=-mod=mod GOPROXY=off GOSUMDB=off GOTOOLCHAIN=local
M=$1
WT=$(mktemp -d /tmp/seedwt-XXXX); rmdir $WT
git -C /repo worktree add -q --detach $WT HEAD || exit 2
trap "git -C /repo worktree remove --force $WT" EXIT
cd $WT
demo_cmd=$(python3 -c "import json;print(json.load(open('$M/meta.json'))['demo_cmd'])")
# where does the demo go? take the copy destination from the demo_cmd if it has a cp, else root
dest=$(grep -m1 -o -E "(place|copy|placed|copied)[^\n]*" $M/demo_test.go | head -1)
pkgdir="."
if grep -q "package integration" $M/demo_test.go; then pkgdir="integration"; fi
if grep -q "^package segment" $M/demo_test.go; then pkgdir="segment"; fi
cp $M/demo_test.go $pkgdir/zz_seeded_demo_test.go
run=$(grep -o -E "\-run '?[A-Za-z0-9_|]+'?" <<< "$demo_cmd" | head -1 | sed "s/-run //; s/'//g")
[ -z "$run" ] && run=$(grep -o -E "func (Test[A-Za-z0-9_]+)" $M/demo_test.go | head -1 | sed 's/func //')
echo "demo: pkg=$pkgdir run=$run"
echo -n "demo without patch: "; go test -vet=off -count=1 -run "$run" ./$pkgdir 2>&1 | tail -1
git apply $M/patch.diff 2>/dev/null || git apply --3way $M/patch.diff 2>/dev/null || { echo "PATCH DOES NOT APPLY"; exit 3; }
go build ./... || { echo "BUILD FAILS"; exit 3; }
echo -n "demo with patch: "; go test -vet=off -count=1 -run "$run" ./$pkgdir 2>&1 | tail -1
rm $pkgdir/zz_seeded_demo_test.go
echo "suite with patch:"; go test -vet=off -count=1 ./... 2>&1 | grep -v "no test files" | grep -v "^ok" ; echo "(suite done)"
