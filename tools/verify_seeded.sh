#!/bin/bash
# verify_seeded.sh <mutant-dir> : confirm a seeded change in a scratch worktree of /repo HEAD:
#  (1) patch applies and builds, (2) existing suite passes with it, (3) demo fails with it, (4) demo passes without it.
set -u
export GOFLAGS=-mod=mod GOPROXY=off GOSUMDB=off GOTOOLCHAIN=local
M=$(readlink -f $1)
WT=$(mktemp -d /tmp/seedwt-XXXX); rmdir $WT
git -C /repo worktree add -q --detach $WT HEAD || exit 2
trap "git -C /repo worktree remove --force $WT" EXIT
cd $WT
rundemo() {
  if [ -f $M/demo.sh ]; then bash $M/demo.sh $WT 2>&1 | tail -1; return; fi
  demo_cmd=$(python3 -c "import json;print(json.load(open('$M/meta.json'))['demo_cmd'])")
  gocmd=$(grep -o -E "go test .*" <<< "$demo_cmd" | head -1 | sed 's/&&.*//')
  pkgdir=$(awk '{print $NF}' <<< "$gocmd" | sed "s/'//g" | sed 's#^\./##; s#/$##'); [ -z "$pkgdir" ] && pkgdir="."
  [ -d "$pkgdir" ] || pkgdir="."
  cp $M/demo_test.go $pkgdir/zz_seeded_demo_test.go
  timeout 600 bash -c "$gocmd" 2>&1 | tail -1
  rm -f $pkgdir/zz_seeded_demo_test.go
}
echo -n "demo without patch: "; rundemo
git apply $M/patch.diff 2>/dev/null || git apply --3way $M/patch.diff 2>/dev/null || { echo "PATCH DOES NOT APPLY"; exit 3; }
go build ./... || { echo "BUILD FAILS"; exit 3; }
echo -n "demo with patch: "; rundemo
echo "suite with patch:"; go test -vet=off -count=1 ./... 2>&1 | grep -v "no test files" | grep -v "^ok" ; echo "(suite done)"
