#!/usr/bin/env python3
"""trymutant.py <worktree-or-patch> <ID>[,<ID>...] [quick|thorough]
Development aid (DESIGN.md 4.11). With a patch file: applies it to /repo, runs the checks, reverts.
With a directory (a scratch worktree that already carries the change): runs the checks against it
through VERIF_REPO, leaving /repo and /verif/harness alone (so several can run in parallel)."""
import subprocess, sys, time, os
target, ids = sys.argv[1], sys.argv[2].split(",")
tier = sys.argv[3] if len(sys.argv) > 3 else "quick"
env = dict(os.environ)
isdir = os.path.isdir(target)
root = "/verif"
if isdir:
    env["VERIF_REPO"] = os.path.abspath(target)
    # private snapshot of the machinery, so that /verif can be edited meanwhile
    import tempfile, shutil, atexit
    root = tempfile.mkdtemp(prefix="verif-snap-")
    atexit.register(lambda: shutil.rmtree(root, ignore_errors=True))
    for d in ("lib", "spec", "bin", "corpus", "harness", "golden"):
        if os.path.isdir(os.path.join("/verif", d)):
            shutil.copytree(os.path.join("/verif", d), os.path.join(root, d),
                            ignore=shutil.ignore_patterns("bin" if d == "harness" else "__pycache__", "__pycache__"))
    shutil.copy("/verif/known_findings.json", root)
else:
    st = subprocess.run(["git", "-C", "/repo", "status", "--porcelain", "--untracked-files=no"], capture_output=True, text=True).stdout.strip()
    if st:
        print("repo not clean:", st); sys.exit(2)
    r = subprocess.run(["git", "-C", "/repo", "apply", target], capture_output=True, text=True)
    if r.returncode != 0:
        print("apply failed", r.stderr); sys.exit(2)
try:
    for i in ids:
        t = time.time()
        p = subprocess.run([root + "/bin/check", i, "--tier", tier], capture_output=True, text=True, cwd=root, env=env)
        v = [l for l in p.stdout.splitlines() if l.startswith(("VIOLATION", "KNOWN", "OK", "INCONCLUSIVE"))]
        sigs = [l for l in p.stderr.splitlines() if "VIOLATION" in l]
        print(os.path.basename(target.rstrip("/")), i, "rc=%d" % p.returncode, "%.0fs" % (time.time() - t), "; ".join(x[:200] for x in (sigs[:3] or v[:2])), flush=True)
finally:
    if not isdir:
        subprocess.run(["git", "-C", "/repo", "checkout", "--", "."], check=True)
