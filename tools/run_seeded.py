#!/usr/bin/env python3
"""run_seeded.py [ids...] : run the registered quick checks against every seeded change (each in its own
scratch worktree of /repo HEAD, through VERIF_REPO, never touching /repo) and print the detection table."""
import json, os, subprocess, sys, concurrent.futures, tempfile, shutil
SEED = "/verif/seeded"
ids = sys.argv[1:] or sorted(d for d in os.listdir(SEED) if os.path.isdir(os.path.join(SEED, d)))
def one(sid):
    meta = json.load(open(os.path.join(SEED, sid, "meta.json")))
    wt = tempfile.mkdtemp(prefix="seedrun-"); os.rmdir(wt)
    subprocess.run(["git", "-C", "/repo", "worktree", "add", "-q", "--detach", wt, "HEAD"], check=True)
    try:
        r = subprocess.run(["git", "-C", wt, "apply", os.path.join(SEED, sid, "patch.diff")], capture_output=True, text=True)
        if r.returncode != 0:
            return sid, {"error": "patch does not apply: " + r.stderr[:200]}
        checks = meta.get("checks") or meta["breaks"]
        env = dict(os.environ, VERIF_NCPU="4")
        p = subprocess.run(["/verif/tools/trymutant.py", wt, ",".join(checks)], capture_output=True, text=True, env=env)
        res = {}
        for ln in p.stdout.splitlines():
            parts = ln.split()
            if len(parts) >= 3 and parts[2].startswith("rc="):
                res[parts[1]] = (parts[2], ln.split("[verif] VIOLATION")[1][:140] if "[verif] VIOLATION" in ln else "")
        return sid, res
    finally:
        subprocess.run(["git", "-C", "/repo", "worktree", "remove", "--force", wt])
with concurrent.futures.ThreadPoolExecutor(4) as ex:
    for sid, res in ex.map(one, ids):
        print(sid, json.dumps(res), flush=True)
