------------------------------- MODULE WalConc -------------------------------
(***************************************************************************)
(* Fine-grained concurrency model of raft-wal (DESIGN.md 2.5): one writer  *)
(* (StoreLogs / DeleteRange), the background rotation goroutine, N reader  *)
(* goroutines (GetLog / FirstIndex / LastIndex), a StableStore client and  *)
(* a goroutine calling Close.  Every Go statement that touches shared      *)
(* state is one label; the labels that coincide with a verifPoint(site)    *)
(* hook of the implementation are named after the site (see `Site`).       *)
(*                                                                         *)
(* Shared state mirrors the Go fields: closed flag, writeMu, awaitRotate / *)
(* triggerRotate channels, the atomic state pointer with copy-on-write     *)
(* versions, per-version refcount and finalizer, open file handles, the    *)
(* tail writer's commitIdx (published after fsync), metaDB open flag and   *)
(* stableMu.                                                               *)
(*                                                                         *)
(* FIXED = TRUE is the repaired design (fix F13): API methods re-check for *)
(* the empty state after acquiring it, Close wakes a writer parked in      *)
(* awaitRotationLocked, StableStore calls exclude Close through stableMu.  *)
(* FIXED = FALSE reproduces the pinned behaviour: TLC finds the reader /   *)
(* writer panic on the empty state and the parked-writer deadlock.         *)
(***************************************************************************)
EXTENDS Integers, Sequences, FiniteSets, TLC, Json

CONSTANTS NReaders,   \* number of reader goroutines
          ReadsEach,  \* reads per reader
          Prog,       \* writer program: sequence of "store" | "delh" | "delt"
          SealAt,     \* a tail holding this many entries is sealed by the append
          FIXED,      \* repaired design (TRUE) or pinned behaviour (FALSE)
          WithCloser, WithStable,
          EarlyPublish, \* mutant: commitIdx published before fsync
          Record,      \* record the passage of hook sites in `sched` (schedule export only)
          CoverProcs   \* coverage-directed export: only co-locations involving one of these processes ({} = all)

Readers == 1..NReaders
WriterId == 10
RotId == 20
CloserId == 30
StableId == 40

(* a sealed segment: file id, base index, entries, logical min/max index *)
Seg(id, base, ents, mn, mx) == [id |-> id, base |-> base, ents |-> ents, min |-> mn, max |-> mx]

(* --algorithm WalConc {
variables
  closed = 0,
  mu = 0,                         \* writeMu owner (0 = free)
  awaitRot = 0,                   \* 0 = nil, k = channel k
  nextChan = 1,
  chanClosed = {},
  trig = <<>>, trigClosed = FALSE,
  statePtr = 1,                   \* current version (0 = the empty state of a closed WAL)
  nver = 1,
  ver = [v \in {1} |-> [segs |-> <<>>, tail |-> 1]],
  ref = [v \in {0, 1} |-> 0],
  fin = [v \in {0, 1} |-> 0],     \* 0 none, 1 set, 2 ran
  finFiles = [v \in {0, 1} |-> {}], \* files the finalizer of v closes
  delFiles = [v \in {0, 1} |-> {}], \* files the finalizer of v deletes
  ntail = 1,
  tl = [t \in {1} |-> [id |-> 1, base |-> 1, ents |-> <<>>, commit |-> 0, synced |-> 0, sealed |-> FALSE]],
  nfile = 1,
  open = [f \in {1} |-> TRUE],
  metaOpen = TRUE,
  stableReaders = 0, stableW = FALSE,  \* stableMu
  nc = 1,                         \* next content id
  \* ghost: history of abstract logs published, in order (C06 oracle)
  hist = << [f |-> 0, c |-> <<>>] >>,
  panicked = {},
  lastRes = [p |-> 0],            \* the most recently completed call
  closerDone = FALSE,
  writerDone = FALSE,
  sched = <<>>;                   \* sequence of <<process, site>> hook passages (schedule export)

define {
  Abs == hist[Len(hist)]
  AbsFirst(a) == IF a.c = <<>> THEN 0 ELSE a.f
  AbsLast(a) == IF a.c = <<>> THEN 0 ELSE a.f + Len(a.c) - 1
  AbsGet(a, i) == IF a.c # <<>> /\ i >= a.f /\ i <= AbsLast(a) THEN a.c[i - a.f + 1] ELSE 0

  \* implementation view of a version
  TailOf(v) == tl[ver[v].tail]
  TailLast(v) == IF TailOf(v).commit = 0 THEN 0 ELSE TailOf(v).base + TailOf(v).commit - 1
  VFirst(v) == IF ver[v].segs # <<>> THEN ver[v].segs[1].min
               ELSE IF TailOf(v).commit = 0 THEN 0 ELSE TailOf(v).base   \* tail MinIndex = base in this model
  VLast(v) == IF TailLast(v) > 0 THEN TailLast(v)
              ELSE IF ver[v].segs = <<>> THEN 0 ELSE TailOf(v).base - 1
  \* -1 = read error (file closed), 0 = not found
  VGet(v, i) ==
    IF i < VFirst(v) \/ VFirst(v) = 0 THEN 0
    ELSE IF TailLast(v) > 0 /\ i >= TailOf(v).base /\ i <= TailLast(v)
         THEN (IF open[TailOf(v).id] THEN TailOf(v).ents[i - TailOf(v).base + 1] ELSE -1)
    ELSE LET hit == {k \in 1..Len(ver[v].segs) : ver[v].segs[k].min <= i /\ i <= ver[v].segs[k].max} IN
         IF hit = {} THEN 0
         ELSE LET sg == ver[v].segs[CHOOSE k \in hit : TRUE] IN
              IF open[sg.id] THEN sg.ents[i - sg.base + 1] ELSE -1
  FilesOf(v) == {ver[v].segs[k].id : k \in 1..Len(ver[v].segs)} \cup {TailOf(v).id}
}

macro Lock(me) { await mu = 0; mu := me; }
macro Unlock() { mu := 0; }
macro Panic(me, why) { panicked := panicked \cup {<<me, why>>}; }
macro Hook(me, site) { if (Record) { sched := Append(sched, <<me, site>>); } }
macro Release(v) {
  if (ref[v] = 1 /\ fin[v] = 1) {
    fin[v] := 2;
    open := [f \in DOMAIN open |-> IF f \in finFiles[v] THEN FALSE ELSE open[f]];
  };
  ref[v] := ref[v] - 1;
}
macro NewVersion(segs, tail) {
  ver := [x \in DOMAIN ver \cup {nver + 1} |-> IF x = nver + 1 THEN [segs |-> segs, tail |-> tail] ELSE ver[x]];
  ref := [x \in DOMAIN ref \cup {nver + 1} |-> IF x = nver + 1 THEN 0 ELSE ref[x]];
  fin := [x \in DOMAIN fin \cup {nver + 1} |-> IF x = nver + 1 THEN 0 ELSE fin[x]];
  finFiles := [x \in DOMAIN finFiles \cup {nver + 1} |-> IF x = nver + 1 THEN {} ELSE finFiles[x]];
  delFiles := [x \in DOMAIN delFiles \cup {nver + 1} |-> IF x = nver + 1 THEN {} ELSE delFiles[x]];
  nver := nver + 1;
}
macro NewTail(base) {
  tl := [x \in DOMAIN tl \cup {ntail + 1} |-> IF x = ntail + 1
            THEN [id |-> nfile + 1, base |-> base, ents |-> <<>>, commit |-> 0, synced |-> 0, sealed |-> FALSE] ELSE tl[x]];
  open := [f \in DOMAIN open \cup {nfile + 1} |-> IF f = nfile + 1 THEN TRUE ELSE open[f]];
  ntail := ntail + 1; nfile := nfile + 1;
}

(***************************************************************************)
(* Writer: StoreLogs / DeleteRange                                         *)
(***************************************************************************)
fair process (Writer = WriterId)
  variables pcx = 1, s = 0, myCh = 0, newSegs = <<>>, gone = {}, nt = 0, wres = "";
{
 w_next:
  while (pcx <= Len(Prog)) {
   w_call:                                      \* gate: the harness releases the call; then checkClosed
    Hook(WriterId, "call");
    if (closed = 1) { wres := "closed"; goto w_done; };
   w_checked: Hook(WriterId, "w.checked");      \* gate: verifPoint("<op>.checked")
   w_lock: Lock(WriterId);
   w_await:                                     \* awaitRotationLocked
    if (awaitRot # 0) {
      myCh := awaitRot; Unlock();
     w_parked: Hook(WriterId, "awaitRotation.unlocked");
     w_wait: await myCh \in chanClosed;
     w_woken: Lock(WriterId);
    };
   w_acquire:                                   \* acquireState (+ F13 re-check)
    s := statePtr; ref[s] := ref[s] + 1;
   w_deref:
    if (s = 0) {
      if (FIXED) { Release(s); Unlock(); wres := "closed"; goto w_done; }
      else { Panic(WriterId, "nil tail"); Release(s); Unlock(); wres := "panic"; goto w_done; };
    };
   w_op:
    if (Prog[pcx] = "store") {
      if (TailOf(s).sealed) { wres := "sealed"; goto w_release; };
     w_write:                                   \* Append: offsets + WriteAt
      tl[ver[s].tail].ents := Append(@, nc) || tl[ver[s].tail].sealed := (Len(TailOf(s).ents) + 1 >= SealAt);
      nc := nc + 1;
     w_early:
      if (EarlyPublish) {
        tl[ver[s].tail].commit := Len(TailOf(s).ents);
        hist := Append(hist, IF Abs.c = <<>> THEN [f |-> TailOf(s).base + Len(TailOf(s).ents) - 1, c |-> <<nc - 1>>]
                             ELSE [f |-> Abs.f, c |-> Append(Abs.c, nc - 1)]);
      };
     w_sync:                                    \* wf.Sync()  (schedule point: sim SyncHook)
      Hook(WriterId, "sync");
      tl[ver[s].tail].synced := Len(TailOf(s).ents);
     w_publish:                                 \* atomic.StoreUint64(&commitIdx): the linearization point of the append
      if (~EarlyPublish) {
        tl[ver[s].tail].commit := Len(TailOf(s).ents);
        hist := Append(hist, IF Abs.c = <<>> THEN [f |-> TailOf(s).base + Len(TailOf(s).ents) - 1, c |-> <<nc - 1>>]
                             ELSE [f |-> Abs.f, c |-> Append(Abs.c, nc - 1)]);
      };
      wres := "ok";
     w_trigger:                                 \* gate: verifPoint("StoreLogs.appended") ; then triggerRotateLocked
      Hook(WriterId, "StoreLogs.appended");
      if (TailOf(s).sealed /\ closed = 0) {
        awaitRot := nextChan; nextChan := nextChan + 1;
        if (trigClosed) { Panic(WriterId, "send on closed channel"); } else { trig := Append(trig, 1); };
      };
    } else if (Prog[pcx] = "delt" /\ Len(Abs.c) > 1) {
      \* DeleteRange(last, last): tail truncation (with a single entry the WAL classifies it as a head truncation)
      if (TailLast(s) > 0) {
        \* newMax inside the tail: force-seal it, keep entries below last
        if (Len(TailOf(s).ents) = 1) {
          \* tail held only the truncated entry: BaseIndex > newMax => whole tail deleted
          newSegs := ver[s].segs; gone := {TailOf(s).id};
        } else {
          newSegs := Append(ver[s].segs, Seg(TailOf(s).id, TailOf(s).base, TailOf(s).ents, TailOf(s).base, TailLast(s) - 1));
          gone := {};
        };
      } else {
        \* tail empty: last entry lives in the last sealed segment
        with (ls = ver[s].segs[Len(ver[s].segs)]) {
          if (ls.max - 1 < ls.min) {
            newSegs := SubSeq(ver[s].segs, 1, Len(ver[s].segs) - 1);
            gone := {TailOf(s).id, ls.id};
          } else {
            newSegs := [ver[s].segs EXCEPT ![Len(ver[s].segs)].max = @ - 1];
            gone := {TailOf(s).id};
          };
        };
      };
     w_tcommit:                                 \* gate: verifPoint("mutate.committed") (metadata is committed) ; postCommit
      Hook(WriterId, "mutate.committed");
      NewTail(AbsLast(Abs));
     w_tstore:                                  \* w.s.Store(&newS)
      NewVersion(newSegs, ntail);
      statePtr := nver;
      hist := Append(hist, IF Len(Abs.c) = 1 THEN [f |-> 0, c |-> <<>>] ELSE [f |-> Abs.f, c |-> SubSeq(Abs.c, 1, Len(Abs.c) - 1)]);
     w_tfin:                                    \* gate: verifPoint("mutate.stored") ; s.finalizer.Store(fn)
      Hook(WriterId, "mutate.stored");
      fin[s] := 1 || finFiles[s] := gone || delFiles[s] := gone;
      wres := "ok";
    } else if ((Prog[pcx] = "delh" \/ Prog[pcx] = "delt") /\ Abs.c # <<>>) {
      \* DeleteRange(first, first): head truncation
      if (ver[s].segs # <<>>) {
        if (ver[s].segs[1].min = ver[s].segs[1].max) {
          newSegs := Tail(ver[s].segs);
          \* nothing left at all: the (empty) tail goes too and a new one is created
          if (Len(ver[s].segs) = 1 /\ TailLast(s) = 0) { gone := {ver[s].segs[1].id, TailOf(s).id}; nt := 0; }
          else { gone := {ver[s].segs[1].id}; nt := ver[s].tail; };
        } else {
          newSegs := [ver[s].segs EXCEPT ![1].min = @ + 1]; gone := {}; nt := ver[s].tail;
        };
      } else {
        \* only the tail holds entries
        if (Len(TailOf(s).ents) = 1) { newSegs := <<>>; gone := {TailOf(s).id}; nt := 0; }
        else {
          \* MinIndex moves inside the tail: modelled as a sealed-like view of the same file
          newSegs := <<>>; gone := {}; nt := ver[s].tail;
        };
      };
     w_hcommit:
      Hook(WriterId, "mutate.committed");
      if (nt = 0) { NewTail(AbsLast(Abs) + 1); nt := ntail; };
     w_hstore:
      if (gone = {} /\ ver[s].segs = <<>>) {
        \* head truncation inside the tail: the new version reads it through MinIndex
        tl[nt].base := tl[nt].base + 1 || tl[nt].ents := Tail(tl[nt].ents) || tl[nt].commit := tl[nt].commit - 1
          || tl[nt].synced := tl[nt].synced - 1;
      };
      NewVersion(newSegs, nt);
      statePtr := nver;
      hist := Append(hist, IF Len(Abs.c) = 1 THEN [f |-> 0, c |-> <<>>] ELSE [f |-> Abs.f + 1, c |-> Tail(Abs.c)]);
     w_hfin:
      Hook(WriterId, "mutate.stored");
      fin[s] := 1 || finFiles[s] := gone || delFiles[s] := gone;
      wres := "ok";
    } else { wres := "noop"; };
   w_release: Release(s);
   w_unlock: Unlock();
   w_done:
    lastRes := [p |-> WriterId, op |-> Prog[pcx], res |-> wres];
    pcx := pcx + 1;
  };
 w_end: writerDone := TRUE;
}

(***************************************************************************)
(* Rotation goroutine                                                      *)
(***************************************************************************)
fair process (Rot = RotId)
  variables rs = 0, done = 0, rquit = FALSE;
{
 t_recv:
  while (~rquit) {
    await trig # <<>> \/ trigClosed \/ (writerDone /\ ~WithCloser);
    if (trig # <<>>) { trig := Tail(trig); }
    else if (~trigClosed) { rquit := TRUE; goto t_end; };   \* model artefact: nothing more to do
   t_received: Hook(RotId, "rotate.received");   \* gate
   t_lock: Lock(RotId);
   t_closed:
    if (closed = 1) { Unlock(); goto t_exit; };
   t_acquire:                                   \* mutateStateLocked
    rs := statePtr; ref[rs] := ref[rs] + 1;
   t_commit:
    Hook(RotId, "mutate.committed");
    NewTail(TailOf(rs).base + Len(TailOf(rs).ents));
   t_store:
    NewVersion(Append(ver[rs].segs, Seg(TailOf(rs).id, TailOf(rs).base, TailOf(rs).ents, TailOf(rs).base,
                                        TailOf(rs).base + Len(TailOf(rs).ents) - 1)), ntail);
    statePtr := nver;
   t_fin: Hook(RotId, "mutate.stored"); fin[rs] := 1;
   t_release: Release(rs);
   t_done:
    done := awaitRot; awaitRot := 0; Unlock();
   t_close:
    if (done = 0) { Panic(RotId, "close of nil channel"); }
    else if (done \in chanClosed) { Panic(RotId, "close of closed channel"); }
    else { chanClosed := chanClosed \cup {done}; };
   t_doneh: Hook(RotId, "rotate.done");           \* gate
  };
  goto t_end;
 t_exit: Hook(RotId, "rotate.exit");              \* gate
 t_end: skip;
}

(***************************************************************************)
(* Readers                                                                 *)
(***************************************************************************)
fair process (Reader \in Readers)
  variables n = 0, rv = 0, idx = 0, from = 0, rres = 0;
{
 r_next:
  while (n < ReadsEach) {
   r_call:                                              \* gate: the harness releases the call; then checkClosed
    Hook(self, "call");
    from := Len(hist);
    if (closed = 1) { rres := -2; goto r_done; };       \* ErrClosed
   r_checked: Hook(self, "GetLog.checked");             \* gate: verifPoint("GetLog.checked")
   r_load: rv := statePtr;                              \* loadState
   r_loaded:                                            \* gate: verifPoint("acquireState.loaded") ; acquire
    Hook(self, "acquireState.loaded");
    ref[rv] := ref[rv] + 1;
   r_recheck:                                           \* fix F13: re-validate the pointer after acquiring
    if (FIXED /\ statePtr # rv) { Release(rv); goto r_load; };
   r_deref:
    if (rv = 0) {
      if (FIXED) { rres := -2; goto r_release; }
      else { Panic(self, "nil segments"); rres := -3; goto r_release; };
    };
   r_read:
    with (i \in 1..(AbsLast(hist[Len(hist)]) + 1)) {
      idx := i;
      \* fix F13: a read error while the WAL is being closed is reported as ErrClosed
      rres := IF FIXED /\ VGet(rv, i) = -1 /\ closed = 1 THEN -2 ELSE VGet(rv, i);
    };
   r_release: Release(rv);
   r_done:
    lastRes := [p |-> self, op |-> "get", idx |-> idx, res |-> rres, from |-> from, to |-> Len(hist)];
    n := n + 1;
  };
}

(***************************************************************************)
(* StableStore client                                                      *)
(***************************************************************************)
fair process (Stable = StableId)
  variables kres = "";
{
 k_call:
  if (~WithStable) { kres := "closed"; goto k_end; };
 k_call2:
  Hook(StableId, "call");
  if (closed = 1) { kres := "closed"; goto k_end; };
 k_gate: Hook(StableId, "Set.checked");
 k_rlock:
  if (FIXED) {
    await ~stableW; stableReaders := stableReaders + 1;
   k_recheck:
    if (closed = 1) { stableReaders := stableReaders - 1; kres := "closed"; goto k_end; };
  };
 k_use:                                           \* gate: entry of metaDB.SetStable (sim MetaStore hook)
  Hook(StableId, "sset");
  if (~metaOpen) { Panic(StableId, "metaDB used after Close"); kres := "panic"; } else { kres := "ok"; };
 k_runlock:
  if (FIXED) { stableReaders := stableReaders - 1; };
 k_end:
  lastRes := [p |-> StableId, op |-> "set", res |-> kres];
}

(***************************************************************************)
(* Close                                                                   *)
(***************************************************************************)
fair process (Closer = CloserId)
  variables cs = 0;
{
 c_flag:
  if (~WithCloser) { goto c_end; };
 c_call:                                          \* gate ; then atomic.SwapUint32(&w.closed, 1)
  Hook(CloserId, "call");
  closed := 1;
 c_flagged: Hook(CloserId, "Close.flagged");      \* gate
 c_lock: Lock(CloserId);
 c_await:
  if (FIXED /\ awaitRot # 0) { chanClosed := chanClosed \cup {awaitRot}; };
  awaitRot := 0;
 c_trig:
  if (trigClosed) { Panic(CloserId, "close of closed channel"); } else { trigClosed := TRUE; };
 c_acquire: cs := statePtr; ref[cs] := ref[cs] + 1;
 c_store: statePtr := 0;
 c_fin:                                           \* gate: verifPoint("Close.stored") ; finalizer.Store
  Hook(CloserId, "Close.stored");
  fin[cs] := 1 || finFiles[cs] := FilesOf(cs);
 c_meta:
  if (FIXED) { await stableReaders = 0; };
  metaOpen := FALSE;
 c_release: Release(cs);
 c_unlock: Unlock();
  closerDone := TRUE;
 c_end: skip;
}
} *)
\* BEGIN TRANSLATION
VARIABLES pc, closed, mu, awaitRot, nextChan, chanClosed, trig, trigClosed, 
          statePtr, nver, ver, ref, fin, finFiles, delFiles, ntail, tl, nfile, 
          open, metaOpen, stableReaders, stableW, nc, hist, panicked, lastRes, 
          closerDone, writerDone, sched

(* define statement *)
Abs == hist[Len(hist)]
AbsFirst(a) == IF a.c = <<>> THEN 0 ELSE a.f
AbsLast(a) == IF a.c = <<>> THEN 0 ELSE a.f + Len(a.c) - 1
AbsGet(a, i) == IF a.c # <<>> /\ i >= a.f /\ i <= AbsLast(a) THEN a.c[i - a.f + 1] ELSE 0


TailOf(v) == tl[ver[v].tail]
TailLast(v) == IF TailOf(v).commit = 0 THEN 0 ELSE TailOf(v).base + TailOf(v).commit - 1
VFirst(v) == IF ver[v].segs # <<>> THEN ver[v].segs[1].min
             ELSE IF TailOf(v).commit = 0 THEN 0 ELSE TailOf(v).base
VLast(v) == IF TailLast(v) > 0 THEN TailLast(v)
            ELSE IF ver[v].segs = <<>> THEN 0 ELSE TailOf(v).base - 1

VGet(v, i) ==
  IF i < VFirst(v) \/ VFirst(v) = 0 THEN 0
  ELSE IF TailLast(v) > 0 /\ i >= TailOf(v).base /\ i <= TailLast(v)
       THEN (IF open[TailOf(v).id] THEN TailOf(v).ents[i - TailOf(v).base + 1] ELSE -1)
  ELSE LET hit == {k \in 1..Len(ver[v].segs) : ver[v].segs[k].min <= i /\ i <= ver[v].segs[k].max} IN
       IF hit = {} THEN 0
       ELSE LET sg == ver[v].segs[CHOOSE k \in hit : TRUE] IN
            IF open[sg.id] THEN sg.ents[i - sg.base + 1] ELSE -1
FilesOf(v) == {ver[v].segs[k].id : k \in 1..Len(ver[v].segs)} \cup {TailOf(v).id}

VARIABLES pcx, s, myCh, newSegs, gone, nt, wres, rs, done, rquit, n, rv, idx, 
          from, rres, kres, cs

vars == << pc, closed, mu, awaitRot, nextChan, chanClosed, trig, trigClosed, 
           statePtr, nver, ver, ref, fin, finFiles, delFiles, ntail, tl, 
           nfile, open, metaOpen, stableReaders, stableW, nc, hist, panicked, 
           lastRes, closerDone, writerDone, sched, pcx, s, myCh, newSegs, 
           gone, nt, wres, rs, done, rquit, n, rv, idx, from, rres, kres, cs
        >>

ProcSet == {WriterId} \cup {RotId} \cup (Readers) \cup {StableId} \cup {CloserId}

Init == (* Global variables *)
        /\ closed = 0
        /\ mu = 0
        /\ awaitRot = 0
        /\ nextChan = 1
        /\ chanClosed = {}
        /\ trig = <<>>
        /\ trigClosed = FALSE
        /\ statePtr = 1
        /\ nver = 1
        /\ ver = [v \in {1} |-> [segs |-> <<>>, tail |-> 1]]
        /\ ref = [v \in {0, 1} |-> 0]
        /\ fin = [v \in {0, 1} |-> 0]
        /\ finFiles = [v \in {0, 1} |-> {}]
        /\ delFiles = [v \in {0, 1} |-> {}]
        /\ ntail = 1
        /\ tl = [t \in {1} |-> [id |-> 1, base |-> 1, ents |-> <<>>, commit |-> 0, synced |-> 0, sealed |-> FALSE]]
        /\ nfile = 1
        /\ open = [f \in {1} |-> TRUE]
        /\ metaOpen = TRUE
        /\ stableReaders = 0
        /\ stableW = FALSE
        /\ nc = 1
        /\ hist = << [f |-> 0, c |-> <<>>] >>
        /\ panicked = {}
        /\ lastRes = [p |-> 0]
        /\ closerDone = FALSE
        /\ writerDone = FALSE
        /\ sched = <<>>
        (* Process Writer *)
        /\ pcx = 1
        /\ s = 0
        /\ myCh = 0
        /\ newSegs = <<>>
        /\ gone = {}
        /\ nt = 0
        /\ wres = ""
        (* Process Rot *)
        /\ rs = 0
        /\ done = 0
        /\ rquit = FALSE
        (* Process Reader *)
        /\ n = [self \in Readers |-> 0]
        /\ rv = [self \in Readers |-> 0]
        /\ idx = [self \in Readers |-> 0]
        /\ from = [self \in Readers |-> 0]
        /\ rres = [self \in Readers |-> 0]
        (* Process Stable *)
        /\ kres = ""
        (* Process Closer *)
        /\ cs = 0
        /\ pc = [self \in ProcSet |-> CASE self = WriterId -> "w_next"
                                        [] self = RotId -> "t_recv"
                                        [] self \in Readers -> "r_next"
                                        [] self = StableId -> "k_call"
                                        [] self = CloserId -> "c_flag"]

w_next == /\ pc[WriterId] = "w_next"
          /\ IF pcx <= Len(Prog)
                THEN /\ pc' = [pc EXCEPT ![WriterId] = "w_call"]
                ELSE /\ pc' = [pc EXCEPT ![WriterId] = "w_end"]
          /\ UNCHANGED << closed, mu, awaitRot, nextChan, chanClosed, trig, 
                          trigClosed, statePtr, nver, ver, ref, fin, finFiles, 
                          delFiles, ntail, tl, nfile, open, metaOpen, 
                          stableReaders, stableW, nc, hist, panicked, lastRes, 
                          closerDone, writerDone, sched, pcx, s, myCh, newSegs, 
                          gone, nt, wres, rs, done, rquit, n, rv, idx, from, 
                          rres, kres, cs >>

w_call == /\ pc[WriterId] = "w_call"
          /\ IF Record
                THEN /\ sched' = Append(sched, <<WriterId, "call">>)
                ELSE /\ TRUE
                     /\ sched' = sched
          /\ IF closed = 1
                THEN /\ wres' = "closed"
                     /\ pc' = [pc EXCEPT ![WriterId] = "w_done"]
                ELSE /\ pc' = [pc EXCEPT ![WriterId] = "w_checked"]
                     /\ wres' = wres
          /\ UNCHANGED << closed, mu, awaitRot, nextChan, chanClosed, trig, 
                          trigClosed, statePtr, nver, ver, ref, fin, finFiles, 
                          delFiles, ntail, tl, nfile, open, metaOpen, 
                          stableReaders, stableW, nc, hist, panicked, lastRes, 
                          closerDone, writerDone, pcx, s, myCh, newSegs, gone, 
                          nt, rs, done, rquit, n, rv, idx, from, rres, kres, 
                          cs >>

w_checked == /\ pc[WriterId] = "w_checked"
             /\ IF Record
                   THEN /\ sched' = Append(sched, <<WriterId, "w.checked">>)
                   ELSE /\ TRUE
                        /\ sched' = sched
             /\ pc' = [pc EXCEPT ![WriterId] = "w_lock"]
             /\ UNCHANGED << closed, mu, awaitRot, nextChan, chanClosed, trig, 
                             trigClosed, statePtr, nver, ver, ref, fin, 
                             finFiles, delFiles, ntail, tl, nfile, open, 
                             metaOpen, stableReaders, stableW, nc, hist, 
                             panicked, lastRes, closerDone, writerDone, pcx, s, 
                             myCh, newSegs, gone, nt, wres, rs, done, rquit, n, 
                             rv, idx, from, rres, kres, cs >>

w_lock == /\ pc[WriterId] = "w_lock"
          /\ mu = 0
          /\ mu' = WriterId
          /\ pc' = [pc EXCEPT ![WriterId] = "w_await"]
          /\ UNCHANGED << closed, awaitRot, nextChan, chanClosed, trig, 
                          trigClosed, statePtr, nver, ver, ref, fin, finFiles, 
                          delFiles, ntail, tl, nfile, open, metaOpen, 
                          stableReaders, stableW, nc, hist, panicked, lastRes, 
                          closerDone, writerDone, sched, pcx, s, myCh, newSegs, 
                          gone, nt, wres, rs, done, rquit, n, rv, idx, from, 
                          rres, kres, cs >>

w_await == /\ pc[WriterId] = "w_await"
           /\ IF awaitRot # 0
                 THEN /\ myCh' = awaitRot
                      /\ mu' = 0
                      /\ pc' = [pc EXCEPT ![WriterId] = "w_parked"]
                 ELSE /\ pc' = [pc EXCEPT ![WriterId] = "w_acquire"]
                      /\ UNCHANGED << mu, myCh >>
           /\ UNCHANGED << closed, awaitRot, nextChan, chanClosed, trig, 
                           trigClosed, statePtr, nver, ver, ref, fin, finFiles, 
                           delFiles, ntail, tl, nfile, open, metaOpen, 
                           stableReaders, stableW, nc, hist, panicked, lastRes, 
                           closerDone, writerDone, sched, pcx, s, newSegs, 
                           gone, nt, wres, rs, done, rquit, n, rv, idx, from, 
                           rres, kres, cs >>

w_parked == /\ pc[WriterId] = "w_parked"
            /\ IF Record
                  THEN /\ sched' = Append(sched, <<WriterId, "awaitRotation.unlocked">>)
                  ELSE /\ TRUE
                       /\ sched' = sched
            /\ pc' = [pc EXCEPT ![WriterId] = "w_wait"]
            /\ UNCHANGED << closed, mu, awaitRot, nextChan, chanClosed, trig, 
                            trigClosed, statePtr, nver, ver, ref, fin, 
                            finFiles, delFiles, ntail, tl, nfile, open, 
                            metaOpen, stableReaders, stableW, nc, hist, 
                            panicked, lastRes, closerDone, writerDone, pcx, s, 
                            myCh, newSegs, gone, nt, wres, rs, done, rquit, n, 
                            rv, idx, from, rres, kres, cs >>

w_wait == /\ pc[WriterId] = "w_wait"
          /\ myCh \in chanClosed
          /\ pc' = [pc EXCEPT ![WriterId] = "w_woken"]
          /\ UNCHANGED << closed, mu, awaitRot, nextChan, chanClosed, trig, 
                          trigClosed, statePtr, nver, ver, ref, fin, finFiles, 
                          delFiles, ntail, tl, nfile, open, metaOpen, 
                          stableReaders, stableW, nc, hist, panicked, lastRes, 
                          closerDone, writerDone, sched, pcx, s, myCh, newSegs, 
                          gone, nt, wres, rs, done, rquit, n, rv, idx, from, 
                          rres, kres, cs >>

w_woken == /\ pc[WriterId] = "w_woken"
           /\ mu = 0
           /\ mu' = WriterId
           /\ pc' = [pc EXCEPT ![WriterId] = "w_acquire"]
           /\ UNCHANGED << closed, awaitRot, nextChan, chanClosed, trig, 
                           trigClosed, statePtr, nver, ver, ref, fin, finFiles, 
                           delFiles, ntail, tl, nfile, open, metaOpen, 
                           stableReaders, stableW, nc, hist, panicked, lastRes, 
                           closerDone, writerDone, sched, pcx, s, myCh, 
                           newSegs, gone, nt, wres, rs, done, rquit, n, rv, 
                           idx, from, rres, kres, cs >>

w_acquire == /\ pc[WriterId] = "w_acquire"
             /\ s' = statePtr
             /\ ref' = [ref EXCEPT ![s'] = ref[s'] + 1]
             /\ pc' = [pc EXCEPT ![WriterId] = "w_deref"]
             /\ UNCHANGED << closed, mu, awaitRot, nextChan, chanClosed, trig, 
                             trigClosed, statePtr, nver, ver, fin, finFiles, 
                             delFiles, ntail, tl, nfile, open, metaOpen, 
                             stableReaders, stableW, nc, hist, panicked, 
                             lastRes, closerDone, writerDone, sched, pcx, myCh, 
                             newSegs, gone, nt, wres, rs, done, rquit, n, rv, 
                             idx, from, rres, kres, cs >>

w_deref == /\ pc[WriterId] = "w_deref"
           /\ IF s = 0
                 THEN /\ IF FIXED
                            THEN /\ IF ref[s] = 1 /\ fin[s] = 1
                                       THEN /\ fin' = [fin EXCEPT ![s] = 2]
                                            /\ open' = [f \in DOMAIN open |-> IF f \in finFiles[s] THEN FALSE ELSE open[f]]
                                       ELSE /\ TRUE
                                            /\ UNCHANGED << fin, open >>
                                 /\ ref' = [ref EXCEPT ![s] = ref[s] - 1]
                                 /\ mu' = 0
                                 /\ wres' = "closed"
                                 /\ pc' = [pc EXCEPT ![WriterId] = "w_done"]
                                 /\ UNCHANGED panicked
                            ELSE /\ panicked' = (panicked \cup {<<WriterId, "nil tail">>})
                                 /\ IF ref[s] = 1 /\ fin[s] = 1
                                       THEN /\ fin' = [fin EXCEPT ![s] = 2]
                                            /\ open' = [f \in DOMAIN open |-> IF f \in finFiles[s] THEN FALSE ELSE open[f]]
                                       ELSE /\ TRUE
                                            /\ UNCHANGED << fin, open >>
                                 /\ ref' = [ref EXCEPT ![s] = ref[s] - 1]
                                 /\ mu' = 0
                                 /\ wres' = "panic"
                                 /\ pc' = [pc EXCEPT ![WriterId] = "w_done"]
                 ELSE /\ pc' = [pc EXCEPT ![WriterId] = "w_op"]
                      /\ UNCHANGED << mu, ref, fin, open, panicked, wres >>
           /\ UNCHANGED << closed, awaitRot, nextChan, chanClosed, trig, 
                           trigClosed, statePtr, nver, ver, finFiles, delFiles, 
                           ntail, tl, nfile, metaOpen, stableReaders, stableW, 
                           nc, hist, lastRes, closerDone, writerDone, sched, 
                           pcx, s, myCh, newSegs, gone, nt, rs, done, rquit, n, 
                           rv, idx, from, rres, kres, cs >>

w_op == /\ pc[WriterId] = "w_op"
        /\ IF Prog[pcx] = "store"
              THEN /\ IF TailOf(s).sealed
                         THEN /\ wres' = "sealed"
                              /\ pc' = [pc EXCEPT ![WriterId] = "w_release"]
                         ELSE /\ pc' = [pc EXCEPT ![WriterId] = "w_write"]
                              /\ wres' = wres
                   /\ UNCHANGED << newSegs, gone, nt >>
              ELSE /\ IF Prog[pcx] = "delt" /\ Len(Abs.c) > 1
                         THEN /\ IF TailLast(s) > 0
                                    THEN /\ IF Len(TailOf(s).ents) = 1
                                               THEN /\ newSegs' = ver[s].segs
                                                    /\ gone' = {TailOf(s).id}
                                               ELSE /\ newSegs' = Append(ver[s].segs, Seg(TailOf(s).id, TailOf(s).base, TailOf(s).ents, TailOf(s).base, TailLast(s) - 1))
                                                    /\ gone' = {}
                                    ELSE /\ LET ls == ver[s].segs[Len(ver[s].segs)] IN
                                              IF ls.max - 1 < ls.min
                                                 THEN /\ newSegs' = SubSeq(ver[s].segs, 1, Len(ver[s].segs) - 1)
                                                      /\ gone' = {TailOf(s).id, ls.id}
                                                 ELSE /\ newSegs' = [ver[s].segs EXCEPT ![Len(ver[s].segs)].max = @ - 1]
                                                      /\ gone' = {TailOf(s).id}
                              /\ pc' = [pc EXCEPT ![WriterId] = "w_tcommit"]
                              /\ UNCHANGED << nt, wres >>
                         ELSE /\ IF (Prog[pcx] = "delh" \/ Prog[pcx] = "delt") /\ Abs.c # <<>>
                                    THEN /\ IF ver[s].segs # <<>>
                                               THEN /\ IF ver[s].segs[1].min = ver[s].segs[1].max
                                                          THEN /\ newSegs' = Tail(ver[s].segs)
                                                               /\ IF Len(ver[s].segs) = 1 /\ TailLast(s) = 0
                                                                     THEN /\ gone' = {ver[s].segs[1].id, TailOf(s).id}
                                                                          /\ nt' = 0
                                                                     ELSE /\ gone' = {ver[s].segs[1].id}
                                                                          /\ nt' = ver[s].tail
                                                          ELSE /\ newSegs' = [ver[s].segs EXCEPT ![1].min = @ + 1]
                                                               /\ gone' = {}
                                                               /\ nt' = ver[s].tail
                                               ELSE /\ IF Len(TailOf(s).ents) = 1
                                                          THEN /\ newSegs' = <<>>
                                                               /\ gone' = {TailOf(s).id}
                                                               /\ nt' = 0
                                                          ELSE /\ newSegs' = <<>>
                                                               /\ gone' = {}
                                                               /\ nt' = ver[s].tail
                                         /\ pc' = [pc EXCEPT ![WriterId] = "w_hcommit"]
                                         /\ wres' = wres
                                    ELSE /\ wres' = "noop"
                                         /\ pc' = [pc EXCEPT ![WriterId] = "w_release"]
                                         /\ UNCHANGED << newSegs, gone, nt >>
        /\ UNCHANGED << closed, mu, awaitRot, nextChan, chanClosed, trig, 
                        trigClosed, statePtr, nver, ver, ref, fin, finFiles, 
                        delFiles, ntail, tl, nfile, open, metaOpen, 
                        stableReaders, stableW, nc, hist, panicked, lastRes, 
                        closerDone, writerDone, sched, pcx, s, myCh, rs, done, 
                        rquit, n, rv, idx, from, rres, kres, cs >>

w_write == /\ pc[WriterId] = "w_write"
           /\ tl' = [tl EXCEPT ![ver[s].tail].ents = Append(@, nc),
                               ![ver[s].tail].sealed = (Len(TailOf(s).ents) + 1 >= SealAt)]
           /\ nc' = nc + 1
           /\ pc' = [pc EXCEPT ![WriterId] = "w_early"]
           /\ UNCHANGED << closed, mu, awaitRot, nextChan, chanClosed, trig, 
                           trigClosed, statePtr, nver, ver, ref, fin, finFiles, 
                           delFiles, ntail, nfile, open, metaOpen, 
                           stableReaders, stableW, hist, panicked, lastRes, 
                           closerDone, writerDone, sched, pcx, s, myCh, 
                           newSegs, gone, nt, wres, rs, done, rquit, n, rv, 
                           idx, from, rres, kres, cs >>

w_early == /\ pc[WriterId] = "w_early"
           /\ IF EarlyPublish
                 THEN /\ tl' = [tl EXCEPT ![ver[s].tail].commit = Len(TailOf(s).ents)]
                      /\ hist' = Append(hist, IF Abs.c = <<>> THEN [f |-> TailOf(s).base + Len(TailOf(s).ents) - 1, c |-> <<nc - 1>>]
                                              ELSE [f |-> Abs.f, c |-> Append(Abs.c, nc - 1)])
                 ELSE /\ TRUE
                      /\ UNCHANGED << tl, hist >>
           /\ pc' = [pc EXCEPT ![WriterId] = "w_sync"]
           /\ UNCHANGED << closed, mu, awaitRot, nextChan, chanClosed, trig, 
                           trigClosed, statePtr, nver, ver, ref, fin, finFiles, 
                           delFiles, ntail, nfile, open, metaOpen, 
                           stableReaders, stableW, nc, panicked, lastRes, 
                           closerDone, writerDone, sched, pcx, s, myCh, 
                           newSegs, gone, nt, wres, rs, done, rquit, n, rv, 
                           idx, from, rres, kres, cs >>

w_sync == /\ pc[WriterId] = "w_sync"
          /\ IF Record
                THEN /\ sched' = Append(sched, <<WriterId, "sync">>)
                ELSE /\ TRUE
                     /\ sched' = sched
          /\ tl' = [tl EXCEPT ![ver[s].tail].synced = Len(TailOf(s).ents)]
          /\ pc' = [pc EXCEPT ![WriterId] = "w_publish"]
          /\ UNCHANGED << closed, mu, awaitRot, nextChan, chanClosed, trig, 
                          trigClosed, statePtr, nver, ver, ref, fin, finFiles, 
                          delFiles, ntail, nfile, open, metaOpen, 
                          stableReaders, stableW, nc, hist, panicked, lastRes, 
                          closerDone, writerDone, pcx, s, myCh, newSegs, gone, 
                          nt, wres, rs, done, rquit, n, rv, idx, from, rres, 
                          kres, cs >>

w_publish == /\ pc[WriterId] = "w_publish"
             /\ IF ~EarlyPublish
                   THEN /\ tl' = [tl EXCEPT ![ver[s].tail].commit = Len(TailOf(s).ents)]
                        /\ hist' = Append(hist, IF Abs.c = <<>> THEN [f |-> TailOf(s).base + Len(TailOf(s).ents) - 1, c |-> <<nc - 1>>]
                                                ELSE [f |-> Abs.f, c |-> Append(Abs.c, nc - 1)])
                   ELSE /\ TRUE
                        /\ UNCHANGED << tl, hist >>
             /\ wres' = "ok"
             /\ pc' = [pc EXCEPT ![WriterId] = "w_trigger"]
             /\ UNCHANGED << closed, mu, awaitRot, nextChan, chanClosed, trig, 
                             trigClosed, statePtr, nver, ver, ref, fin, 
                             finFiles, delFiles, ntail, nfile, open, metaOpen, 
                             stableReaders, stableW, nc, panicked, lastRes, 
                             closerDone, writerDone, sched, pcx, s, myCh, 
                             newSegs, gone, nt, rs, done, rquit, n, rv, idx, 
                             from, rres, kres, cs >>

w_trigger == /\ pc[WriterId] = "w_trigger"
             /\ IF Record
                   THEN /\ sched' = Append(sched, <<WriterId, "StoreLogs.appended">>)
                   ELSE /\ TRUE
                        /\ sched' = sched
             /\ IF TailOf(s).sealed /\ closed = 0
                   THEN /\ awaitRot' = nextChan
                        /\ nextChan' = nextChan + 1
                        /\ IF trigClosed
                              THEN /\ panicked' = (panicked \cup {<<WriterId, "send on closed channel">>})
                                   /\ trig' = trig
                              ELSE /\ trig' = Append(trig, 1)
                                   /\ UNCHANGED panicked
                   ELSE /\ TRUE
                        /\ UNCHANGED << awaitRot, nextChan, trig, panicked >>
             /\ pc' = [pc EXCEPT ![WriterId] = "w_release"]
             /\ UNCHANGED << closed, mu, chanClosed, trigClosed, statePtr, 
                             nver, ver, ref, fin, finFiles, delFiles, ntail, 
                             tl, nfile, open, metaOpen, stableReaders, stableW, 
                             nc, hist, lastRes, closerDone, writerDone, pcx, s, 
                             myCh, newSegs, gone, nt, wres, rs, done, rquit, n, 
                             rv, idx, from, rres, kres, cs >>

w_tcommit == /\ pc[WriterId] = "w_tcommit"
             /\ IF Record
                   THEN /\ sched' = Append(sched, <<WriterId, "mutate.committed">>)
                   ELSE /\ TRUE
                        /\ sched' = sched
             /\ tl' = [x \in DOMAIN tl \cup {ntail + 1} |-> IF x = ntail + 1
                          THEN [id |-> nfile + 1, base |-> (AbsLast(Abs)), ents |-> <<>>, commit |-> 0, synced |-> 0, sealed |-> FALSE] ELSE tl[x]]
             /\ open' = [f \in DOMAIN open \cup {nfile + 1} |-> IF f = nfile + 1 THEN TRUE ELSE open[f]]
             /\ ntail' = ntail + 1
             /\ nfile' = nfile + 1
             /\ pc' = [pc EXCEPT ![WriterId] = "w_tstore"]
             /\ UNCHANGED << closed, mu, awaitRot, nextChan, chanClosed, trig, 
                             trigClosed, statePtr, nver, ver, ref, fin, 
                             finFiles, delFiles, metaOpen, stableReaders, 
                             stableW, nc, hist, panicked, lastRes, closerDone, 
                             writerDone, pcx, s, myCh, newSegs, gone, nt, wres, 
                             rs, done, rquit, n, rv, idx, from, rres, kres, cs >>

w_tstore == /\ pc[WriterId] = "w_tstore"
            /\ ver' = [x \in DOMAIN ver \cup {nver + 1} |-> IF x = nver + 1 THEN [segs |-> newSegs, tail |-> ntail] ELSE ver[x]]
            /\ ref' = [x \in DOMAIN ref \cup {nver + 1} |-> IF x = nver + 1 THEN 0 ELSE ref[x]]
            /\ fin' = [x \in DOMAIN fin \cup {nver + 1} |-> IF x = nver + 1 THEN 0 ELSE fin[x]]
            /\ finFiles' = [x \in DOMAIN finFiles \cup {nver + 1} |-> IF x = nver + 1 THEN {} ELSE finFiles[x]]
            /\ delFiles' = [x \in DOMAIN delFiles \cup {nver + 1} |-> IF x = nver + 1 THEN {} ELSE delFiles[x]]
            /\ nver' = nver + 1
            /\ statePtr' = nver'
            /\ hist' = Append(hist, IF Len(Abs.c) = 1 THEN [f |-> 0, c |-> <<>>] ELSE [f |-> Abs.f, c |-> SubSeq(Abs.c, 1, Len(Abs.c) - 1)])
            /\ pc' = [pc EXCEPT ![WriterId] = "w_tfin"]
            /\ UNCHANGED << closed, mu, awaitRot, nextChan, chanClosed, trig, 
                            trigClosed, ntail, tl, nfile, open, metaOpen, 
                            stableReaders, stableW, nc, panicked, lastRes, 
                            closerDone, writerDone, sched, pcx, s, myCh, 
                            newSegs, gone, nt, wres, rs, done, rquit, n, rv, 
                            idx, from, rres, kres, cs >>

w_tfin == /\ pc[WriterId] = "w_tfin"
          /\ IF Record
                THEN /\ sched' = Append(sched, <<WriterId, "mutate.stored">>)
                ELSE /\ TRUE
                     /\ sched' = sched
          /\ /\ delFiles' = [delFiles EXCEPT ![s] = gone]
             /\ fin' = [fin EXCEPT ![s] = 1]
             /\ finFiles' = [finFiles EXCEPT ![s] = gone]
          /\ wres' = "ok"
          /\ pc' = [pc EXCEPT ![WriterId] = "w_release"]
          /\ UNCHANGED << closed, mu, awaitRot, nextChan, chanClosed, trig, 
                          trigClosed, statePtr, nver, ver, ref, ntail, tl, 
                          nfile, open, metaOpen, stableReaders, stableW, nc, 
                          hist, panicked, lastRes, closerDone, writerDone, pcx, 
                          s, myCh, newSegs, gone, nt, rs, done, rquit, n, rv, 
                          idx, from, rres, kres, cs >>

w_hcommit == /\ pc[WriterId] = "w_hcommit"
             /\ IF Record
                   THEN /\ sched' = Append(sched, <<WriterId, "mutate.committed">>)
                   ELSE /\ TRUE
                        /\ sched' = sched
             /\ IF nt = 0
                   THEN /\ tl' = [x \in DOMAIN tl \cup {ntail + 1} |-> IF x = ntail + 1
                                     THEN [id |-> nfile + 1, base |-> (AbsLast(Abs) + 1), ents |-> <<>>, commit |-> 0, synced |-> 0, sealed |-> FALSE] ELSE tl[x]]
                        /\ open' = [f \in DOMAIN open \cup {nfile + 1} |-> IF f = nfile + 1 THEN TRUE ELSE open[f]]
                        /\ ntail' = ntail + 1
                        /\ nfile' = nfile + 1
                        /\ nt' = ntail'
                   ELSE /\ TRUE
                        /\ UNCHANGED << ntail, tl, nfile, open, nt >>
             /\ pc' = [pc EXCEPT ![WriterId] = "w_hstore"]
             /\ UNCHANGED << closed, mu, awaitRot, nextChan, chanClosed, trig, 
                             trigClosed, statePtr, nver, ver, ref, fin, 
                             finFiles, delFiles, metaOpen, stableReaders, 
                             stableW, nc, hist, panicked, lastRes, closerDone, 
                             writerDone, pcx, s, myCh, newSegs, gone, wres, rs, 
                             done, rquit, n, rv, idx, from, rres, kres, cs >>

w_hstore == /\ pc[WriterId] = "w_hstore"
            /\ IF gone = {} /\ ver[s].segs = <<>>
                  THEN /\ tl' = [tl EXCEPT ![nt].base = tl[nt].base + 1,
                                           ![nt].ents = Tail(tl[nt].ents),
                                           ![nt].commit = tl[nt].commit - 1,
                                           ![nt].synced = tl[nt].synced - 1]
                  ELSE /\ TRUE
                       /\ tl' = tl
            /\ ver' = [x \in DOMAIN ver \cup {nver + 1} |-> IF x = nver + 1 THEN [segs |-> newSegs, tail |-> nt] ELSE ver[x]]
            /\ ref' = [x \in DOMAIN ref \cup {nver + 1} |-> IF x = nver + 1 THEN 0 ELSE ref[x]]
            /\ fin' = [x \in DOMAIN fin \cup {nver + 1} |-> IF x = nver + 1 THEN 0 ELSE fin[x]]
            /\ finFiles' = [x \in DOMAIN finFiles \cup {nver + 1} |-> IF x = nver + 1 THEN {} ELSE finFiles[x]]
            /\ delFiles' = [x \in DOMAIN delFiles \cup {nver + 1} |-> IF x = nver + 1 THEN {} ELSE delFiles[x]]
            /\ nver' = nver + 1
            /\ statePtr' = nver'
            /\ hist' = Append(hist, IF Len(Abs.c) = 1 THEN [f |-> 0, c |-> <<>>] ELSE [f |-> Abs.f + 1, c |-> Tail(Abs.c)])
            /\ pc' = [pc EXCEPT ![WriterId] = "w_hfin"]
            /\ UNCHANGED << closed, mu, awaitRot, nextChan, chanClosed, trig, 
                            trigClosed, ntail, nfile, open, metaOpen, 
                            stableReaders, stableW, nc, panicked, lastRes, 
                            closerDone, writerDone, sched, pcx, s, myCh, 
                            newSegs, gone, nt, wres, rs, done, rquit, n, rv, 
                            idx, from, rres, kres, cs >>

w_hfin == /\ pc[WriterId] = "w_hfin"
          /\ IF Record
                THEN /\ sched' = Append(sched, <<WriterId, "mutate.stored">>)
                ELSE /\ TRUE
                     /\ sched' = sched
          /\ /\ delFiles' = [delFiles EXCEPT ![s] = gone]
             /\ fin' = [fin EXCEPT ![s] = 1]
             /\ finFiles' = [finFiles EXCEPT ![s] = gone]
          /\ wres' = "ok"
          /\ pc' = [pc EXCEPT ![WriterId] = "w_release"]
          /\ UNCHANGED << closed, mu, awaitRot, nextChan, chanClosed, trig, 
                          trigClosed, statePtr, nver, ver, ref, ntail, tl, 
                          nfile, open, metaOpen, stableReaders, stableW, nc, 
                          hist, panicked, lastRes, closerDone, writerDone, pcx, 
                          s, myCh, newSegs, gone, nt, rs, done, rquit, n, rv, 
                          idx, from, rres, kres, cs >>

w_release == /\ pc[WriterId] = "w_release"
             /\ IF ref[s] = 1 /\ fin[s] = 1
                   THEN /\ fin' = [fin EXCEPT ![s] = 2]
                        /\ open' = [f \in DOMAIN open |-> IF f \in finFiles[s] THEN FALSE ELSE open[f]]
                   ELSE /\ TRUE
                        /\ UNCHANGED << fin, open >>
             /\ ref' = [ref EXCEPT ![s] = ref[s] - 1]
             /\ pc' = [pc EXCEPT ![WriterId] = "w_unlock"]
             /\ UNCHANGED << closed, mu, awaitRot, nextChan, chanClosed, trig, 
                             trigClosed, statePtr, nver, ver, finFiles, 
                             delFiles, ntail, tl, nfile, metaOpen, 
                             stableReaders, stableW, nc, hist, panicked, 
                             lastRes, closerDone, writerDone, sched, pcx, s, 
                             myCh, newSegs, gone, nt, wres, rs, done, rquit, n, 
                             rv, idx, from, rres, kres, cs >>

w_unlock == /\ pc[WriterId] = "w_unlock"
            /\ mu' = 0
            /\ pc' = [pc EXCEPT ![WriterId] = "w_done"]
            /\ UNCHANGED << closed, awaitRot, nextChan, chanClosed, trig, 
                            trigClosed, statePtr, nver, ver, ref, fin, 
                            finFiles, delFiles, ntail, tl, nfile, open, 
                            metaOpen, stableReaders, stableW, nc, hist, 
                            panicked, lastRes, closerDone, writerDone, sched, 
                            pcx, s, myCh, newSegs, gone, nt, wres, rs, done, 
                            rquit, n, rv, idx, from, rres, kres, cs >>

w_done == /\ pc[WriterId] = "w_done"
          /\ lastRes' = [p |-> WriterId, op |-> Prog[pcx], res |-> wres]
          /\ pcx' = pcx + 1
          /\ pc' = [pc EXCEPT ![WriterId] = "w_next"]
          /\ UNCHANGED << closed, mu, awaitRot, nextChan, chanClosed, trig, 
                          trigClosed, statePtr, nver, ver, ref, fin, finFiles, 
                          delFiles, ntail, tl, nfile, open, metaOpen, 
                          stableReaders, stableW, nc, hist, panicked, 
                          closerDone, writerDone, sched, s, myCh, newSegs, 
                          gone, nt, wres, rs, done, rquit, n, rv, idx, from, 
                          rres, kres, cs >>

w_end == /\ pc[WriterId] = "w_end"
         /\ writerDone' = TRUE
         /\ pc' = [pc EXCEPT ![WriterId] = "Done"]
         /\ UNCHANGED << closed, mu, awaitRot, nextChan, chanClosed, trig, 
                         trigClosed, statePtr, nver, ver, ref, fin, finFiles, 
                         delFiles, ntail, tl, nfile, open, metaOpen, 
                         stableReaders, stableW, nc, hist, panicked, lastRes, 
                         closerDone, sched, pcx, s, myCh, newSegs, gone, nt, 
                         wres, rs, done, rquit, n, rv, idx, from, rres, kres, 
                         cs >>

Writer == w_next \/ w_call \/ w_checked \/ w_lock \/ w_await \/ w_parked
             \/ w_wait \/ w_woken \/ w_acquire \/ w_deref \/ w_op
             \/ w_write \/ w_early \/ w_sync \/ w_publish \/ w_trigger
             \/ w_tcommit \/ w_tstore \/ w_tfin \/ w_hcommit \/ w_hstore
             \/ w_hfin \/ w_release \/ w_unlock \/ w_done \/ w_end

t_recv == /\ pc[RotId] = "t_recv"
          /\ IF ~rquit
                THEN /\ trig # <<>> \/ trigClosed \/ (writerDone /\ ~WithCloser)
                     /\ IF trig # <<>>
                           THEN /\ trig' = Tail(trig)
                                /\ pc' = [pc EXCEPT ![RotId] = "t_received"]
                                /\ rquit' = rquit
                           ELSE /\ IF ~trigClosed
                                      THEN /\ rquit' = TRUE
                                           /\ pc' = [pc EXCEPT ![RotId] = "t_end"]
                                      ELSE /\ pc' = [pc EXCEPT ![RotId] = "t_received"]
                                           /\ rquit' = rquit
                                /\ trig' = trig
                ELSE /\ pc' = [pc EXCEPT ![RotId] = "t_end"]
                     /\ UNCHANGED << trig, rquit >>
          /\ UNCHANGED << closed, mu, awaitRot, nextChan, chanClosed, 
                          trigClosed, statePtr, nver, ver, ref, fin, finFiles, 
                          delFiles, ntail, tl, nfile, open, metaOpen, 
                          stableReaders, stableW, nc, hist, panicked, lastRes, 
                          closerDone, writerDone, sched, pcx, s, myCh, newSegs, 
                          gone, nt, wres, rs, done, n, rv, idx, from, rres, 
                          kres, cs >>

t_received == /\ pc[RotId] = "t_received"
              /\ IF Record
                    THEN /\ sched' = Append(sched, <<RotId, "rotate.received">>)
                    ELSE /\ TRUE
                         /\ sched' = sched
              /\ pc' = [pc EXCEPT ![RotId] = "t_lock"]
              /\ UNCHANGED << closed, mu, awaitRot, nextChan, chanClosed, trig, 
                              trigClosed, statePtr, nver, ver, ref, fin, 
                              finFiles, delFiles, ntail, tl, nfile, open, 
                              metaOpen, stableReaders, stableW, nc, hist, 
                              panicked, lastRes, closerDone, writerDone, pcx, 
                              s, myCh, newSegs, gone, nt, wres, rs, done, 
                              rquit, n, rv, idx, from, rres, kres, cs >>

t_lock == /\ pc[RotId] = "t_lock"
          /\ mu = 0
          /\ mu' = RotId
          /\ pc' = [pc EXCEPT ![RotId] = "t_closed"]
          /\ UNCHANGED << closed, awaitRot, nextChan, chanClosed, trig, 
                          trigClosed, statePtr, nver, ver, ref, fin, finFiles, 
                          delFiles, ntail, tl, nfile, open, metaOpen, 
                          stableReaders, stableW, nc, hist, panicked, lastRes, 
                          closerDone, writerDone, sched, pcx, s, myCh, newSegs, 
                          gone, nt, wres, rs, done, rquit, n, rv, idx, from, 
                          rres, kres, cs >>

t_closed == /\ pc[RotId] = "t_closed"
            /\ IF closed = 1
                  THEN /\ mu' = 0
                       /\ pc' = [pc EXCEPT ![RotId] = "t_exit"]
                  ELSE /\ pc' = [pc EXCEPT ![RotId] = "t_acquire"]
                       /\ mu' = mu
            /\ UNCHANGED << closed, awaitRot, nextChan, chanClosed, trig, 
                            trigClosed, statePtr, nver, ver, ref, fin, 
                            finFiles, delFiles, ntail, tl, nfile, open, 
                            metaOpen, stableReaders, stableW, nc, hist, 
                            panicked, lastRes, closerDone, writerDone, sched, 
                            pcx, s, myCh, newSegs, gone, nt, wres, rs, done, 
                            rquit, n, rv, idx, from, rres, kres, cs >>

t_acquire == /\ pc[RotId] = "t_acquire"
             /\ rs' = statePtr
             /\ ref' = [ref EXCEPT ![rs'] = ref[rs'] + 1]
             /\ pc' = [pc EXCEPT ![RotId] = "t_commit"]
             /\ UNCHANGED << closed, mu, awaitRot, nextChan, chanClosed, trig, 
                             trigClosed, statePtr, nver, ver, fin, finFiles, 
                             delFiles, ntail, tl, nfile, open, metaOpen, 
                             stableReaders, stableW, nc, hist, panicked, 
                             lastRes, closerDone, writerDone, sched, pcx, s, 
                             myCh, newSegs, gone, nt, wres, done, rquit, n, rv, 
                             idx, from, rres, kres, cs >>

t_commit == /\ pc[RotId] = "t_commit"
            /\ IF Record
                  THEN /\ sched' = Append(sched, <<RotId, "mutate.committed">>)
                  ELSE /\ TRUE
                       /\ sched' = sched
            /\ tl' = [x \in DOMAIN tl \cup {ntail + 1} |-> IF x = ntail + 1
                         THEN [id |-> nfile + 1, base |-> (TailOf(rs).base + Len(TailOf(rs).ents)), ents |-> <<>>, commit |-> 0, synced |-> 0, sealed |-> FALSE] ELSE tl[x]]
            /\ open' = [f \in DOMAIN open \cup {nfile + 1} |-> IF f = nfile + 1 THEN TRUE ELSE open[f]]
            /\ ntail' = ntail + 1
            /\ nfile' = nfile + 1
            /\ pc' = [pc EXCEPT ![RotId] = "t_store"]
            /\ UNCHANGED << closed, mu, awaitRot, nextChan, chanClosed, trig, 
                            trigClosed, statePtr, nver, ver, ref, fin, 
                            finFiles, delFiles, metaOpen, stableReaders, 
                            stableW, nc, hist, panicked, lastRes, closerDone, 
                            writerDone, pcx, s, myCh, newSegs, gone, nt, wres, 
                            rs, done, rquit, n, rv, idx, from, rres, kres, cs >>

t_store == /\ pc[RotId] = "t_store"
           /\ ver' = [x \in DOMAIN ver \cup {nver + 1} |-> IF x = nver + 1 THEN [segs |-> (Append(ver[rs].segs, Seg(TailOf(rs).id, TailOf(rs).base, TailOf(rs).ents, TailOf(rs).base,
                                                                                                                    TailOf(rs).base + Len(TailOf(rs).ents) - 1))), tail |-> ntail] ELSE ver[x]]
           /\ ref' = [x \in DOMAIN ref \cup {nver + 1} |-> IF x = nver + 1 THEN 0 ELSE ref[x]]
           /\ fin' = [x \in DOMAIN fin \cup {nver + 1} |-> IF x = nver + 1 THEN 0 ELSE fin[x]]
           /\ finFiles' = [x \in DOMAIN finFiles \cup {nver + 1} |-> IF x = nver + 1 THEN {} ELSE finFiles[x]]
           /\ delFiles' = [x \in DOMAIN delFiles \cup {nver + 1} |-> IF x = nver + 1 THEN {} ELSE delFiles[x]]
           /\ nver' = nver + 1
           /\ statePtr' = nver'
           /\ pc' = [pc EXCEPT ![RotId] = "t_fin"]
           /\ UNCHANGED << closed, mu, awaitRot, nextChan, chanClosed, trig, 
                           trigClosed, ntail, tl, nfile, open, metaOpen, 
                           stableReaders, stableW, nc, hist, panicked, lastRes, 
                           closerDone, writerDone, sched, pcx, s, myCh, 
                           newSegs, gone, nt, wres, rs, done, rquit, n, rv, 
                           idx, from, rres, kres, cs >>

t_fin == /\ pc[RotId] = "t_fin"
         /\ IF Record
               THEN /\ sched' = Append(sched, <<RotId, "mutate.stored">>)
               ELSE /\ TRUE
                    /\ sched' = sched
         /\ fin' = [fin EXCEPT ![rs] = 1]
         /\ pc' = [pc EXCEPT ![RotId] = "t_release"]
         /\ UNCHANGED << closed, mu, awaitRot, nextChan, chanClosed, trig, 
                         trigClosed, statePtr, nver, ver, ref, finFiles, 
                         delFiles, ntail, tl, nfile, open, metaOpen, 
                         stableReaders, stableW, nc, hist, panicked, lastRes, 
                         closerDone, writerDone, pcx, s, myCh, newSegs, gone, 
                         nt, wres, rs, done, rquit, n, rv, idx, from, rres, 
                         kres, cs >>

t_release == /\ pc[RotId] = "t_release"
             /\ IF ref[rs] = 1 /\ fin[rs] = 1
                   THEN /\ fin' = [fin EXCEPT ![rs] = 2]
                        /\ open' = [f \in DOMAIN open |-> IF f \in finFiles[rs] THEN FALSE ELSE open[f]]
                   ELSE /\ TRUE
                        /\ UNCHANGED << fin, open >>
             /\ ref' = [ref EXCEPT ![rs] = ref[rs] - 1]
             /\ pc' = [pc EXCEPT ![RotId] = "t_done"]
             /\ UNCHANGED << closed, mu, awaitRot, nextChan, chanClosed, trig, 
                             trigClosed, statePtr, nver, ver, finFiles, 
                             delFiles, ntail, tl, nfile, metaOpen, 
                             stableReaders, stableW, nc, hist, panicked, 
                             lastRes, closerDone, writerDone, sched, pcx, s, 
                             myCh, newSegs, gone, nt, wres, rs, done, rquit, n, 
                             rv, idx, from, rres, kres, cs >>

t_done == /\ pc[RotId] = "t_done"
          /\ done' = awaitRot
          /\ awaitRot' = 0
          /\ mu' = 0
          /\ pc' = [pc EXCEPT ![RotId] = "t_close"]
          /\ UNCHANGED << closed, nextChan, chanClosed, trig, trigClosed, 
                          statePtr, nver, ver, ref, fin, finFiles, delFiles, 
                          ntail, tl, nfile, open, metaOpen, stableReaders, 
                          stableW, nc, hist, panicked, lastRes, closerDone, 
                          writerDone, sched, pcx, s, myCh, newSegs, gone, nt, 
                          wres, rs, rquit, n, rv, idx, from, rres, kres, cs >>

t_close == /\ pc[RotId] = "t_close"
           /\ IF done = 0
                 THEN /\ panicked' = (panicked \cup {<<RotId, "close of nil channel">>})
                      /\ UNCHANGED chanClosed
                 ELSE /\ IF done \in chanClosed
                            THEN /\ panicked' = (panicked \cup {<<RotId, "close of closed channel">>})
                                 /\ UNCHANGED chanClosed
                            ELSE /\ chanClosed' = (chanClosed \cup {done})
                                 /\ UNCHANGED panicked
           /\ pc' = [pc EXCEPT ![RotId] = "t_doneh"]
           /\ UNCHANGED << closed, mu, awaitRot, nextChan, trig, trigClosed, 
                           statePtr, nver, ver, ref, fin, finFiles, delFiles, 
                           ntail, tl, nfile, open, metaOpen, stableReaders, 
                           stableW, nc, hist, lastRes, closerDone, writerDone, 
                           sched, pcx, s, myCh, newSegs, gone, nt, wres, rs, 
                           done, rquit, n, rv, idx, from, rres, kres, cs >>

t_doneh == /\ pc[RotId] = "t_doneh"
           /\ IF Record
                 THEN /\ sched' = Append(sched, <<RotId, "rotate.done">>)
                 ELSE /\ TRUE
                      /\ sched' = sched
           /\ pc' = [pc EXCEPT ![RotId] = "t_recv"]
           /\ UNCHANGED << closed, mu, awaitRot, nextChan, chanClosed, trig, 
                           trigClosed, statePtr, nver, ver, ref, fin, finFiles, 
                           delFiles, ntail, tl, nfile, open, metaOpen, 
                           stableReaders, stableW, nc, hist, panicked, lastRes, 
                           closerDone, writerDone, pcx, s, myCh, newSegs, gone, 
                           nt, wres, rs, done, rquit, n, rv, idx, from, rres, 
                           kres, cs >>

t_exit == /\ pc[RotId] = "t_exit"
          /\ IF Record
                THEN /\ sched' = Append(sched, <<RotId, "rotate.exit">>)
                ELSE /\ TRUE
                     /\ sched' = sched
          /\ pc' = [pc EXCEPT ![RotId] = "t_end"]
          /\ UNCHANGED << closed, mu, awaitRot, nextChan, chanClosed, trig, 
                          trigClosed, statePtr, nver, ver, ref, fin, finFiles, 
                          delFiles, ntail, tl, nfile, open, metaOpen, 
                          stableReaders, stableW, nc, hist, panicked, lastRes, 
                          closerDone, writerDone, pcx, s, myCh, newSegs, gone, 
                          nt, wres, rs, done, rquit, n, rv, idx, from, rres, 
                          kres, cs >>

t_end == /\ pc[RotId] = "t_end"
         /\ TRUE
         /\ pc' = [pc EXCEPT ![RotId] = "Done"]
         /\ UNCHANGED << closed, mu, awaitRot, nextChan, chanClosed, trig, 
                         trigClosed, statePtr, nver, ver, ref, fin, finFiles, 
                         delFiles, ntail, tl, nfile, open, metaOpen, 
                         stableReaders, stableW, nc, hist, panicked, lastRes, 
                         closerDone, writerDone, sched, pcx, s, myCh, newSegs, 
                         gone, nt, wres, rs, done, rquit, n, rv, idx, from, 
                         rres, kres, cs >>

Rot == t_recv \/ t_received \/ t_lock \/ t_closed \/ t_acquire \/ t_commit
          \/ t_store \/ t_fin \/ t_release \/ t_done \/ t_close \/ t_doneh
          \/ t_exit \/ t_end

r_next(self) == /\ pc[self] = "r_next"
                /\ IF n[self] < ReadsEach
                      THEN /\ pc' = [pc EXCEPT ![self] = "r_call"]
                      ELSE /\ pc' = [pc EXCEPT ![self] = "Done"]
                /\ UNCHANGED << closed, mu, awaitRot, nextChan, chanClosed, 
                                trig, trigClosed, statePtr, nver, ver, ref, 
                                fin, finFiles, delFiles, ntail, tl, nfile, 
                                open, metaOpen, stableReaders, stableW, nc, 
                                hist, panicked, lastRes, closerDone, 
                                writerDone, sched, pcx, s, myCh, newSegs, gone, 
                                nt, wres, rs, done, rquit, n, rv, idx, from, 
                                rres, kres, cs >>

r_call(self) == /\ pc[self] = "r_call"
                /\ IF Record
                      THEN /\ sched' = Append(sched, <<self, "call">>)
                      ELSE /\ TRUE
                           /\ sched' = sched
                /\ from' = [from EXCEPT ![self] = Len(hist)]
                /\ IF closed = 1
                      THEN /\ rres' = [rres EXCEPT ![self] = -2]
                           /\ pc' = [pc EXCEPT ![self] = "r_done"]
                      ELSE /\ pc' = [pc EXCEPT ![self] = "r_checked"]
                           /\ rres' = rres
                /\ UNCHANGED << closed, mu, awaitRot, nextChan, chanClosed, 
                                trig, trigClosed, statePtr, nver, ver, ref, 
                                fin, finFiles, delFiles, ntail, tl, nfile, 
                                open, metaOpen, stableReaders, stableW, nc, 
                                hist, panicked, lastRes, closerDone, 
                                writerDone, pcx, s, myCh, newSegs, gone, nt, 
                                wres, rs, done, rquit, n, rv, idx, kres, cs >>

r_checked(self) == /\ pc[self] = "r_checked"
                   /\ IF Record
                         THEN /\ sched' = Append(sched, <<self, "GetLog.checked">>)
                         ELSE /\ TRUE
                              /\ sched' = sched
                   /\ pc' = [pc EXCEPT ![self] = "r_load"]
                   /\ UNCHANGED << closed, mu, awaitRot, nextChan, chanClosed, 
                                   trig, trigClosed, statePtr, nver, ver, ref, 
                                   fin, finFiles, delFiles, ntail, tl, nfile, 
                                   open, metaOpen, stableReaders, stableW, nc, 
                                   hist, panicked, lastRes, closerDone, 
                                   writerDone, pcx, s, myCh, newSegs, gone, nt, 
                                   wres, rs, done, rquit, n, rv, idx, from, 
                                   rres, kres, cs >>

r_load(self) == /\ pc[self] = "r_load"
                /\ rv' = [rv EXCEPT ![self] = statePtr]
                /\ pc' = [pc EXCEPT ![self] = "r_loaded"]
                /\ UNCHANGED << closed, mu, awaitRot, nextChan, chanClosed, 
                                trig, trigClosed, statePtr, nver, ver, ref, 
                                fin, finFiles, delFiles, ntail, tl, nfile, 
                                open, metaOpen, stableReaders, stableW, nc, 
                                hist, panicked, lastRes, closerDone, 
                                writerDone, sched, pcx, s, myCh, newSegs, gone, 
                                nt, wres, rs, done, rquit, n, idx, from, rres, 
                                kres, cs >>

r_loaded(self) == /\ pc[self] = "r_loaded"
                  /\ IF Record
                        THEN /\ sched' = Append(sched, <<self, "acquireState.loaded">>)
                        ELSE /\ TRUE
                             /\ sched' = sched
                  /\ ref' = [ref EXCEPT ![rv[self]] = ref[rv[self]] + 1]
                  /\ pc' = [pc EXCEPT ![self] = "r_recheck"]
                  /\ UNCHANGED << closed, mu, awaitRot, nextChan, chanClosed, 
                                  trig, trigClosed, statePtr, nver, ver, fin, 
                                  finFiles, delFiles, ntail, tl, nfile, open, 
                                  metaOpen, stableReaders, stableW, nc, hist, 
                                  panicked, lastRes, closerDone, writerDone, 
                                  pcx, s, myCh, newSegs, gone, nt, wres, rs, 
                                  done, rquit, n, rv, idx, from, rres, kres, 
                                  cs >>

r_recheck(self) == /\ pc[self] = "r_recheck"
                   /\ IF FIXED /\ statePtr # rv[self]
                         THEN /\ IF ref[rv[self]] = 1 /\ fin[rv[self]] = 1
                                    THEN /\ fin' = [fin EXCEPT ![rv[self]] = 2]
                                         /\ open' = [f \in DOMAIN open |-> IF f \in finFiles[rv[self]] THEN FALSE ELSE open[f]]
                                    ELSE /\ TRUE
                                         /\ UNCHANGED << fin, open >>
                              /\ ref' = [ref EXCEPT ![rv[self]] = ref[rv[self]] - 1]
                              /\ pc' = [pc EXCEPT ![self] = "r_load"]
                         ELSE /\ pc' = [pc EXCEPT ![self] = "r_deref"]
                              /\ UNCHANGED << ref, fin, open >>
                   /\ UNCHANGED << closed, mu, awaitRot, nextChan, chanClosed, 
                                   trig, trigClosed, statePtr, nver, ver, 
                                   finFiles, delFiles, ntail, tl, nfile, 
                                   metaOpen, stableReaders, stableW, nc, hist, 
                                   panicked, lastRes, closerDone, writerDone, 
                                   sched, pcx, s, myCh, newSegs, gone, nt, 
                                   wres, rs, done, rquit, n, rv, idx, from, 
                                   rres, kres, cs >>

r_deref(self) == /\ pc[self] = "r_deref"
                 /\ IF rv[self] = 0
                       THEN /\ IF FIXED
                                  THEN /\ rres' = [rres EXCEPT ![self] = -2]
                                       /\ pc' = [pc EXCEPT ![self] = "r_release"]
                                       /\ UNCHANGED panicked
                                  ELSE /\ panicked' = (panicked \cup {<<self, "nil segments">>})
                                       /\ rres' = [rres EXCEPT ![self] = -3]
                                       /\ pc' = [pc EXCEPT ![self] = "r_release"]
                       ELSE /\ pc' = [pc EXCEPT ![self] = "r_read"]
                            /\ UNCHANGED << panicked, rres >>
                 /\ UNCHANGED << closed, mu, awaitRot, nextChan, chanClosed, 
                                 trig, trigClosed, statePtr, nver, ver, ref, 
                                 fin, finFiles, delFiles, ntail, tl, nfile, 
                                 open, metaOpen, stableReaders, stableW, nc, 
                                 hist, lastRes, closerDone, writerDone, sched, 
                                 pcx, s, myCh, newSegs, gone, nt, wres, rs, 
                                 done, rquit, n, rv, idx, from, kres, cs >>

r_read(self) == /\ pc[self] = "r_read"
                /\ \E i \in 1..(AbsLast(hist[Len(hist)]) + 1):
                     /\ idx' = [idx EXCEPT ![self] = i]
                     /\ rres' = [rres EXCEPT ![self] = IF FIXED /\ VGet(rv[self], i) = -1 /\ closed = 1 THEN -2 ELSE VGet(rv[self], i)]
                /\ pc' = [pc EXCEPT ![self] = "r_release"]
                /\ UNCHANGED << closed, mu, awaitRot, nextChan, chanClosed, 
                                trig, trigClosed, statePtr, nver, ver, ref, 
                                fin, finFiles, delFiles, ntail, tl, nfile, 
                                open, metaOpen, stableReaders, stableW, nc, 
                                hist, panicked, lastRes, closerDone, 
                                writerDone, sched, pcx, s, myCh, newSegs, gone, 
                                nt, wres, rs, done, rquit, n, rv, from, kres, 
                                cs >>

r_release(self) == /\ pc[self] = "r_release"
                   /\ IF ref[rv[self]] = 1 /\ fin[rv[self]] = 1
                         THEN /\ fin' = [fin EXCEPT ![rv[self]] = 2]
                              /\ open' = [f \in DOMAIN open |-> IF f \in finFiles[rv[self]] THEN FALSE ELSE open[f]]
                         ELSE /\ TRUE
                              /\ UNCHANGED << fin, open >>
                   /\ ref' = [ref EXCEPT ![rv[self]] = ref[rv[self]] - 1]
                   /\ pc' = [pc EXCEPT ![self] = "r_done"]
                   /\ UNCHANGED << closed, mu, awaitRot, nextChan, chanClosed, 
                                   trig, trigClosed, statePtr, nver, ver, 
                                   finFiles, delFiles, ntail, tl, nfile, 
                                   metaOpen, stableReaders, stableW, nc, hist, 
                                   panicked, lastRes, closerDone, writerDone, 
                                   sched, pcx, s, myCh, newSegs, gone, nt, 
                                   wres, rs, done, rquit, n, rv, idx, from, 
                                   rres, kres, cs >>

r_done(self) == /\ pc[self] = "r_done"
                /\ lastRes' = [p |-> self, op |-> "get", idx |-> idx[self], res |-> rres[self], from |-> from[self], to |-> Len(hist)]
                /\ n' = [n EXCEPT ![self] = n[self] + 1]
                /\ pc' = [pc EXCEPT ![self] = "r_next"]
                /\ UNCHANGED << closed, mu, awaitRot, nextChan, chanClosed, 
                                trig, trigClosed, statePtr, nver, ver, ref, 
                                fin, finFiles, delFiles, ntail, tl, nfile, 
                                open, metaOpen, stableReaders, stableW, nc, 
                                hist, panicked, closerDone, writerDone, sched, 
                                pcx, s, myCh, newSegs, gone, nt, wres, rs, 
                                done, rquit, rv, idx, from, rres, kres, cs >>

Reader(self) == r_next(self) \/ r_call(self) \/ r_checked(self)
                   \/ r_load(self) \/ r_loaded(self) \/ r_recheck(self)
                   \/ r_deref(self) \/ r_read(self) \/ r_release(self)
                   \/ r_done(self)

k_call == /\ pc[StableId] = "k_call"
          /\ IF ~WithStable
                THEN /\ kres' = "closed"
                     /\ pc' = [pc EXCEPT ![StableId] = "k_end"]
                ELSE /\ pc' = [pc EXCEPT ![StableId] = "k_call2"]
                     /\ kres' = kres
          /\ UNCHANGED << closed, mu, awaitRot, nextChan, chanClosed, trig, 
                          trigClosed, statePtr, nver, ver, ref, fin, finFiles, 
                          delFiles, ntail, tl, nfile, open, metaOpen, 
                          stableReaders, stableW, nc, hist, panicked, lastRes, 
                          closerDone, writerDone, sched, pcx, s, myCh, newSegs, 
                          gone, nt, wres, rs, done, rquit, n, rv, idx, from, 
                          rres, cs >>

k_call2 == /\ pc[StableId] = "k_call2"
           /\ IF Record
                 THEN /\ sched' = Append(sched, <<StableId, "call">>)
                 ELSE /\ TRUE
                      /\ sched' = sched
           /\ IF closed = 1
                 THEN /\ kres' = "closed"
                      /\ pc' = [pc EXCEPT ![StableId] = "k_end"]
                 ELSE /\ pc' = [pc EXCEPT ![StableId] = "k_gate"]
                      /\ kres' = kres
           /\ UNCHANGED << closed, mu, awaitRot, nextChan, chanClosed, trig, 
                           trigClosed, statePtr, nver, ver, ref, fin, finFiles, 
                           delFiles, ntail, tl, nfile, open, metaOpen, 
                           stableReaders, stableW, nc, hist, panicked, lastRes, 
                           closerDone, writerDone, pcx, s, myCh, newSegs, gone, 
                           nt, wres, rs, done, rquit, n, rv, idx, from, rres, 
                           cs >>

k_gate == /\ pc[StableId] = "k_gate"
          /\ IF Record
                THEN /\ sched' = Append(sched, <<StableId, "Set.checked">>)
                ELSE /\ TRUE
                     /\ sched' = sched
          /\ pc' = [pc EXCEPT ![StableId] = "k_rlock"]
          /\ UNCHANGED << closed, mu, awaitRot, nextChan, chanClosed, trig, 
                          trigClosed, statePtr, nver, ver, ref, fin, finFiles, 
                          delFiles, ntail, tl, nfile, open, metaOpen, 
                          stableReaders, stableW, nc, hist, panicked, lastRes, 
                          closerDone, writerDone, pcx, s, myCh, newSegs, gone, 
                          nt, wres, rs, done, rquit, n, rv, idx, from, rres, 
                          kres, cs >>

k_rlock == /\ pc[StableId] = "k_rlock"
           /\ IF FIXED
                 THEN /\ ~stableW
                      /\ stableReaders' = stableReaders + 1
                      /\ pc' = [pc EXCEPT ![StableId] = "k_recheck"]
                 ELSE /\ pc' = [pc EXCEPT ![StableId] = "k_use"]
                      /\ UNCHANGED stableReaders
           /\ UNCHANGED << closed, mu, awaitRot, nextChan, chanClosed, trig, 
                           trigClosed, statePtr, nver, ver, ref, fin, finFiles, 
                           delFiles, ntail, tl, nfile, open, metaOpen, stableW, 
                           nc, hist, panicked, lastRes, closerDone, writerDone, 
                           sched, pcx, s, myCh, newSegs, gone, nt, wres, rs, 
                           done, rquit, n, rv, idx, from, rres, kres, cs >>

k_recheck == /\ pc[StableId] = "k_recheck"
             /\ IF closed = 1
                   THEN /\ stableReaders' = stableReaders - 1
                        /\ kres' = "closed"
                        /\ pc' = [pc EXCEPT ![StableId] = "k_end"]
                   ELSE /\ pc' = [pc EXCEPT ![StableId] = "k_use"]
                        /\ UNCHANGED << stableReaders, kres >>
             /\ UNCHANGED << closed, mu, awaitRot, nextChan, chanClosed, trig, 
                             trigClosed, statePtr, nver, ver, ref, fin, 
                             finFiles, delFiles, ntail, tl, nfile, open, 
                             metaOpen, stableW, nc, hist, panicked, lastRes, 
                             closerDone, writerDone, sched, pcx, s, myCh, 
                             newSegs, gone, nt, wres, rs, done, rquit, n, rv, 
                             idx, from, rres, cs >>

k_use == /\ pc[StableId] = "k_use"
         /\ IF Record
               THEN /\ sched' = Append(sched, <<StableId, "sset">>)
               ELSE /\ TRUE
                    /\ sched' = sched
         /\ IF ~metaOpen
               THEN /\ panicked' = (panicked \cup {<<StableId, "metaDB used after Close">>})
                    /\ kres' = "panic"
               ELSE /\ kres' = "ok"
                    /\ UNCHANGED panicked
         /\ pc' = [pc EXCEPT ![StableId] = "k_runlock"]
         /\ UNCHANGED << closed, mu, awaitRot, nextChan, chanClosed, trig, 
                         trigClosed, statePtr, nver, ver, ref, fin, finFiles, 
                         delFiles, ntail, tl, nfile, open, metaOpen, 
                         stableReaders, stableW, nc, hist, lastRes, closerDone, 
                         writerDone, pcx, s, myCh, newSegs, gone, nt, wres, rs, 
                         done, rquit, n, rv, idx, from, rres, cs >>

k_runlock == /\ pc[StableId] = "k_runlock"
             /\ IF FIXED
                   THEN /\ stableReaders' = stableReaders - 1
                   ELSE /\ TRUE
                        /\ UNCHANGED stableReaders
             /\ pc' = [pc EXCEPT ![StableId] = "k_end"]
             /\ UNCHANGED << closed, mu, awaitRot, nextChan, chanClosed, trig, 
                             trigClosed, statePtr, nver, ver, ref, fin, 
                             finFiles, delFiles, ntail, tl, nfile, open, 
                             metaOpen, stableW, nc, hist, panicked, lastRes, 
                             closerDone, writerDone, sched, pcx, s, myCh, 
                             newSegs, gone, nt, wres, rs, done, rquit, n, rv, 
                             idx, from, rres, kres, cs >>

k_end == /\ pc[StableId] = "k_end"
         /\ lastRes' = [p |-> StableId, op |-> "set", res |-> kres]
         /\ pc' = [pc EXCEPT ![StableId] = "Done"]
         /\ UNCHANGED << closed, mu, awaitRot, nextChan, chanClosed, trig, 
                         trigClosed, statePtr, nver, ver, ref, fin, finFiles, 
                         delFiles, ntail, tl, nfile, open, metaOpen, 
                         stableReaders, stableW, nc, hist, panicked, 
                         closerDone, writerDone, sched, pcx, s, myCh, newSegs, 
                         gone, nt, wres, rs, done, rquit, n, rv, idx, from, 
                         rres, kres, cs >>

Stable == k_call \/ k_call2 \/ k_gate \/ k_rlock \/ k_recheck \/ k_use
             \/ k_runlock \/ k_end

c_flag == /\ pc[CloserId] = "c_flag"
          /\ IF ~WithCloser
                THEN /\ pc' = [pc EXCEPT ![CloserId] = "c_end"]
                ELSE /\ pc' = [pc EXCEPT ![CloserId] = "c_call"]
          /\ UNCHANGED << closed, mu, awaitRot, nextChan, chanClosed, trig, 
                          trigClosed, statePtr, nver, ver, ref, fin, finFiles, 
                          delFiles, ntail, tl, nfile, open, metaOpen, 
                          stableReaders, stableW, nc, hist, panicked, lastRes, 
                          closerDone, writerDone, sched, pcx, s, myCh, newSegs, 
                          gone, nt, wres, rs, done, rquit, n, rv, idx, from, 
                          rres, kres, cs >>

c_call == /\ pc[CloserId] = "c_call"
          /\ IF Record
                THEN /\ sched' = Append(sched, <<CloserId, "call">>)
                ELSE /\ TRUE
                     /\ sched' = sched
          /\ closed' = 1
          /\ pc' = [pc EXCEPT ![CloserId] = "c_flagged"]
          /\ UNCHANGED << mu, awaitRot, nextChan, chanClosed, trig, trigClosed, 
                          statePtr, nver, ver, ref, fin, finFiles, delFiles, 
                          ntail, tl, nfile, open, metaOpen, stableReaders, 
                          stableW, nc, hist, panicked, lastRes, closerDone, 
                          writerDone, pcx, s, myCh, newSegs, gone, nt, wres, 
                          rs, done, rquit, n, rv, idx, from, rres, kres, cs >>

c_flagged == /\ pc[CloserId] = "c_flagged"
             /\ IF Record
                   THEN /\ sched' = Append(sched, <<CloserId, "Close.flagged">>)
                   ELSE /\ TRUE
                        /\ sched' = sched
             /\ pc' = [pc EXCEPT ![CloserId] = "c_lock"]
             /\ UNCHANGED << closed, mu, awaitRot, nextChan, chanClosed, trig, 
                             trigClosed, statePtr, nver, ver, ref, fin, 
                             finFiles, delFiles, ntail, tl, nfile, open, 
                             metaOpen, stableReaders, stableW, nc, hist, 
                             panicked, lastRes, closerDone, writerDone, pcx, s, 
                             myCh, newSegs, gone, nt, wres, rs, done, rquit, n, 
                             rv, idx, from, rres, kres, cs >>

c_lock == /\ pc[CloserId] = "c_lock"
          /\ mu = 0
          /\ mu' = CloserId
          /\ pc' = [pc EXCEPT ![CloserId] = "c_await"]
          /\ UNCHANGED << closed, awaitRot, nextChan, chanClosed, trig, 
                          trigClosed, statePtr, nver, ver, ref, fin, finFiles, 
                          delFiles, ntail, tl, nfile, open, metaOpen, 
                          stableReaders, stableW, nc, hist, panicked, lastRes, 
                          closerDone, writerDone, sched, pcx, s, myCh, newSegs, 
                          gone, nt, wres, rs, done, rquit, n, rv, idx, from, 
                          rres, kres, cs >>

c_await == /\ pc[CloserId] = "c_await"
           /\ IF FIXED /\ awaitRot # 0
                 THEN /\ chanClosed' = (chanClosed \cup {awaitRot})
                 ELSE /\ TRUE
                      /\ UNCHANGED chanClosed
           /\ awaitRot' = 0
           /\ pc' = [pc EXCEPT ![CloserId] = "c_trig"]
           /\ UNCHANGED << closed, mu, nextChan, trig, trigClosed, statePtr, 
                           nver, ver, ref, fin, finFiles, delFiles, ntail, tl, 
                           nfile, open, metaOpen, stableReaders, stableW, nc, 
                           hist, panicked, lastRes, closerDone, writerDone, 
                           sched, pcx, s, myCh, newSegs, gone, nt, wres, rs, 
                           done, rquit, n, rv, idx, from, rres, kres, cs >>

c_trig == /\ pc[CloserId] = "c_trig"
          /\ IF trigClosed
                THEN /\ panicked' = (panicked \cup {<<CloserId, "close of closed channel">>})
                     /\ UNCHANGED trigClosed
                ELSE /\ trigClosed' = TRUE
                     /\ UNCHANGED panicked
          /\ pc' = [pc EXCEPT ![CloserId] = "c_acquire"]
          /\ UNCHANGED << closed, mu, awaitRot, nextChan, chanClosed, trig, 
                          statePtr, nver, ver, ref, fin, finFiles, delFiles, 
                          ntail, tl, nfile, open, metaOpen, stableReaders, 
                          stableW, nc, hist, lastRes, closerDone, writerDone, 
                          sched, pcx, s, myCh, newSegs, gone, nt, wres, rs, 
                          done, rquit, n, rv, idx, from, rres, kres, cs >>

c_acquire == /\ pc[CloserId] = "c_acquire"
             /\ cs' = statePtr
             /\ ref' = [ref EXCEPT ![cs'] = ref[cs'] + 1]
             /\ pc' = [pc EXCEPT ![CloserId] = "c_store"]
             /\ UNCHANGED << closed, mu, awaitRot, nextChan, chanClosed, trig, 
                             trigClosed, statePtr, nver, ver, fin, finFiles, 
                             delFiles, ntail, tl, nfile, open, metaOpen, 
                             stableReaders, stableW, nc, hist, panicked, 
                             lastRes, closerDone, writerDone, sched, pcx, s, 
                             myCh, newSegs, gone, nt, wres, rs, done, rquit, n, 
                             rv, idx, from, rres, kres >>

c_store == /\ pc[CloserId] = "c_store"
           /\ statePtr' = 0
           /\ pc' = [pc EXCEPT ![CloserId] = "c_fin"]
           /\ UNCHANGED << closed, mu, awaitRot, nextChan, chanClosed, trig, 
                           trigClosed, nver, ver, ref, fin, finFiles, delFiles, 
                           ntail, tl, nfile, open, metaOpen, stableReaders, 
                           stableW, nc, hist, panicked, lastRes, closerDone, 
                           writerDone, sched, pcx, s, myCh, newSegs, gone, nt, 
                           wres, rs, done, rquit, n, rv, idx, from, rres, kres, 
                           cs >>

c_fin == /\ pc[CloserId] = "c_fin"
         /\ IF Record
               THEN /\ sched' = Append(sched, <<CloserId, "Close.stored">>)
               ELSE /\ TRUE
                    /\ sched' = sched
         /\ /\ fin' = [fin EXCEPT ![cs] = 1]
            /\ finFiles' = [finFiles EXCEPT ![cs] = FilesOf(cs)]
         /\ pc' = [pc EXCEPT ![CloserId] = "c_meta"]
         /\ UNCHANGED << closed, mu, awaitRot, nextChan, chanClosed, trig, 
                         trigClosed, statePtr, nver, ver, ref, delFiles, ntail, 
                         tl, nfile, open, metaOpen, stableReaders, stableW, nc, 
                         hist, panicked, lastRes, closerDone, writerDone, pcx, 
                         s, myCh, newSegs, gone, nt, wres, rs, done, rquit, n, 
                         rv, idx, from, rres, kres, cs >>

c_meta == /\ pc[CloserId] = "c_meta"
          /\ IF FIXED
                THEN /\ stableReaders = 0
                ELSE /\ TRUE
          /\ metaOpen' = FALSE
          /\ pc' = [pc EXCEPT ![CloserId] = "c_release"]
          /\ UNCHANGED << closed, mu, awaitRot, nextChan, chanClosed, trig, 
                          trigClosed, statePtr, nver, ver, ref, fin, finFiles, 
                          delFiles, ntail, tl, nfile, open, stableReaders, 
                          stableW, nc, hist, panicked, lastRes, closerDone, 
                          writerDone, sched, pcx, s, myCh, newSegs, gone, nt, 
                          wres, rs, done, rquit, n, rv, idx, from, rres, kres, 
                          cs >>

c_release == /\ pc[CloserId] = "c_release"
             /\ IF ref[cs] = 1 /\ fin[cs] = 1
                   THEN /\ fin' = [fin EXCEPT ![cs] = 2]
                        /\ open' = [f \in DOMAIN open |-> IF f \in finFiles[cs] THEN FALSE ELSE open[f]]
                   ELSE /\ TRUE
                        /\ UNCHANGED << fin, open >>
             /\ ref' = [ref EXCEPT ![cs] = ref[cs] - 1]
             /\ pc' = [pc EXCEPT ![CloserId] = "c_unlock"]
             /\ UNCHANGED << closed, mu, awaitRot, nextChan, chanClosed, trig, 
                             trigClosed, statePtr, nver, ver, finFiles, 
                             delFiles, ntail, tl, nfile, metaOpen, 
                             stableReaders, stableW, nc, hist, panicked, 
                             lastRes, closerDone, writerDone, sched, pcx, s, 
                             myCh, newSegs, gone, nt, wres, rs, done, rquit, n, 
                             rv, idx, from, rres, kres, cs >>

c_unlock == /\ pc[CloserId] = "c_unlock"
            /\ mu' = 0
            /\ closerDone' = TRUE
            /\ pc' = [pc EXCEPT ![CloserId] = "c_end"]
            /\ UNCHANGED << closed, awaitRot, nextChan, chanClosed, trig, 
                            trigClosed, statePtr, nver, ver, ref, fin, 
                            finFiles, delFiles, ntail, tl, nfile, open, 
                            metaOpen, stableReaders, stableW, nc, hist, 
                            panicked, lastRes, writerDone, sched, pcx, s, myCh, 
                            newSegs, gone, nt, wres, rs, done, rquit, n, rv, 
                            idx, from, rres, kres, cs >>

c_end == /\ pc[CloserId] = "c_end"
         /\ TRUE
         /\ pc' = [pc EXCEPT ![CloserId] = "Done"]
         /\ UNCHANGED << closed, mu, awaitRot, nextChan, chanClosed, trig, 
                         trigClosed, statePtr, nver, ver, ref, fin, finFiles, 
                         delFiles, ntail, tl, nfile, open, metaOpen, 
                         stableReaders, stableW, nc, hist, panicked, lastRes, 
                         closerDone, writerDone, sched, pcx, s, myCh, newSegs, 
                         gone, nt, wres, rs, done, rquit, n, rv, idx, from, 
                         rres, kres, cs >>

Closer == c_flag \/ c_call \/ c_flagged \/ c_lock \/ c_await \/ c_trig
             \/ c_acquire \/ c_store \/ c_fin \/ c_meta \/ c_release
             \/ c_unlock \/ c_end

(* Allow infinite stuttering to prevent deadlock on termination. *)
Terminating == /\ \A self \in ProcSet: pc[self] = "Done"
               /\ UNCHANGED vars

Next == Writer \/ Rot \/ Stable \/ Closer
           \/ (\E self \in Readers: Reader(self))
           \/ Terminating

Spec == /\ Init /\ [][Next]_vars
        /\ WF_vars(Writer)
        /\ WF_vars(Rot)
        /\ \A self \in Readers : WF_vars(Reader(self))
        /\ WF_vars(Stable)
        /\ WF_vars(Closer)

Termination == <>(\A self \in ProcSet: pc[self] = "Done")

\* END TRANSLATION

----------------------------------------------------------------------------
(* Properties (C06, C14) *)
AllDone == \A p \in ProcSet : pc[p] = "Done"

(* C14: no call hangs.  Every process is a fair PlusCal process, so `Spec` carries weak fairness per   *)
(* goroutine and `Termination` (from the translation) says that every call eventually returns:       *)
(* no parked writer left behind by Close, no livelock in the re-validation loop of acquireState.      *)
(* Checked as PROPERTY Termination without VIEW (lib/checks_conc.py liveness_run); with FIXED = FALSE *)
(* (the pinned Close) TLC reports the writer parked for ever in awaitRotationLocked.                  *)

(* C14: no call racing with Close panics (nil state, nil/closed channel, closed metaDB) *)
NoPanic == panicked = {}

(* C06: every completed read is explained by a log state that was current between its start and *)
(* its return (hist gains a state when a batch becomes durable / a truncation is published).    *)
Justified ==
  (lastRes.p \in Readers) =>
     \/ lastRes.res = -2 /\ WithCloser
     \/ lastRes.res = -3                       \* panicked: reported by NoPanic
     \/ /\ lastRes.res = -1                    \* read error: only for an index truncated during the read
        /\ \E k1, k2 \in lastRes.from..lastRes.to :
              k1 < k2 /\ AbsGet(hist[k1], lastRes.idx) # 0 /\ AbsGet(hist[k2], lastRes.idx) = 0
     \/ /\ lastRes.res >= 0
        /\ \E k \in lastRes.from..lastRes.to : AbsGet(hist[k], lastRes.idx) = lastRes.res

(* C06: an entry is visible to readers only once its batch is durable *)
DurableFirst == \A t \in DOMAIN tl : tl[t].commit <= tl[t].synced

(* C14: a call racing with Close completes normally or returns ErrClosed *)
WriterOK == (lastRes.p = WriterId) => lastRes.res \in ({"ok", "noop", "panic"} \cup (IF WithCloser THEN {"closed"} ELSE {}))
StableOK == (lastRes.p = StableId) => lastRes.res \in {"ok", "closed", "panic"}

(* C14: once everything has returned, Close has released every handle and the rotator has exited *)
Released == (AllDone /\ WithCloser) => (\A f \in DOMAIN open : ~open[f]) /\ ~metaOpen /\ statePtr = 0

(* C13 (with readers): files of removed segments are closed once the readers are done *)
Reclaimed == AllDone => \A v \in DOMAIN fin : fin[v] # 1

(* Eager semantics for schedule generation.  In the implementation a goroutine runs from one   *)
(* verifPoint gate to the next without the harness being able to stop it, so a schedule is an  *)
(* order of gate passages.  GateLabels are the labels whose step starts by passing a gate; a    *)
(* process whose pc is elsewhere is in the middle of a stretch and keeps running while it can. *)
GateLabels == {"w_call", "w_checked", "w_parked", "w_sync", "w_trigger", "w_tcommit", "w_tfin", "w_hcommit", "w_hfin",
               "t_received", "t_exit", "t_commit", "t_fin", "t_doneh", "r_call", "r_checked", "r_loaded",
               "k_call2", "k_gate", "k_use", "c_call", "c_flagged", "c_fin"}
StepOf(p) == IF p = WriterId THEN Writer ELSE IF p = RotId THEN Rot ELSE IF p = StableId THEN Stable
             ELSE IF p = CloserId THEN Closer ELSE Reader(p)
Mid == {p \in ProcSet : pc[p] \notin GateLabels /\ pc[p] # "Done" /\ ENABLED StepOf(p)}
EagerNext == IF Mid # {} THEN \E p \in Mid : StepOf(p) ELSE Next
EagerSpec == Init /\ [][EagerNext]_vars

(* Coverage-directed schedule export.  Run EagerSpec breadth-first with VIEW View (the recorded    *)
(* schedule is not part of the view, so TLC explores each control/data state once and `sched` is   *)
(* the shortest gate order leading to it) and -workers 1; CoverPairs prints the schedule prefix of  *)
(* the first state in which two processes are found together at a pair of labels not seen before:  *)
(* one witness per reachable co-location of two goroutines (e.g. "writer parked in                 *)
(* awaitRotationLocked while Close is about to take the lock").                                    *)
CoverInit == Init /\ TLCSet(7, {})
CoverSpec == CoverInit /\ [][EagerNext]_vars
Interesting(p, q) == CoverProcs = {} \/ p \in CoverProcs \/ q \in CoverProcs
PairKeys == {<<p, pc[p], q, pc[q]>> : p \in ProcSet, q \in ProcSet} 
CoverPairs ==
  LET keys == {k \in PairKeys : k[1] < k[3] /\ Interesting(k[1], k[3]) /\ k[2] # "Done" /\ k[4] # "Done"}
      fresh == keys \ TLCGet(7)
  IN IF fresh = {} THEN TRUE
     ELSE /\ TLCSet(7, TLCGet(7) \cup fresh)
          /\ PrintT(<<"SCHED", ToJson([sched |-> sched, prog |-> Prog, fresh |-> Cardinality(fresh),
                                           who |-> UNION {{k[1], k[3]} : k \in fresh}])>>)

(* schedule export (simulation with Record = TRUE) *)
EmitSched == AllDone => PrintT(<<"SCHED", ToJson([sched |-> sched, prog |-> Prog])>>)

View == <<closed, mu, awaitRot, nextChan, chanClosed, trig, trigClosed, statePtr, nver, ver, ref, fin, finFiles,
          ntail, tl, nfile, open, metaOpen, stableReaders, stableW, nc, hist, panicked, lastRes, closerDone, writerDone,
          pc, pcx, s, myCh, newSegs, gone, nt, wres, rs, done, rquit, n, rv, idx, from, rres, kres, cs>>
=============================================================================
