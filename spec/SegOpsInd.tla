------------------------------ MODULE SegOpsInd ------------------------------
(***************************************************************************)
(* Inductive-invariant check (Apalache) of the metadata transactions of    *)
(* spec/SegOps.tla - the SAME operators the design model (WalImpl) and the *)
(* trace specification (WalImplTrace) use - for UNBOUNDED indexes and ids  *)
(* (symbolic integers; only the length of the segment list is bounded):    *)
(*                                                                         *)
(*   IndInv  ==  the committed segment list is well formed (ordered,       *)
(*               contiguous, all but the last sealed, ids increasing and   *)
(*               below the next id) AND it denotes the contract's log      *)
(*               bounds [first, last]                                      *)
(*                                                                         *)
(*   IndInit => IndInv                 apalache-mc --init=IndInit --inv=IndInv --length=0 *)
(*   IndInv /\ Next => IndInv'         apalache-mc --init=IndInit --inv=IndInv --length=1 *)
(*                                                                         *)
(* Next applies every transaction under exactly the precondition the       *)
(* engine establishes before it (WAL.StoreLogs / DeleteRange / rotation /  *)
(* Open), including the two places where the code is more liberal than the *)
(* contract (base-index reset before the batch is validated; DeleteRange   *)
(* with min = 0 on an empty log).  `first`/`last` are the contract's log   *)
(* bounds (LogOps), 0/0 = empty.                                           *)
(***************************************************************************)
EXTENDS Integers, Sequences, FiniteSets, Apalache, SegOps

CONSTANT
  \* @type: Int;
  MaxSegs          \* bound on the length of the segment list (the only bound)

VARIABLES
  \* @type: Seq({id: Int, base: Int, min: Int, max: Int, sealed: Bool});
  segs,
  \* @type: Int;
  next,
  \* @type: Int;
  first,
  \* @type: Int;
  last

CInit == MaxSegs = 4

Denotes ==       \* the committed list denotes the bounds [first, last]
  IF last = 0 THEN first = 0 /\ Len(segs) = 1 /\ TailOf(segs).min = TailOf(segs).base
  ELSE /\ first = segs[1].min /\ first >= 1 /\ last >= first
       /\ last >= TailOf(segs).base - 1
       /\ (Len(segs) > 1 => last >= segs[Len(segs) - 1].max)
       /\ (Len(segs) = 1 => last >= TailOf(segs).base)

IndInv == /\ Len(segs) <= MaxSegs /\ next >= 0 /\ first >= 0 /\ last >= 0
          /\ WellFormed(segs, next)
          /\ Denotes

IndInit == /\ segs = Gen(4) /\ next = Gen(1) /\ first = Gen(1) /\ last = Gen(1) /\ IndInv

(* the engine's steps *)
Store ==          \* an acknowledged append of n entries at `at` (after the base reset when the log is empty)
  \E n \in {1, 2, 3}, at \in Int :
    /\ at >= 1
    /\ IF last = 0
       THEN \* empty log: any first index; the tail is re-based first when needed
            LET r == IF at = TailOf(segs).base THEN [next |-> next, segs |-> segs] ELSE ResetResult(segs, next, at) IN
            /\ segs' = r.segs /\ next' = r.next /\ first' = at /\ last' = at + n - 1
       ELSE /\ at = last + 1 /\ last' = last + n /\ UNCHANGED <<segs, next, first>>

RefusedStore ==   \* the reset happens before the batch is validated: a refused batch may already have re-based the tail
  \E at \in Int : /\ at >= 1 /\ last = 0 /\ at # TailOf(segs).base
                  /\ LET r == ResetResult(segs, next, at) IN segs' = r.segs /\ next' = r.next
                  /\ UNCHANGED <<first, last>>

Rotate ==         \* the tail holds at least one entry and was sealed by the last append (or is found sealed by Open)
  /\ last >= TailOf(segs).base /\ last > 0 /\ Len(segs) < MaxSegs
  /\ LET r == RotateResult(segs, next, last) IN segs' = r.segs /\ next' = r.next
  /\ UNCHANGED <<first, last>>

DelHead ==        \* DeleteRange(min <= first, max): truncateHeadLocked(max + 1)
  \E mx \in Int :
    /\ mx >= first /\ mx >= 0
    /\ LET r == HeadResult(segs, next, mx + 1, last) IN segs' = r.segs /\ next' = r.next
    /\ IF mx >= last THEN first' = 0 /\ last' = 0 ELSE first' = mx + 1 /\ UNCHANGED last

DelTail ==        \* DeleteRange(min > first, max >= last): truncateTailLocked(min - 1)
  \E mn \in Int :
    /\ last > 0 /\ mn > first /\ mn <= last /\ Len(segs) < MaxSegs
    /\ LET r == TailResult(segs, next, mn - 1) IN segs' = r.segs /\ next' = r.next
    /\ last' = mn - 1 /\ UNCHANGED first

Next == Store \/ RefusedStore \/ Rotate \/ DelHead \/ DelTail

(* the very first Open of an empty directory establishes the invariant *)
FreshInit == /\ segs = InitResult(<<>>, 0).segs /\ next = InitResult(<<>>, 0).next /\ first = 0 /\ last = 0
=============================================================================
