------------------------------- MODULE RegLin -------------------------------
(***************************************************************************)
(* The per-key register property of the StableStore on an invocation /     *)
(* response history (one source of truth for the design model StableConc   *)
(* and the trace judge StableTrace).  A call record:                       *)
(*   [c, n, op ("set" | "get"), k, v, inv, res]   res = 0: still pending   *)
(* A completed Get g may return the value of a Set s on the same key iff s *)
(* was invoked before g returned and no other Set on that key lies         *)
(* strictly between s and g (invoked after s returned, returned before g   *)
(* was invoked); it may return 0 (never set) iff no Set on that key        *)
(* returned before g was invoked.  (Necessary for linearizability, and     *)
(* sufficient to refuse every stale read.)                                 *)
(***************************************************************************)
EXTENDS Integers, FiniteSets

SetsOn(H, k) == {s \in H : s.op = "set" /\ s.k = k}
Hidden(H, s, g) == \E t \in SetsOn(H, g.k) : t.res # 0 /\ t.inv > s.res /\ s.res # 0 /\ t.res < g.inv
Allowed(H, g) ==
  {s.v : s \in {s \in SetsOn(H, g.k) : s.inv < g.res /\ ~Hidden(H, s, g)}}
  \cup (IF \E t \in SetsOn(H, g.k) : t.res # 0 /\ t.res < g.inv THEN {} ELSE {0})
=============================================================================
