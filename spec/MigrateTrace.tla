----------------------------- MODULE MigrateTrace -----------------------------
(***************************************************************************)
(* The judge of property C19 (DESIGN.md 2.10, 5 "C19").                    *)
(*                                                                         *)
(* Consumes the trace recorded by harness/cmd/migratereplay: one line per  *)
(* REAL call of migrate.CopyLogs / migrate.CopyStable between real stores  *)
(* (scenario chosen by TLC from Migrate.tla).  A line carries what the     *)
(* call returned, whether the progress channel was found closed, whether   *)
(* and when the context was cancelled, and digests of every field of every *)
(* entry (every stable key) of the source and of the destination as the    *)
(* stores return them afterwards.  The harness compares nothing: equality  *)
(* of source and destination is decided here, clause by clause.            *)
(*                                                                         *)
(* The clauses are the sentences of the property:                          *)
(*   normal return  : destination = source (FirstIndex, LastIndex, every   *)
(*                    field of every entry, nothing else in it);           *)
(*                    every stable key holds the source's value;           *)
(*   cancellation   : the result is the context's error or, when the       *)
(*                    cancellation came after the last source read had     *)
(*                    started, possibly nil; with the context's error the  *)
(*                    destination is a prefix of the source (every stable  *)
(*                    key absent or equal);                                *)
(*   never          : another error, a panic, a hang on healthy stores;    *)
(*   always         : the progress channel is closed on return.            *)
(* A violation is recorded with the scenario id instead of stopping TLC,   *)
(* so that one pass judges every scenario; they are printed at the end.    *)
(***************************************************************************)
EXTENDS Integers, Sequences, FiniteSets, TLC, Json

CONSTANTS TraceFile
Trace == ndJsonDeserialize(TraceFile)

VARIABLES l,      \* next line
          viol,   \* recorded violations [sid, clause]
          nobs    \* observations judged (entries and keys compared)

vars == <<l, viol, nobs>>

Range(q) == {q[j] : j \in 1..Len(q)}

(* every field of an entry (Index is the lookup key and is checked by the harness' GetLog wrapper: *)
(* an entry returned under another Index has st = "err")                                           *)
SameEntry(a, b) == /\ a.i = b.i /\ a.t = b.t /\ a.ty = b.ty
                   /\ a.dl = b.dl /\ a.dh = b.dh /\ a.xl = b.xl /\ a.xh = b.xh /\ a.ts = b.ts

Ok(q) == {x \in Range(q) : x.st = "ok"}
\* the recorded digests are in index order: try the position first, scan only if that is not the entry
At(q, i) == IF q # <<>> /\ i >= q[1].i /\ i - q[1].i + 1 <= Len(q) /\ q[i - q[1].i + 1].i = i
            THEN {q[i - q[1].i + 1]}
            ELSE {x \in Range(q) : x.i = i}

(* destination holds exactly the source entries with index <= upto, and nothing else *)
HoldsPrefix(e, upto) ==
  /\ \A s \in Range(e.src) : s.i <= upto => \E d \in At(e.dst, s.i) : d.st = "ok" /\ SameEntry(s, d)
  /\ \A d \in Ok(e.dst) : d.i <= upto /\ \E s \in Range(e.src) : s.i = d.i

Absent(kv) == kv.st = "nf" \/ (kv.kind = "int" /\ kv.st = "ok" /\ kv.v = "0")
                           \/ (kv.kind = "bytes" /\ kv.st = "ok" /\ kv.v = "")
KeyOf(q, k) == {x \in Range(q) : x.k = k}
\* the same key NAME may exist as an int key and as a byte key (stores with separate key spaces): a record is
\* identified by name and kind
SameKey(kv, s) == {d \in KeyOf(kv, s.k) : d.kind = s.kind}

(* ---- clauses common to both operations ---- *)
Common(e) ==
     (IF e.err \notin {"nil", "canceled"} THEN {"UnexpectedError"} ELSE {})
\cup (IF e.err = "canceled" /\ ~e.fired THEN {"SpuriousCancel"} ELSE {})
\cup (IF e.err = "nil" /\ e.fired /\ e.remain > 0 THEN {"CancelIgnored"} ELSE {})
\cup (IF ~e.closed THEN {"ProgressNotClosed"} ELSE {})

(* ---- CopyLogs ---- *)
LogClauses(e) ==
     (IF \E d \in Range(e.dst) : d.st = "err" THEN {"DestReadError"} ELSE {})
\cup (IF e.err = "nil"
      THEN (IF e.dfirst # e.sfirst THEN {"FirstIndex"} ELSE {})
      \cup (IF e.dlast # e.slast THEN {"LastIndex"} ELSE {})
      \cup (IF \E s \in Range(e.src) : ~\E d \in At(e.dst, s.i) : d.st = "ok" THEN {"EntryMissing"} ELSE {})
      \cup (IF \E s \in Range(e.src) : \E d \in At(e.dst, s.i) : d.st = "ok" /\ ~SameEntry(s, d)
            THEN {"EntryDiffers"} ELSE {})
      \cup (IF \E d \in Ok(e.dst) : ~\E s \in Range(e.src) : s.i = d.i THEN {"EntryExtra"} ELSE {})
      ELSE {})
\cup (IF e.err = "canceled"
      THEN (IF e.dlast = 0
            THEN (IF e.dfirst = 0 /\ Ok(e.dst) = {} THEN {} ELSE {"CancelNotPrefix"})
            ELSE IF e.dfirst = e.sfirst /\ e.dlast <= e.slast /\ e.sfirst > 0 /\ HoldsPrefix(e, e.dlast)
                 THEN {} ELSE {"CancelNotPrefix"})
      ELSE {})

(* ---- CopyStable ---- *)
StableClauses(e) ==
     (IF \E d \in Range(e.dkv) : d.st = "err" THEN {"DestReadError"} ELSE {})
\cup (IF e.err = "nil"
      THEN (IF \E s \in Range(e.skv) : ~\E d \in SameKey(e.dkv, s) : d.st = "ok" THEN {"StableMissing"} ELSE {})
      \cup (IF \E s \in Range(e.skv) : \E d \in SameKey(e.dkv, s) : d.st = "ok" /\ d.v # s.v
            THEN {"StableDiffers"} ELSE {})
      ELSE {})
\cup (IF e.err = "canceled"
      THEN (IF \E s \in Range(e.skv) : \E d \in SameKey(e.dkv, s) : ~Absent(d) /\ (d.st # "ok" \/ d.v # s.v)
            THEN {"StableDiffers"} ELSE {})
      ELSE {})

Clauses(e) == IF e.setup # "" THEN {"SetupFailed"}      \* not a verdict: the check turns it into exit 2
              ELSE Common(e) \cup (IF e.ev = "logs" THEN LogClauses(e) ELSE StableClauses(e))

----------------------------------------------------------------------------
Init == l = 1 /\ viol = {} /\ nobs = 0

Step == /\ l <= Len(Trace)
        /\ LET e == Trace[l] IN
           /\ viol' = viol \cup {[sid |-> e.sid, clause |-> c] : c \in Clauses(e)}
           /\ nobs' = nobs + Len(e.src) + Len(e.dst) + Len(e.skv) + Len(e.dkv) + 3   \* + result, progress, cancel
        /\ l' = l + 1

Finish == /\ l = Len(Trace) + 1
          /\ PrintT(<<"VIOL", ToJson([v |-> viol, nobs |-> nobs, lines |-> Len(Trace)])>>)
          /\ l' = l + 1
          /\ UNCHANGED <<viol, nobs>>

Next == Step \/ Finish
Spec == Init /\ [][Next]_vars

TypeOK == l \in 1..(Len(Trace) + 2) /\ nobs >= 0

(* every line consumed exactly once: the judge is deterministic *)
Accepted == TLCGet("stats").diameter = Len(Trace) + 2
=============================================================================
