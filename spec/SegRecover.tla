----------------------------- MODULE SegRecover -----------------------------
(***************************************************************************)
(* Word-level model of the tail segment: the writer's append path, power   *)
(* loss with torn writes, and recoverTail (segment/writer.go), transcribed *)
(* branch by branch.  One file of N 8-byte words, preallocated to zeros.   *)
(*                                                                         *)
(*   word 1           file header                                          *)
(*   E(k) P..P        entry frame: header word + k payload words           *)
(*   C(crc)           commit frame; the CRC is modelled as the tuple of    *)
(*                    the words it covers (an ideal, collision-free hash)  *)
(*                                                                         *)
(* A batch is ONE WriteAt of [header] entries commit at the write offset,  *)
(* followed by Sync.  A crash persists any subset of the dirty words.      *)
(* Recovery scans frames until zeros / an invalid header, keeps the last   *)
(* two commit frames, trusts the final commit without CRC validation if    *)
(* entry frames follow it, otherwise validates the CRC of the final batch  *)
(* and rewinds to the previous commit on mismatch.                         *)
(*                                                                         *)
(* Erase = TRUE is the repaired design (fix F3/F4): before the file is     *)
(* reused recovery durably zeroes everything at or beyond the recovered    *)
(* write offset (two crashable steps: write zeros, fsync).  Erase = FALSE  *)
(* is the pinned behaviour, for which TLC finds the two-crash              *)
(* counterexamples (stale frames make recovery skip the CRC check; remains *)
(* of two same-shaped torn batches form a valid batch).                    *)
(* Payload words may look like frame headers (Looks): "for all contents".  *)
(*                                                                         *)
(* Sealing (WithSeal): a batch may end with an index frame                 *)
(*   I(n) X..X      index frame: header word + ceil(n/2) words of offsets   *)
(* before its commit frame - the sealing append, or ForceSeal (a batch of  *)
(* no entries: index + commit).  The writer remembers where the index      *)
(* array starts (idxStart, what the metadata will call IndexStart).        *)
(* Recovery skips index frames and adopts the index position only from the *)
(* commit frame it accepts (fix F2).  SealFromScan = TRUE is the pinned    *)
(* behaviour: the position of the last index frame header seen anywhere,   *)
(* for which TLC finds the torn forced seal (index header persisted, its   *)
(* commit not): the recovered writer claims to be sealed and IndexStart    *)
(* addresses words that are not an index.                                  *)
(***************************************************************************)
EXTENDS Integers, Sequences, FiniteSets, TLC

CONSTANTS N,          \* words in the file
          MaxIdx,     \* entries ever appended (per generation of content ids: fresh id per submission)
          Sizes,      \* payload sizes in words
          MaxBatch,   \* entries per StoreLogs
          MaxCrashes,
          Erase,      \* repaired design
          Looks,      \* what payload words look like to a scanner: subset of {"junk", "ehdr", "chdr", "ihdr"}
          WithSeal,   \* batches may seal the segment
          SealFromScan \* pinned recoverTail (F2): indexStart from any index frame header seen

VARIABLES cache,     \* page cache: Seq of words, length N
          disk,      \* durable content
          dirty,     \* positions written since the last fsync
          wOff,      \* writer: next write position
          offs,      \* writer: positions of the entry frames (in-memory index)
          commitIdx, \* readers may read entries 1..commitIdx
          sub,       \* ghost: index -> [c |-> content id, k |-> size] most recently submitted
          acked,     \* ghost: indexes whose StoreLogs returned nil
          inflight,  \* ghost: indexes of the batch being written
          idxStart,  \* writer: position of the first word of the index array (0 = not sealed)
          sealAck,   \* ghost: a sealing batch was acknowledged
          nc, crashes, pc

vars == <<cache, disk, dirty, wOff, offs, commitIdx, sub, acked, inflight, idxStart, sealAck, nc, crashes, pc>>

Z == [t |-> "Z"]
Hd == [t |-> "H"]
EHdr(k) == [t |-> "E", len |-> k]
Pay(c, j, lk) == [t |-> "P", c |-> c, j |-> j, look |-> lk]
Cmt(crc) == [t |-> "C", crc |-> crc]
IHdr(n) == [t |-> "I", len |-> n]
IxW(o) == [t |-> "IX", offs |-> o]
IxLen(n) == (n + 1) \div 2
IndexWords(os) == <<IHdr(Len(os))>> \o [j \in 1..IxLen(Len(os)) |->
                     IxW(SubSeq(os, 2 * j - 1, IF 2 * j <= Len(os) THEN 2 * j ELSE Len(os)))]

EntryWords(c, k, lk) == <<EHdr(k)>> \o [j \in 1..k |-> Pay(c, j, lk)]

RECURSIVE Flat(_)
Flat(ss) == IF ss = <<>> THEN <<>> ELSE Head(ss) \o Flat(Tail(ss))

RECURSIVE SeqsOver(_, _)
SeqsOver(S, n) == IF n = 0 THEN {<<>>} ELSE {Append(q, x) : q \in SeqsOver(S, n - 1), x \in S}

Init == /\ cache = [i \in 1..N |-> Z] /\ disk = [i \in 1..N |-> Z] /\ dirty = {}
        /\ wOff = 1 /\ offs = <<>> /\ commitIdx = 0 /\ sub = <<>> /\ acked = {} /\ inflight = {}
        /\ idxStart = 0 /\ sealAck = FALSE
        /\ nc = 1 /\ crashes = 0 /\ pc = "idle"

(* how a scanner reads a word as a frame header *)
AsHeader(w) ==
  IF w.t = "P" THEN (IF w.look = "ehdr" THEN EHdr(1) ELSE IF w.look = "chdr" THEN Cmt(<<"fake", w.c, w.j>>)
                     ELSE IF w.look = "ihdr" THEN IHdr(1) ELSE [t |-> "X"])
  ELSE IF w.t = "H" THEN [t |-> "X"]     \* the magic number is not a valid frame type
  ELSE IF w.t = "IX" THEN [t |-> "X"]    \* offsets are multiples of 8: the type byte of such a word is not a frame type
  ELSE w

----------------------------------------------------------------------------
(* Writer *)
Write(szs, lks, seal) ==
  /\ pc = "idle" /\ idxStart = 0
  /\ LET n == Len(szs)
         first == commitIdx + 1
         ents == [j \in 1..n |-> EntryWords(nc + j - 1, szs[j], lks[j])]
         body == Flat(ents)
         pre == IF wOff = 1 THEN <<Hd>> ELSE <<>>
         pos(j) == wOff + Len(pre) + Len(Flat(SubSeq(ents, 1, j - 1)))
         noffs == offs \o [j \in 1..n |-> pos(j)]
         idx == IF seal THEN IndexWords(noffs) ELSE <<>>
         words == pre \o body \o idx \o <<Cmt(pre \o body \o idx)>>
     IN /\ (n > 0 \/ (seal /\ offs # <<>>))          \* ForceSeal: no entries, index + commit
        /\ first + n - 1 <= MaxIdx
        /\ wOff + Len(words) - 1 <= N
        /\ idxStart' = IF seal THEN wOff + Len(pre) + Len(body) + 1 ELSE 0
        /\ cache' = [i \in 1..N |-> IF i >= wOff /\ i < wOff + Len(words) THEN words[i - wOff + 1] ELSE cache[i]]
        /\ dirty' = dirty \cup (wOff..(wOff + Len(words) - 1))
        /\ offs' = noffs
        /\ sub' = [i \in 1..(IF Len(sub) > first + n - 1 THEN Len(sub) ELSE first + n - 1) |->
                      IF i >= first /\ i <= first + n - 1
                      THEN [c |-> nc + (i - first), k |-> szs[i - first + 1], look |-> lks[i - first + 1]] ELSE sub[i]]
        /\ inflight' = first..(first + n - 1)
        /\ nc' = nc + n
        /\ wOff' = wOff + Len(words)
        /\ pc' = "written"
        /\ UNCHANGED <<disk, commitIdx, acked, sealAck, crashes>>

Sync ==
  /\ pc = "written"
  /\ disk' = cache /\ dirty' = {}
  /\ commitIdx' = Len(offs)
  /\ acked' = acked \cup inflight /\ inflight' = {}
  /\ sealAck' = (sealAck \/ idxStart # 0)
  /\ pc' = "idle"
  /\ UNCHANGED <<cache, wOff, offs, sub, idxStart, nc, crashes>>

----------------------------------------------------------------------------
(* Power loss: any subset of the un-fsynced words reaches the disk *)
Crash ==
  /\ pc \in {"idle", "written", "zeroing"}
  /\ crashes < MaxCrashes
  /\ \E keep \in SUBSET dirty :
        disk' = [i \in 1..N |-> IF i \in keep THEN cache[i] ELSE disk[i]]
  /\ dirty' = {} /\ pc' = "down" /\ crashes' = crashes + 1
  /\ UNCHANGED <<cache, wOff, offs, commitIdx, sub, acked, inflight, idxStart, sealAck, nc>>

----------------------------------------------------------------------------
(* recoverTail *)
RECURSIVE Scan(_, _, _, _, _, _, _)
\* readThroughSegment + the callback of recoverTail: os = entry positions, final/prev = last two commits,
\* pend = index array position seen since the last commit, anyIdx = last index frame seen at all (pinned code)
Scan(d, pos, os, final, prev, pend, anyIdx) ==
  IF pos > N THEN [offs |-> os, final |-> final, prev |-> prev, anyIdx |-> anyIdx]
  ELSE LET w == AsHeader(d[pos]) IN
    IF w.t = "E" THEN Scan(d, pos + 1 + w.len, Append(os, pos), final, prev, pend, anyIdx)
    ELSE IF w.t = "I" THEN Scan(d, pos + 1 + IxLen(w.len), os, final, prev, pos + 1, pos + 1)
    ELSE IF w.t = "C" THEN
         Scan(d, pos + 1, os,
              <<[pos |-> pos, crcStart |-> IF final = <<>> THEN 1 ELSE final[1].pos + 1, n |-> Len(os), idx |-> pend]>>,
              final, 0, anyIdx)
    ELSE [offs |-> os, final |-> final, prev |-> prev, anyIdx |-> anyIdx]      \* zeros or an invalid header: stop

Covered(d, a, b) == [i \in 1..(b - a + 1) |-> d[a + i - 1]]

(* decision of recoverTail: [w |-> write offset, offs |-> index, idx |-> indexStart, err |-> header validation failed] *)
Decide(d) ==
  LET r == Scan(d, 2, <<>>, <<>>, <<>>, 0, 0)
      Idx(c) == IF SealFromScan THEN r.anyIdx ELSE c.idx
  IN
  IF r.final = <<>> THEN [w |-> 1, offs |-> <<>>, idx |-> IF SealFromScan THEN r.anyIdx ELSE 0, err |-> FALSE]
  ELSE LET f == r.final[1] IN
    IF f.n < Len(r.offs)
    THEN [w |-> f.pos + 1, offs |-> SubSeq(r.offs, 1, f.n), idx |-> Idx(f), err |-> d[1] # Hd]          \* trusted without CRC validation
    ELSE IF d[f.pos].t = "C" /\ Covered(d, f.crcStart, f.pos - 1) = d[f.pos].crc
    THEN [w |-> f.pos + 1, offs |-> r.offs, idx |-> Idx(f), err |-> d[1] # Hd]
    ELSE IF r.prev = <<>> THEN [w |-> 1, offs |-> <<>>, idx |-> IF SealFromScan THEN r.anyIdx ELSE 0, err |-> FALSE]
    ELSE [w |-> r.prev[1].pos + 1, offs |-> SubSeq(r.offs, 1, r.prev[1].n), idx |-> Idx(r.prev[1]), err |-> d[1] # Hd]  \* rewind, unvalidated

Recover ==
  /\ pc = "down"
  /\ LET r == Decide(disk)
         junk == {i \in r.w..N : disk[i] # Z}
     IN /\ wOff' = r.w /\ offs' = r.offs /\ commitIdx' = Len(r.offs)
        /\ idxStart' = r.idx
        /\ inflight' = inflight        \* ghost: the batch the crash interrupted (for C02_BatchAtomic)
        /\ IF r.err THEN pc' = "openfailed" /\ UNCHANGED <<cache, dirty>>
           ELSE IF Erase /\ junk # {}
           THEN /\ cache' = [i \in 1..N |-> IF i \in junk THEN Z ELSE disk[i]]
                /\ dirty' = junk /\ pc' = "zeroing"
           ELSE /\ cache' = disk /\ dirty' = {} /\ pc' = "idle"
  /\ UNCHANGED <<disk, sub, acked, sealAck, nc, crashes>>

ZeroSync ==
  /\ pc = "zeroing"
  /\ disk' = cache /\ dirty' = {} /\ pc' = "idle"
  /\ UNCHANGED <<cache, wOff, offs, commitIdx, sub, acked, inflight, idxStart, sealAck, nc, crashes>>

Next ==
  \/ \E n \in 1..MaxBatch : \E szs \in SeqsOver(Sizes, n), lks \in SeqsOver(Looks, n) : Write(szs, lks, FALSE)
  \/ WithSeal /\ \E n \in 0..MaxBatch : \E szs \in SeqsOver(Sizes, n), lks \in SeqsOver(Looks, n) : Write(szs, lks, TRUE)
  \/ Sync \/ Crash \/ Recover \/ ZeroSync

Spec == Init /\ [][Next]_vars

----------------------------------------------------------------------------
(* Properties (state forms of C01, C02, C03 for the tail segment) *)
Up == pc \in {"idle", "written"}

(* C03: recovery never fails *)
C03_OpenSucceeds == pc # "openfailed"

(* C01: every acknowledged entry is readable after any crash/recovery *)
C01_AckedPresent == Up => \A i \in acked : i <= commitIdx

(* C02: every readable entry is whole and is the content most recently submitted for its index *)
Whole(d, i) ==
  LET p == offs[i] IN
  /\ d[p] = EHdr(sub[i].k)
  /\ \A j \in 1..sub[i].k : p + j <= N /\ d[p + j] = Pay(sub[i].c, j, sub[i].look)
C02_LatestContent == Up => \A i \in 1..commitIdx : i \in DOMAIN sub /\ Whole(cache, i)

(* C02: a batch whose StoreLogs had not returned is recovered in full or not at all *)
SetMin(S) == CHOOSE x \in S : \A y \in S : x <= y
SetMax(S) == CHOOSE x \in S : \A y \in S : y <= x
C02_BatchAtomic == (pc \in {"idle", "zeroing"} /\ inflight # {}) =>
                      (commitIdx < SetMin(inflight) \/ commitIdx >= SetMax(inflight))

(* C01 for sealed segments: a writer that says "sealed" has a whole index frame at idxStart that addresses  *)
(* exactly the readable entries, directly followed by its commit frame (this is what the metadata will    *)
(* record as IndexStart and what every later read of the sealed segment goes through)                      *)
C01_SealValid == (Up /\ idxStart # 0) =>
    LET iw == IndexWords(offs) IN
    /\ idxStart - 1 + Len(iw) = wOff - 1
    /\ \A j \in 1..Len(iw) : cache[idxStart - 2 + j] = iw[j]
(* an acknowledged seal survives *)
C01_SealDurable == (Up /\ sealAck) => idxStart # 0

(* the durable image itself is consistent once recovery has finished *)
C02_Durable == (pc = "idle" /\ dirty = {}) => \A i \in 1..commitIdx : Whole(disk, i)
=============================================================================
