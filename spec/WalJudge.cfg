SPECIFICATION Spec
CONSTANTS
  TraceFile = "obs.ndjson"
INVARIANT TypeOK
POSTCONDITION Accepted
CHECK_DEADLOCK FALSE
