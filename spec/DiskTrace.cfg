SPECIFICATION Spec
CONSTANTS
  TraceFile = "io.ndjson"
  MaxExh = 10
  NRandom = 64
INVARIANT Emit
POSTCONDITION Consumed
CHECK_DEADLOCK FALSE
