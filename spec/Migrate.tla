------------------------------- MODULE Migrate -------------------------------
(***************************************************************************)
(* migrate.CopyLogs / migrate.CopyStable of /repo/migrate/migrate.go,      *)
(* transcribed statement by statement (DESIGN.md 2.8, property C19).       *)
(*                                                                         *)
(* One label per statement that matters: FirstIndex, LastIndex, the loop   *)
(* head with its ctx check, GetLog, the size accounting len(Data)+32, the  *)
(* flush test batchSize >= batchBytes, StoreLogs, the remainder flush, the *)
(* deferred close(progress), every progress send.  A second process, the   *)
(* canceller, may cancel the context while the main process stands at ANY  *)
(* label (at most once).                                                   *)
(*                                                                         *)
(* Roles:                                                                  *)
(*  1. design check: the invariants below (C19 at design level) hold for   *)
(*     every source shape x batchBytes x cancellation point.  With         *)
(*     BUG_EmptySourceLoop = TRUE the model does what the pinned code does *)
(*     on an empty source (first = last = 0, total = 1, the loop body runs *)
(*     once and calls GetLog(0)) and TLC reports the counterexample (F12); *)
(*     FALSE is the repaired design.                                       *)
(*  2. scenario generator: every terminal state (exhaustive BFS, the state *)
(*     space is small) is printed as one scenario: source shape,           *)
(*     batchBytes, store pairing, kind of progress channel, the point at   *)
(*     which the context is cancelled expressed as a call the harness can  *)
(*     intercept on the real stores (k-th GetLog, FirstIndex, ...), and    *)
(*     the outcome the model predicts (drift diagnostics only: verdicts    *)
(*     come from MigrateTrace.tla judging what the real code did).         *)
(*                                                                         *)
(* Where the context is cancelled.  The code looks at ctx only at the loop *)
(* heads, so a cancellation while the main process stands at a label that  *)
(* is not a call on a store is indistinguishable from a cancellation       *)
(* during the most recent call (no ctx check lies in between); a           *)
(* cancellation at a call label is a cancellation on entry of that call.   *)
(* `cancelAt` is that call; the harness wraps both stores and cancels the  *)
(* context on entry of it.                                                 *)
(***************************************************************************)
EXTENDS Integers, Sequences, FiniteSets, TLC, Json

CONSTANTS MaxLen,        \* source logs have 0..MaxLen entries
          Firsts,        \* first indexes of non-empty sources, e.g. {1, 5}
          Sizes,         \* len(Data) classes, e.g. {0, 40, 3000}
          BatchBytes,    \* batchBytes values, e.g. {0, 1, 72, 73, 2^30}
          NegBatch,      \* TRUE: also batchBytes = -1 (cfg files have no negative numbers)
          Overhead,      \* the constant 32 of `batchSize += len(log.Data) + 32`
          Stores,        \* subset of {"wal", "bolt", "inmem"}: every <<source, destination>> pairing of them
          ProgSet,       \* subset of {"buf", "nil", "blocked"}: kinds of progress channel
          ExtraShapes,   \* set of 10 * #extraKeys + #extraIntKeys for CopyStable (cfg files have no tuples)
          Ops,           \* subset of {"logs", "stable"}
          PairMode,      \* "all": every pairing for every configuration; "rotate": one, chosen by Seed
          ProgMode,      \* same for the progress channel kind
          Seed,
          TrackLabel,    \* TRUE: remember the label at which the context was cancelled (coverage runs); FALSE:
                         \* cancellations that the code cannot tell apart merge into one behaviour
          BUG_EmptySourceLoop

RECURSIVE SeqsOver(_, _)
SeqsOver(S, n) == IF n = 0 THEN {<<>>} ELSE {Append(q, x) : q \in SeqsOver(S, n - 1), x \in S}
Range(q) == {q[i] : i \in 1..Len(q)}
(* fixed orders, so that "rotate" is a function of the configuration and the seed *)
StoreOrder == SelectSeq(<<"wal", "bolt", "inmem">>, LAMBDA x : x \in Stores)
Pairings == [i \in 1..(Len(StoreOrder) * Len(StoreOrder)) |->
               <<StoreOrder[((i - 1) \div Len(StoreOrder)) + 1], StoreOrder[((i - 1) % Len(StoreOrder)) + 1]>>]
ProgKinds == SelectSeq(<<"buf", "nil", "blocked">>, LAMBDA x : x \in ProgSet)
RECURSIVE Sum(_, _)
Sum(q, i) == IF i > Len(q) THEN 0 ELSE i * ((q[i] % 11) + 1) * 7 + Sum(q, i + 1)

(* ---- configurations: uniform record shape for both operations ---- *)
LogShapes ==
  {[n |-> 0, first |-> 0, sizes |-> <<>>, kind |-> k] : k \in {"fresh", "emptied"}}
  \cup UNION {{[n |-> m, first |-> f, sizes |-> sz, kind |-> "filled"] : f \in Firsts, sz \in SeqsOver(Sizes, m)} :
               m \in 1..MaxLen}
LogConfigs ==
  {[op |-> "logs", n |-> s.n, first |-> s.first, sizes |-> s.sizes, kind |-> s.kind, bb |-> b, xk |-> 0, xi |-> 0] :
     s \in LogShapes, b \in BatchBytes \cup (IF NegBatch THEN {-1} ELSE {})}
StableConfigs ==
  {[op |-> "stable", n |-> 0, first |-> 0, sizes |-> <<>>, kind |-> "fresh", bb |-> 0, xk |-> e \div 10, xi |-> e % 10] :
     e \in ExtraShapes}
Configs == (IF "logs" \in Ops THEN LogConfigs ELSE {}) \cup (IF "stable" \in Ops THEN StableConfigs ELSE {})

Hash(c) == c.n * 31 + c.first * 17 + Sum(c.sizes, 1) + (c.bb % 1009) * 13 + c.xk * 5 + c.xi * 3
           + (IF c.kind = "emptied" THEN 1 ELSE 0) + Seed
PairsFor(c) == IF PairMode = "all" \/ c.op = "stable" THEN Range(Pairings) ELSE {Pairings[(Hash(c) % Len(Pairings)) + 1]}
ProgsFor(c) == IF ProgMode = "all" THEN Range(ProgKinds)
               ELSE {ProgKinds[((Hash(c) \div Len(Pairings)) % Len(ProgKinds)) + 1]}

(* ---- the (healthy) source store of a configuration ---- *)
SrcFirst(c) == IF c.n = 0 THEN 0 ELSE c.first
SrcLast(c)  == IF c.n = 0 THEN 0 ELSE c.first + c.n - 1
SrcHas(c, i) == c.n > 0 /\ i >= c.first /\ i <= SrcLast(c)
SrcSeq(c) == [j \in 1..c.n |-> c.first + j - 1]
DataLen(c, i) == c.sizes[i - c.first + 1]

(* keys of CopyStable in the order of migrate.go: known int keys, extra int keys, known keys, extra keys *)
XI(c) == [j \in 1..c.xi |-> "xi" \o ToString(j)]
XK(c) == [j \in 1..c.xk |-> "xk" \o ToString(j)]
IntKeys(c) == <<"CurrentTerm", "LastVoteTerm">> \o XI(c)
BytesKeys(c) == <<"LastVoteCand">> \o XK(c)
AllKeys(c) == IntKeys(c) \o BytesKeys(c)

IsPrefix(p, q) == Len(p) <= Len(q) /\ \A i \in 1..Len(p) : p[i] = q[i]
Consecutive(q) == \A j \in 1..(Len(q) - 1) : q[j + 1] = q[j] + 1
(* LogStore.StoreLogs contract on a destination holding the indexes d *)
PreStore(d, b) == /\ Len(b) >= 1 /\ b[1] >= 1 /\ Consecutive(b)
                  /\ (d = <<>> \/ b[1] = d[Len(d)] + 1)

CallLabels == {"FirstIndex", "LastIndex", "GetLog", "StoreLogs", "RemStore", "GetU", "SetU", "GetK", "SetK"}
KindOf(lbl) == CASE lbl = "FirstIndex" -> "first" [] lbl = "LastIndex" -> "last" [] lbl = "GetLog" -> "get"
                 [] lbl \in {"StoreLogs", "RemStore"} -> "store" [] lbl = "GetU" -> "getu" [] lbl = "SetU" -> "setu"
                 [] lbl = "GetK" -> "getk" [] lbl = "SetK" -> "setk"
ZeroCalls == [first |-> 0, last |-> 0, get |-> 0, store |-> 0, getu |-> 0, setu |-> 0, getk |-> 0, setk |-> 0]
Max0(x) == IF x < 0 THEN 0 ELSE x

(***************************************************************************
--algorithm Migrate {
  variables
    cfg \in Configs,
    pair \in PairsFor(cfg),
    prog \in ProgsFor(cfg),
    \* ---- environment ----
    cancelled = FALSE,                       \* ctx.Err() != nil
    cancelAt = [call |-> "none", k |-> 0],   \* where the harness must cancel
    cancelLabel = "none",                    \* label of main at which the canceller fired
    remain = 0,                              \* source reads not yet started when the context was cancelled
    calls = ZeroCalls,                       \* calls made so far, per kind
    lastCall = [call |-> "pre", k |-> 0],    \* most recent call on a store ("pre": none yet)
    dst = <<>>,                              \* indexes held by the destination LogStore
    dkv = <<>>,                              \* keys written to the destination StableStore, in order
    bad = {},                                \* calls with an argument the callee's contract rejects
    progOpen = TRUE, sent = 0,               \* the progress channel
    result = "running",                      \* running | nil | ctx | other
    \* ---- locals of CopyLogs ----
    first = 0, last = 0, batch = <<>>, batchSize = 0, n = 0, batchN = 1, total = 0, totalBytes = 0, idx = 0,
    \* ---- locals of CopyStable ----
    ki = 1;

  \* update(): best-effort send; a send on a closed channel would panic
  macro update() {
    if (prog # "nil") {
      assert progOpen;
      if (prog = "buf") { sent := sent + 1 }
    }
  }
  macro extcall(kind) {
    calls[kind] := calls[kind] + 1;
    lastCall := [call |-> kind, k |-> calls[kind]];
  }

  process (main = "main") {
   Start:      \* defer func() { close(progress) }() ; st := time.Now()
    if (cfg.op = "logs") {
   FirstIndex: \* first, err := src.FirstIndex()
      extcall("first");
      first := SrcFirst(cfg);
   LastIndex:  \* last, err := src.LastIndex()
      extcall("last");
      last := SrcLast(cfg);
   EmptyTest:  \* the repair of F12: an empty source has nothing to copy
      if (~BUG_EmptySourceLoop /\ first = 0 /\ last = 0) {
        update();
        result := "nil";
        goto Deferred;
      };
   Setup:      \* batch, batchSize, n, batchN := ..., total := int(last - first + 1)
      batch := <<>>; batchSize := 0; n := 0; batchN := 1; totalBytes := 0;
      total := last - first + 1;
   UStart:     \* update("starting to copy %d log entries ...")
      update();
      idx := first;
   LoopHead:   \* for idx := first; idx <= last; idx++ { if ctx.Err() != nil { return ctx.Err() }
      while (idx <= last) {
        if (cancelled) {
          result := "ctx";
          goto Deferred;
        };
   GetLog:     \* n++ ; err := src.GetLog(idx, &log) ; batch = append(batch, &log)
        n := n + 1;
        extcall("get");
        if (~SrcHas(cfg, idx)) {
          bad := bad \cup {[call |-> "GetLog", arg |-> idx]};
          result := "other";       \* "failed copying log %d (%d/%d): %w"
          goto Deferred;
        } else {
          batch := Append(batch, idx);
        };
   Account:    \* batchSize += len(log.Data) + 32
        batchSize := batchSize + DataLen(cfg, idx) + Overhead;
   FlushTest:  \* if batchSize >= batchBytes {
        if (batchSize >= cfg.bb) {
   StoreLogs:  \* err := dst.StoreLogs(batch)
          extcall("store");
          if (~PreStore(dst, batch)) {
            bad := bad \cup {[call |-> "StoreLogs", arg |-> IF batch = <<>> THEN 0 ELSE batch[1]]};
            result := "other";
            goto Deferred;
          } else {
            dst := dst \o batch;
          };
   UFlush:     \* update("  -> wrote %s ...")
          update();
   Reset:      \* batchN++ ; batch = batch[:0] ; totalBytes += batchSize ; batchSize = 0
          batchN := batchN + 1; batch := <<>>; totalBytes := totalBytes + batchSize; batchSize := 0;
        };
   Incr:       \* idx++
        idx := idx + 1;
      };
   RemTest:    \* if len(batch) > 0 {
      if (Len(batch) > 0) {
   RemStore:   \* err := dst.StoreLogs(batch)
        extcall("store");
        if (~PreStore(dst, batch)) {
          bad := bad \cup {[call |-> "StoreLogs", arg |-> batch[1]]};
          result := "other";
          goto Deferred;
        } else {
          dst := dst \o batch;
        };
   URem:
        update();
   RemReset:
        batchN := batchN + 1; batch := <<>>; totalBytes := totalBytes + batchSize; batchSize := 0;
      };
   UDone:      \* update("DONE: took %s ...") ; return nil
      update();
      result := "nil";
    } else {
      \* ------------------------------ CopyStable ------------------------------
   UCopying:   \* defer close(progress) ; update("copying %d int, %d regular KVs")
      update();
   IntLoop:    \* for _, k := range append(knownIntKeys, extraIntKeys...) { if ctx.Err() != nil { return }
      while (ki <= Len(IntKeys(cfg))) {
        if (cancelled) {
          result := "ctx";
          goto Deferred;
        };
   GetU:       \* v, err := src.GetUint64(k)
        extcall("getu");
   SetU:       \* err = dst.SetUint64(k, v)
        extcall("setu");
        dkv := Append(dkv, AllKeys(cfg)[ki]);
   UInt:       \* update("  copied int %s => %d")
        update();
        ki := ki + 1;
      };
   KeyLoop:    \* for _, k := range append(knownKeys, extraKeys...) { if ctx.Err() != nil { return }
      while (ki <= Len(AllKeys(cfg))) {
        if (cancelled) {
          result := "ctx";
          goto Deferred;
        };
   GetK:       \* v, err := src.Get(k)
        extcall("getk");
   SetK:       \* err = dst.Set(k, v)
        extcall("setk");
        dkv := Append(dkv, AllKeys(cfg)[ki]);
   UKey:       \* update("  copied %s => %q")
        update();
        ki := ki + 1;
      };
   UDoneS:     \* update("DONE: took %s to copy %d KVs") ; return nil
      update();
      result := "nil";
    };
   Deferred:   \* the deferred func: if progress != nil { close(progress) }
    if (prog # "nil") {
      assert progOpen;
      progOpen := FALSE;
    };
  }

  \* the context is cancelled at most once, while main stands at any label
  process (canceller = "canceller") {
   Cancel:
    await pc["main"] # "Done";
    cancelled := TRUE;
    cancelLabel := IF TrackLabel THEN pc["main"] ELSE "any";
    cancelAt := IF pc["main"] \in CallLabels
                THEN [call |-> KindOf(pc["main"]), k |-> calls[KindOf(pc["main"])] + 1]
                ELSE lastCall;
    remain := IF cfg.op = "logs"
              THEN Max0(cfg.n - (calls.get + (IF pc["main"] = "GetLog" THEN 1 ELSE 0)))
              ELSE Len(AllKeys(cfg)) - (calls.getu + calls.getk + (IF pc["main"] \in {"GetU", "GetK"} THEN 1 ELSE 0));
  }
}
***************************************************************************)
\* BEGIN TRANSLATION
VARIABLES pc, cfg, pair, prog, cancelled, cancelAt, cancelLabel, remain, 
          calls, lastCall, dst, dkv, bad, progOpen, sent, result, first, last, 
          batch, batchSize, n, batchN, total, totalBytes, idx, ki

vars == << pc, cfg, pair, prog, cancelled, cancelAt, cancelLabel, remain, 
           calls, lastCall, dst, dkv, bad, progOpen, sent, result, first, 
           last, batch, batchSize, n, batchN, total, totalBytes, idx, ki >>

ProcSet == {"main"} \cup {"canceller"}

Init == (* Global variables *)
        /\ cfg \in Configs
        /\ pair \in PairsFor(cfg)
        /\ prog \in ProgsFor(cfg)
        /\ cancelled = FALSE
        /\ cancelAt = [call |-> "none", k |-> 0]
        /\ cancelLabel = "none"
        /\ remain = 0
        /\ calls = ZeroCalls
        /\ lastCall = [call |-> "pre", k |-> 0]
        /\ dst = <<>>
        /\ dkv = <<>>
        /\ bad = {}
        /\ progOpen = TRUE
        /\ sent = 0
        /\ result = "running"
        /\ first = 0
        /\ last = 0
        /\ batch = <<>>
        /\ batchSize = 0
        /\ n = 0
        /\ batchN = 1
        /\ total = 0
        /\ totalBytes = 0
        /\ idx = 0
        /\ ki = 1
        /\ pc = [self \in ProcSet |-> CASE self = "main" -> "Start"
                                        [] self = "canceller" -> "Cancel"]

Start == /\ pc["main"] = "Start"
         /\ IF cfg.op = "logs"
               THEN /\ pc' = [pc EXCEPT !["main"] = "FirstIndex"]
               ELSE /\ pc' = [pc EXCEPT !["main"] = "UCopying"]
         /\ UNCHANGED << cfg, pair, prog, cancelled, cancelAt, cancelLabel, 
                         remain, calls, lastCall, dst, dkv, bad, progOpen, 
                         sent, result, first, last, batch, batchSize, n, 
                         batchN, total, totalBytes, idx, ki >>

FirstIndex == /\ pc["main"] = "FirstIndex"
              /\ calls' = [calls EXCEPT !["first"] = calls["first"] + 1]
              /\ lastCall' = [call |-> "first", k |-> calls'["first"]]
              /\ first' = SrcFirst(cfg)
              /\ pc' = [pc EXCEPT !["main"] = "LastIndex"]
              /\ UNCHANGED << cfg, pair, prog, cancelled, cancelAt, 
                              cancelLabel, remain, dst, dkv, bad, progOpen, 
                              sent, result, last, batch, batchSize, n, batchN, 
                              total, totalBytes, idx, ki >>

LastIndex == /\ pc["main"] = "LastIndex"
             /\ calls' = [calls EXCEPT !["last"] = calls["last"] + 1]
             /\ lastCall' = [call |-> "last", k |-> calls'["last"]]
             /\ last' = SrcLast(cfg)
             /\ pc' = [pc EXCEPT !["main"] = "EmptyTest"]
             /\ UNCHANGED << cfg, pair, prog, cancelled, cancelAt, cancelLabel, 
                             remain, dst, dkv, bad, progOpen, sent, result, 
                             first, batch, batchSize, n, batchN, total, 
                             totalBytes, idx, ki >>

EmptyTest == /\ pc["main"] = "EmptyTest"
             /\ IF ~BUG_EmptySourceLoop /\ first = 0 /\ last = 0
                   THEN /\ IF prog # "nil"
                              THEN /\ Assert(progOpen, 
                                             "Failure of assertion at line 138, column 7 of macro called at line 158, column 9.")
                                   /\ IF prog = "buf"
                                         THEN /\ sent' = sent + 1
                                         ELSE /\ TRUE
                                              /\ sent' = sent
                              ELSE /\ TRUE
                                   /\ sent' = sent
                        /\ result' = "nil"
                        /\ pc' = [pc EXCEPT !["main"] = "Deferred"]
                   ELSE /\ pc' = [pc EXCEPT !["main"] = "Setup"]
                        /\ UNCHANGED << sent, result >>
             /\ UNCHANGED << cfg, pair, prog, cancelled, cancelAt, cancelLabel, 
                             remain, calls, lastCall, dst, dkv, bad, progOpen, 
                             first, last, batch, batchSize, n, batchN, total, 
                             totalBytes, idx, ki >>

Setup == /\ pc["main"] = "Setup"
         /\ batch' = <<>>
         /\ batchSize' = 0
         /\ n' = 0
         /\ batchN' = 1
         /\ totalBytes' = 0
         /\ total' = last - first + 1
         /\ pc' = [pc EXCEPT !["main"] = "UStart"]
         /\ UNCHANGED << cfg, pair, prog, cancelled, cancelAt, cancelLabel, 
                         remain, calls, lastCall, dst, dkv, bad, progOpen, 
                         sent, result, first, last, idx, ki >>

UStart == /\ pc["main"] = "UStart"
          /\ IF prog # "nil"
                THEN /\ Assert(progOpen, 
                               "Failure of assertion at line 138, column 7 of macro called at line 166, column 7.")
                     /\ IF prog = "buf"
                           THEN /\ sent' = sent + 1
                           ELSE /\ TRUE
                                /\ sent' = sent
                ELSE /\ TRUE
                     /\ sent' = sent
          /\ idx' = first
          /\ pc' = [pc EXCEPT !["main"] = "LoopHead"]
          /\ UNCHANGED << cfg, pair, prog, cancelled, cancelAt, cancelLabel, 
                          remain, calls, lastCall, dst, dkv, bad, progOpen, 
                          result, first, last, batch, batchSize, n, batchN, 
                          total, totalBytes, ki >>

LoopHead == /\ pc["main"] = "LoopHead"
            /\ IF idx <= last
                  THEN /\ IF cancelled
                             THEN /\ result' = "ctx"
                                  /\ pc' = [pc EXCEPT !["main"] = "Deferred"]
                             ELSE /\ pc' = [pc EXCEPT !["main"] = "GetLog"]
                                  /\ UNCHANGED result
                  ELSE /\ pc' = [pc EXCEPT !["main"] = "RemTest"]
                       /\ UNCHANGED result
            /\ UNCHANGED << cfg, pair, prog, cancelled, cancelAt, cancelLabel, 
                            remain, calls, lastCall, dst, dkv, bad, progOpen, 
                            sent, first, last, batch, batchSize, n, batchN, 
                            total, totalBytes, idx, ki >>

GetLog == /\ pc["main"] = "GetLog"
          /\ n' = n + 1
          /\ calls' = [calls EXCEPT !["get"] = calls["get"] + 1]
          /\ lastCall' = [call |-> "get", k |-> calls'["get"]]
          /\ IF ~SrcHas(cfg, idx)
                THEN /\ bad' = (bad \cup {[call |-> "GetLog", arg |-> idx]})
                     /\ result' = "other"
                     /\ pc' = [pc EXCEPT !["main"] = "Deferred"]
                     /\ batch' = batch
                ELSE /\ batch' = Append(batch, idx)
                     /\ pc' = [pc EXCEPT !["main"] = "Account"]
                     /\ UNCHANGED << bad, result >>
          /\ UNCHANGED << cfg, pair, prog, cancelled, cancelAt, cancelLabel, 
                          remain, dst, dkv, progOpen, sent, first, last, 
                          batchSize, batchN, total, totalBytes, idx, ki >>

Account == /\ pc["main"] = "Account"
           /\ batchSize' = batchSize + DataLen(cfg, idx) + Overhead
           /\ pc' = [pc EXCEPT !["main"] = "FlushTest"]
           /\ UNCHANGED << cfg, pair, prog, cancelled, cancelAt, cancelLabel, 
                           remain, calls, lastCall, dst, dkv, bad, progOpen, 
                           sent, result, first, last, batch, n, batchN, total, 
                           totalBytes, idx, ki >>

FlushTest == /\ pc["main"] = "FlushTest"
             /\ IF batchSize >= cfg.bb
                   THEN /\ pc' = [pc EXCEPT !["main"] = "StoreLogs"]
                   ELSE /\ pc' = [pc EXCEPT !["main"] = "Incr"]
             /\ UNCHANGED << cfg, pair, prog, cancelled, cancelAt, cancelLabel, 
                             remain, calls, lastCall, dst, dkv, bad, progOpen, 
                             sent, result, first, last, batch, batchSize, n, 
                             batchN, total, totalBytes, idx, ki >>

StoreLogs == /\ pc["main"] = "StoreLogs"
             /\ calls' = [calls EXCEPT !["store"] = calls["store"] + 1]
             /\ lastCall' = [call |-> "store", k |-> calls'["store"]]
             /\ IF ~PreStore(dst, batch)
                   THEN /\ bad' = (bad \cup {[call |-> "StoreLogs", arg |-> IF batch = <<>> THEN 0 ELSE batch[1]]})
                        /\ result' = "other"
                        /\ pc' = [pc EXCEPT !["main"] = "Deferred"]
                        /\ dst' = dst
                   ELSE /\ dst' = dst \o batch
                        /\ pc' = [pc EXCEPT !["main"] = "UFlush"]
                        /\ UNCHANGED << bad, result >>
             /\ UNCHANGED << cfg, pair, prog, cancelled, cancelAt, cancelLabel, 
                             remain, dkv, progOpen, sent, first, last, batch, 
                             batchSize, n, batchN, total, totalBytes, idx, ki >>

UFlush == /\ pc["main"] = "UFlush"
          /\ IF prog # "nil"
                THEN /\ Assert(progOpen, 
                               "Failure of assertion at line 138, column 7 of macro called at line 198, column 11.")
                     /\ IF prog = "buf"
                           THEN /\ sent' = sent + 1
                           ELSE /\ TRUE
                                /\ sent' = sent
                ELSE /\ TRUE
                     /\ sent' = sent
          /\ pc' = [pc EXCEPT !["main"] = "Reset"]
          /\ UNCHANGED << cfg, pair, prog, cancelled, cancelAt, cancelLabel, 
                          remain, calls, lastCall, dst, dkv, bad, progOpen, 
                          result, first, last, batch, batchSize, n, batchN, 
                          total, totalBytes, idx, ki >>

Reset == /\ pc["main"] = "Reset"
         /\ batchN' = batchN + 1
         /\ batch' = <<>>
         /\ totalBytes' = totalBytes + batchSize
         /\ batchSize' = 0
         /\ pc' = [pc EXCEPT !["main"] = "Incr"]
         /\ UNCHANGED << cfg, pair, prog, cancelled, cancelAt, cancelLabel, 
                         remain, calls, lastCall, dst, dkv, bad, progOpen, 
                         sent, result, first, last, n, total, idx, ki >>

Incr == /\ pc["main"] = "Incr"
        /\ idx' = idx + 1
        /\ pc' = [pc EXCEPT !["main"] = "LoopHead"]
        /\ UNCHANGED << cfg, pair, prog, cancelled, cancelAt, cancelLabel, 
                        remain, calls, lastCall, dst, dkv, bad, progOpen, sent, 
                        result, first, last, batch, batchSize, n, batchN, 
                        total, totalBytes, ki >>

RemTest == /\ pc["main"] = "RemTest"
           /\ IF Len(batch) > 0
                 THEN /\ pc' = [pc EXCEPT !["main"] = "RemStore"]
                 ELSE /\ pc' = [pc EXCEPT !["main"] = "UDone"]
           /\ UNCHANGED << cfg, pair, prog, cancelled, cancelAt, cancelLabel, 
                           remain, calls, lastCall, dst, dkv, bad, progOpen, 
                           sent, result, first, last, batch, batchSize, n, 
                           batchN, total, totalBytes, idx, ki >>

RemStore == /\ pc["main"] = "RemStore"
            /\ calls' = [calls EXCEPT !["store"] = calls["store"] + 1]
            /\ lastCall' = [call |-> "store", k |-> calls'["store"]]
            /\ IF ~PreStore(dst, batch)
                  THEN /\ bad' = (bad \cup {[call |-> "StoreLogs", arg |-> batch[1]]})
                       /\ result' = "other"
                       /\ pc' = [pc EXCEPT !["main"] = "Deferred"]
                       /\ dst' = dst
                  ELSE /\ dst' = dst \o batch
                       /\ pc' = [pc EXCEPT !["main"] = "URem"]
                       /\ UNCHANGED << bad, result >>
            /\ UNCHANGED << cfg, pair, prog, cancelled, cancelAt, cancelLabel, 
                            remain, dkv, progOpen, sent, first, last, batch, 
                            batchSize, n, batchN, total, totalBytes, idx, ki >>

URem == /\ pc["main"] = "URem"
        /\ IF prog # "nil"
              THEN /\ Assert(progOpen, 
                             "Failure of assertion at line 138, column 7 of macro called at line 217, column 9.")
                   /\ IF prog = "buf"
                         THEN /\ sent' = sent + 1
                         ELSE /\ TRUE
                              /\ sent' = sent
              ELSE /\ TRUE
                   /\ sent' = sent
        /\ pc' = [pc EXCEPT !["main"] = "RemReset"]
        /\ UNCHANGED << cfg, pair, prog, cancelled, cancelAt, cancelLabel, 
                        remain, calls, lastCall, dst, dkv, bad, progOpen, 
                        result, first, last, batch, batchSize, n, batchN, 
                        total, totalBytes, idx, ki >>

RemReset == /\ pc["main"] = "RemReset"
            /\ batchN' = batchN + 1
            /\ batch' = <<>>
            /\ totalBytes' = totalBytes + batchSize
            /\ batchSize' = 0
            /\ pc' = [pc EXCEPT !["main"] = "UDone"]
            /\ UNCHANGED << cfg, pair, prog, cancelled, cancelAt, cancelLabel, 
                            remain, calls, lastCall, dst, dkv, bad, progOpen, 
                            sent, result, first, last, n, total, idx, ki >>

UDone == /\ pc["main"] = "UDone"
         /\ IF prog # "nil"
               THEN /\ Assert(progOpen, 
                              "Failure of assertion at line 138, column 7 of macro called at line 222, column 7.")
                    /\ IF prog = "buf"
                          THEN /\ sent' = sent + 1
                          ELSE /\ TRUE
                               /\ sent' = sent
               ELSE /\ TRUE
                    /\ sent' = sent
         /\ result' = "nil"
         /\ pc' = [pc EXCEPT !["main"] = "Deferred"]
         /\ UNCHANGED << cfg, pair, prog, cancelled, cancelAt, cancelLabel, 
                         remain, calls, lastCall, dst, dkv, bad, progOpen, 
                         first, last, batch, batchSize, n, batchN, total, 
                         totalBytes, idx, ki >>

UCopying == /\ pc["main"] = "UCopying"
            /\ IF prog # "nil"
                  THEN /\ Assert(progOpen, 
                                 "Failure of assertion at line 138, column 7 of macro called at line 227, column 7.")
                       /\ IF prog = "buf"
                             THEN /\ sent' = sent + 1
                             ELSE /\ TRUE
                                  /\ sent' = sent
                  ELSE /\ TRUE
                       /\ sent' = sent
            /\ pc' = [pc EXCEPT !["main"] = "IntLoop"]
            /\ UNCHANGED << cfg, pair, prog, cancelled, cancelAt, cancelLabel, 
                            remain, calls, lastCall, dst, dkv, bad, progOpen, 
                            result, first, last, batch, batchSize, n, batchN, 
                            total, totalBytes, idx, ki >>

IntLoop == /\ pc["main"] = "IntLoop"
           /\ IF ki <= Len(IntKeys(cfg))
                 THEN /\ IF cancelled
                            THEN /\ result' = "ctx"
                                 /\ pc' = [pc EXCEPT !["main"] = "Deferred"]
                            ELSE /\ pc' = [pc EXCEPT !["main"] = "GetU"]
                                 /\ UNCHANGED result
                 ELSE /\ pc' = [pc EXCEPT !["main"] = "KeyLoop"]
                      /\ UNCHANGED result
           /\ UNCHANGED << cfg, pair, prog, cancelled, cancelAt, cancelLabel, 
                           remain, calls, lastCall, dst, dkv, bad, progOpen, 
                           sent, first, last, batch, batchSize, n, batchN, 
                           total, totalBytes, idx, ki >>

GetU == /\ pc["main"] = "GetU"
        /\ calls' = [calls EXCEPT !["getu"] = calls["getu"] + 1]
        /\ lastCall' = [call |-> "getu", k |-> calls'["getu"]]
        /\ pc' = [pc EXCEPT !["main"] = "SetU"]
        /\ UNCHANGED << cfg, pair, prog, cancelled, cancelAt, cancelLabel, 
                        remain, dst, dkv, bad, progOpen, sent, result, first, 
                        last, batch, batchSize, n, batchN, total, totalBytes, 
                        idx, ki >>

SetU == /\ pc["main"] = "SetU"
        /\ calls' = [calls EXCEPT !["setu"] = calls["setu"] + 1]
        /\ lastCall' = [call |-> "setu", k |-> calls'["setu"]]
        /\ dkv' = Append(dkv, AllKeys(cfg)[ki])
        /\ pc' = [pc EXCEPT !["main"] = "UInt"]
        /\ UNCHANGED << cfg, pair, prog, cancelled, cancelAt, cancelLabel, 
                        remain, dst, bad, progOpen, sent, result, first, last, 
                        batch, batchSize, n, batchN, total, totalBytes, idx, 
                        ki >>

UInt == /\ pc["main"] = "UInt"
        /\ IF prog # "nil"
              THEN /\ Assert(progOpen, 
                             "Failure of assertion at line 138, column 7 of macro called at line 240, column 9.")
                   /\ IF prog = "buf"
                         THEN /\ sent' = sent + 1
                         ELSE /\ TRUE
                              /\ sent' = sent
              ELSE /\ TRUE
                   /\ sent' = sent
        /\ ki' = ki + 1
        /\ pc' = [pc EXCEPT !["main"] = "IntLoop"]
        /\ UNCHANGED << cfg, pair, prog, cancelled, cancelAt, cancelLabel, 
                        remain, calls, lastCall, dst, dkv, bad, progOpen, 
                        result, first, last, batch, batchSize, n, batchN, 
                        total, totalBytes, idx >>

KeyLoop == /\ pc["main"] = "KeyLoop"
           /\ IF ki <= Len(AllKeys(cfg))
                 THEN /\ IF cancelled
                            THEN /\ result' = "ctx"
                                 /\ pc' = [pc EXCEPT !["main"] = "Deferred"]
                            ELSE /\ pc' = [pc EXCEPT !["main"] = "GetK"]
                                 /\ UNCHANGED result
                 ELSE /\ pc' = [pc EXCEPT !["main"] = "UDoneS"]
                      /\ UNCHANGED result
           /\ UNCHANGED << cfg, pair, prog, cancelled, cancelAt, cancelLabel, 
                           remain, calls, lastCall, dst, dkv, bad, progOpen, 
                           sent, first, last, batch, batchSize, n, batchN, 
                           total, totalBytes, idx, ki >>

GetK == /\ pc["main"] = "GetK"
        /\ calls' = [calls EXCEPT !["getk"] = calls["getk"] + 1]
        /\ lastCall' = [call |-> "getk", k |-> calls'["getk"]]
        /\ pc' = [pc EXCEPT !["main"] = "SetK"]
        /\ UNCHANGED << cfg, pair, prog, cancelled, cancelAt, cancelLabel, 
                        remain, dst, dkv, bad, progOpen, sent, result, first, 
                        last, batch, batchSize, n, batchN, total, totalBytes, 
                        idx, ki >>

SetK == /\ pc["main"] = "SetK"
        /\ calls' = [calls EXCEPT !["setk"] = calls["setk"] + 1]
        /\ lastCall' = [call |-> "setk", k |-> calls'["setk"]]
        /\ dkv' = Append(dkv, AllKeys(cfg)[ki])
        /\ pc' = [pc EXCEPT !["main"] = "UKey"]
        /\ UNCHANGED << cfg, pair, prog, cancelled, cancelAt, cancelLabel, 
                        remain, dst, bad, progOpen, sent, result, first, last, 
                        batch, batchSize, n, batchN, total, totalBytes, idx, 
                        ki >>

UKey == /\ pc["main"] = "UKey"
        /\ IF prog # "nil"
              THEN /\ Assert(progOpen, 
                             "Failure of assertion at line 138, column 7 of macro called at line 255, column 9.")
                   /\ IF prog = "buf"
                         THEN /\ sent' = sent + 1
                         ELSE /\ TRUE
                              /\ sent' = sent
              ELSE /\ TRUE
                   /\ sent' = sent
        /\ ki' = ki + 1
        /\ pc' = [pc EXCEPT !["main"] = "KeyLoop"]
        /\ UNCHANGED << cfg, pair, prog, cancelled, cancelAt, cancelLabel, 
                        remain, calls, lastCall, dst, dkv, bad, progOpen, 
                        result, first, last, batch, batchSize, n, batchN, 
                        total, totalBytes, idx >>

UDoneS == /\ pc["main"] = "UDoneS"
          /\ IF prog # "nil"
                THEN /\ Assert(progOpen, 
                               "Failure of assertion at line 138, column 7 of macro called at line 259, column 7.")
                     /\ IF prog = "buf"
                           THEN /\ sent' = sent + 1
                           ELSE /\ TRUE
                                /\ sent' = sent
                ELSE /\ TRUE
                     /\ sent' = sent
          /\ result' = "nil"
          /\ pc' = [pc EXCEPT !["main"] = "Deferred"]
          /\ UNCHANGED << cfg, pair, prog, cancelled, cancelAt, cancelLabel, 
                          remain, calls, lastCall, dst, dkv, bad, progOpen, 
                          first, last, batch, batchSize, n, batchN, total, 
                          totalBytes, idx, ki >>

Deferred == /\ pc["main"] = "Deferred"
            /\ IF prog # "nil"
                  THEN /\ Assert(progOpen, 
                                 "Failure of assertion at line 264, column 7.")
                       /\ progOpen' = FALSE
                  ELSE /\ TRUE
                       /\ UNCHANGED progOpen
            /\ pc' = [pc EXCEPT !["main"] = "Done"]
            /\ UNCHANGED << cfg, pair, prog, cancelled, cancelAt, cancelLabel, 
                            remain, calls, lastCall, dst, dkv, bad, sent, 
                            result, first, last, batch, batchSize, n, batchN, 
                            total, totalBytes, idx, ki >>

main == Start \/ FirstIndex \/ LastIndex \/ EmptyTest \/ Setup \/ UStart
           \/ LoopHead \/ GetLog \/ Account \/ FlushTest \/ StoreLogs
           \/ UFlush \/ Reset \/ Incr \/ RemTest \/ RemStore \/ URem
           \/ RemReset \/ UDone \/ UCopying \/ IntLoop \/ GetU \/ SetU
           \/ UInt \/ KeyLoop \/ GetK \/ SetK \/ UKey \/ UDoneS \/ Deferred

Cancel == /\ pc["canceller"] = "Cancel"
          /\ pc["main"] # "Done"
          /\ cancelled' = TRUE
          /\ cancelLabel' = IF TrackLabel THEN pc["main"] ELSE "any"
          /\ cancelAt' = (IF pc["main"] \in CallLabels
                          THEN [call |-> KindOf(pc["main"]), k |-> calls[KindOf(pc["main"])] + 1]
                          ELSE lastCall)
          /\ remain' = (IF cfg.op = "logs"
                        THEN Max0(cfg.n - (calls.get + (IF pc["main"] = "GetLog" THEN 1 ELSE 0)))
                        ELSE Len(AllKeys(cfg)) - (calls.getu + calls.getk + (IF pc["main"] \in {"GetU", "GetK"} THEN 1 ELSE 0)))
          /\ pc' = [pc EXCEPT !["canceller"] = "Done"]
          /\ UNCHANGED << cfg, pair, prog, calls, lastCall, dst, dkv, bad, 
                          progOpen, sent, result, first, last, batch, 
                          batchSize, n, batchN, total, totalBytes, idx, ki >>

canceller == Cancel

(* Allow infinite stuttering to prevent deadlock on termination. *)
Terminating == /\ \A self \in ProcSet: pc[self] = "Done"
               /\ UNCHANGED vars

Next == main \/ canceller
           \/ Terminating

Spec == Init /\ [][Next]_vars

Termination == <>(\A self \in ProcSet: pc[self] = "Done")

\* END TRANSLATION

----------------------------------------------------------------------------
Done == pc["main"] = "Done"

(* ---- C19 at design level (evaluated in terminal states) ---- *)
ResultOK == Done => result \in {"nil", "ctx"}
DestEqualsSource == (Done /\ result = "nil" /\ cfg.op = "logs") => dst = SrcSeq(cfg)
CancelPrefix == (Done /\ result = "ctx") =>
                   /\ cancelled
                   /\ (cfg.op = "logs" => IsPrefix(dst, SrcSeq(cfg)))
                   /\ (cfg.op = "stable" => IsPrefix(dkv, AllKeys(cfg)))
CancelHonoured == (Done /\ cancelled /\ remain > 0) => result = "ctx"
StableCopied == (Done /\ result = "nil" /\ cfg.op = "stable") => dkv = AllKeys(cfg)
ProgressClosed == Done => (prog = "nil" \/ ~progOpen)
NoInvalidCall == bad = {}
BatchSound == /\ Len(batch) <= cfg.n + 1
              /\ (cfg.op = "logs" /\ result = "running" /\ cfg.n > 0
                    /\ pc["main"] \notin {"UFlush", "Reset", "URem", "RemReset"})   \* stored, not yet reset
                   => IsPrefix(dst \o batch, SrcSeq(cfg))
TypeOK == /\ result \in {"running", "nil", "ctx", "other"}
          /\ sent >= 0 /\ remain >= 0
          /\ (~cancelled => cancelAt.call = "none")

(* ---- scenario export ---- *)
Scenario == [op |-> cfg.op, n |-> cfg.n, first |-> cfg.first, sizes |-> cfg.sizes, kind |-> cfg.kind,
             bb |-> cfg.bb, xk |-> cfg.xk, xi |-> cfg.xi, src |-> pair[1], dst |-> pair[2], prog |-> prog,
             call |-> cancelAt.call, k |-> cancelAt.k, label |-> cancelLabel,
             expect |-> [result |-> result, dlen |-> Len(dst), klen |-> Len(dkv), sent |-> sent,
                         gets |-> calls.get, stores |-> calls.store, remain |-> remain,
                         bad |-> Cardinality(bad)]]
Emit == Done => PrintT(<<"SCEN", ToJson(Scenario)>>)

=============================================================================
