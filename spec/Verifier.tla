------------------------------ MODULE Verifier ------------------------------
(***************************************************************************)
(* The verifying LogStore middleware of raft-wal (verifier/store.go,       *)
(* verifier/verifier.go) over N nodes (DESIGN.md 2.7).                     *)
(*                                                                         *)
(* Per node: an underlying CONTIGUOUS log `st[n]` (the contract of the WAL)*)
(* and the middleware state `mw[n]`:                                       *)
(*   sum, start   running checksum + sumStartIdx (LogStore.checksum,       *)
(*                LogStore.sumStartIdx).  The FNV-1a chain is abstracted   *)
(*                as the SEQUENCE of records hashed: an injective ideal    *)
(*                hash, <<>> = 0, with the one documented exception that   *)
(*                checksumLog returns 0 for an index-1 configuration entry.*)
(*   ch           verifyCh, a channel with a buffer of one                 *)
(*   vs, cur      the runVerifier goroutine: idle | busy | inrep and the   *)
(*                report it holds                                          *)
(*   last         runVerifier's lastCheckPointIdx                          *)
(*   gate         TRUE = the ReportFn callback blocks (harness gate)       *)
(*   cnt          the metrics counters                                     *)
(*   deliv        delivered reports with the ghost facts the properties    *)
(*                talk about, evaluated at verification time               *)
(* The functions Upd / Run / Trig / Verify / Hash transcribe               *)
(* updateVerifyState / StoreLogs / triggerVerify / verify / checksumLog    *)
(* statement by statement.                                                 *)
(*                                                                         *)
(* Two deviations of the pinned code from the properties are modelled      *)
(* behind boolean constants, so that TLC produces the counterexamples with *)
(* TRUE and the repaired design passes with FALSE:                         *)
(*  BUG_NoResetOnDelete (DESIGN 6, F11): DeleteRange is a plain delegation *)
(*    and the running sum survives a truncation -> false "in-flight        *)
(*    corruption" after a tail truncation + re-append or after a snapshot  *)
(*    install.  Repaired: a DeleteRange that reaches into the summed       *)
(*    indexes (max >= sumStartIdx) restarts the sum.                       *)
(*  BUG_LacksByFirstOnly (found by the C16 check): verify() recognises "the*)
(*    node lacks part of the range" only by FirstIndex() > Range.Start; an *)
(*    emptied or tail-truncated log yields a read error, not               *)
(*    ErrRangeMismatch.  Repaired: every missing index is a range mismatch.*)
(* `bug` (chosen in Init from BugModes, constant along a behaviour) selects*)
(* whether the BUG_ constants apply, so that one TLC run explores both the *)
(* model of the pinned code (bug = TRUE) and the repaired design (FALSE).  *)
(*                                                                         *)
(* `hist` is the scenario channel: the list of actions with arguments that *)
(* harness/cmd/verifreplay executes on real verifier.LogStore instances.   *)
(* It is excluded from the VIEW.                                           *)
(***************************************************************************)
EXTENDS Integers, Sequences, FiniteSets, TLC, Json

CONSTANTS N,            \* number of nodes
          MaxIdx,       \* largest raft index
          MaxCp,        \* checkpoints appended by leaders
          MaxTerm,      \* leadership changes = MaxTerm - 1
          MaxBatch,     \* largest StoreLogs batch
          MaxTT,        \* tail truncations (conflicting suffix)
          MaxTH,        \* head truncations
          MaxSnap,      \* snapshot installs (delete everything, continue at a later index)
          MaxRestart,   \* middleware restarts
          MaxCorrupt,   \* injected single-field corruptions (in flight + at rest)
          MaxForeign,   \* checkpoints handed over with foreign Extensions
          MaxBlock,     \* times a ReportFn gate is closed
          MaxFail,      \* underlying StoreLogs failures
          MaxSteps,     \* scenario length (simulation) / depth bound
          Eager,        \* TRUE: an idle verifier goroutine receives at once (the schedule the harness can force)
          CfgAt1,       \* generate configuration entries at index 1
          Fields,       \* fields that corruption may hit, subset of {"i","t","y","d","e"}
          InFlight, AtRest,  \* which corruption actions exist
          TrackWrote,   \* keep the ghost set of everything a node wrote (needed by C17_Blame only)
          Props,        \* the properties whose counterexamples are printed, subset of {"C16","C17","C18"}
          EmitEvery,    \* interesting behaviours are printed with probability 1/EmitEvery (0 = never)
          BUG_NoResetOnDelete,
          BUG_LacksByFirstOnly,   \* TRUE = the pinned verify(): "lacks part of the range" is only FirstIndex() > Range.Start
          BugModes                \* subset of BOOLEAN: TRUE = explore the pinned code (the BUG_ constants apply),
                                  \* FALSE = explore the repaired design; both in one run

VARIABLES st,      \* node -> [f |-> first index (next index when empty), c |-> Seq(Ent)]
          tw,      \* node -> twin store: the same calls applied without the middleware
          mw,      \* node -> middleware state
          leader, term,
          rot,     \* the at-rest corruption: [n, i, f, m], n = 0 when there is none
          truth,   \* ghost: <<idx, term>> of a leader's checkpoint -> what that leader had stored for the range
          bud,     \* budgets used
          bug,     \* which of the two models this behaviour belongs to (constant along a behaviour)
          hist     \* the scenario

vars == <<st, tw, mw, leader, term, rot, truth, bud, bug, hist>>
View == <<st, tw, mw, leader, term, rot, truth, bud, bug>>
NoReset == bug /\ BUG_NoResetOnDelete
FirstOnly == bug /\ BUG_LacksByFirstOnly

Nodes == 1..N

----------------------------------------------------------------------------
(* entries *)
NoExt == [k |-> "none", s |-> 0, sum |-> <<>>]
Junk  == [k |-> "junk", s |-> 0, sum |-> <<>>]
Meta(s, sm) == [k |-> "meta", s |-> s, sum |-> sm]

Ent(t, y, d, e) == [t |-> t, y |-> y, d |-> d, e |-> e]
Rec(i, en) == [i |-> i, t |-> en.t, y |-> en.y, d |-> en.d, e |-> en.e]
EntOf(r) == [t |-> r.t, y |-> r.y, d |-> r.d, e |-> r.e]
Bogus == [i |-> 0, t |-> 0, y |-> "cmd", d |-> "x", e |-> NoExt]

IsCP(r) == r.y = "cmd" /\ r.d \in {"cp", "cq"}   \* the application's IsCheckpointFn (cq = a checkpoint with altered payload)

(* the contiguous log *)
EmptyS(s) == s.c = <<>>
FirstI(s) == IF EmptyS(s) THEN 0 ELSE s.f
LastI(s)  == IF EmptyS(s) THEN 0 ELSE s.f + Len(s.c) - 1
NextI(s)  == s.f + Len(s.c)
Has(s, i) == i >= s.f /\ i < s.f + Len(s.c)
At(s, i)  == s.c[i - s.f + 1]
RecAt(s, i) == Rec(i, At(s, i))
DelTail(s, mn) == [f |-> s.f, c |-> SubSeq(s.c, 1, mn - s.f)]          \* DeleteRange(mn, last), s.f <= mn <= last
DelHead(s, mx) == IF mx >= LastI(s) THEN [f |-> mx + 1, c |-> <<>>]    \* DeleteRange(first, mx), first <= mx
                  ELSE [f |-> mx + 1, c |-> SubSeq(s.c, mx + 2 - s.f, Len(s.c))]

(* single-field alterations; m selects one of two variants *)
Alter(r, f, m) ==
  IF f = "i" THEN [r EXCEPT !.i = IF m = "alt1" THEN (IF r.i = 1 THEN 2 ELSE 1) ELSE r.i + 1]
  ELSE IF f = "t" THEN [r EXCEPT !.t = IF m = "alt1" THEN 0 ELSE r.t + 1]
  ELSE IF f = "y" THEN [r EXCEPT !.y = IF r.y = "cmd" THEN "cfg" ELSE "cmd"]
  ELSE IF f = "d" THEN [r EXCEPT !.d = IF m = "alt1" THEN (IF r.d = "x" THEN "a" ELSE "x")
                                        ELSE (IF r.d = "cp" THEN "cq" ELSE "cp")]
  ELSE [r EXCEPT !.e = IF r.e.k = "none" THEN Junk
                       ELSE IF r.e.k = "junk" THEN NoExt
                       ELSE IF m = "alt1" THEN Junk
                       ELSE Meta(r.e.s, IF r.e.sum = <<>> THEN <<Bogus>> ELSE <<>>)]
ValidAlt(r, f, m) == /\ f \in Fields
                     /\ (m = "alt2" => (f \in {"i", "t", "d"} \/ (f = "e" /\ r.e.k = "meta")))
                     /\ (f = "w" => m = "alt1")
Alts == {"alt1", "alt2"}

(* what node n's store returns for index i *)
(* rot.f = "w" (whole records, at rest only): the store returns the records of rot.i and rot.i + 1 exchanged - every *)
(* record is intact, only their order is not (a checksum that forgets the order of the entries misses it)          *)
Read(n, i) == LET r == RecAt(st[n], i)
                  sw == rot.n = n /\ rot.f = "w" /\ Has(st[n], rot.i) /\ Has(st[n], rot.i + 1)
              IN IF sw /\ i = rot.i THEN RecAt(st[n], rot.i + 1)
                 ELSE IF sw /\ i = rot.i + 1 THEN RecAt(st[n], rot.i)
                 ELSE IF rot.n = n /\ rot.i = i /\ rot.f # "w" THEN Alter(r, rot.f, rot.m) ELSE r

----------------------------------------------------------------------------
(* checksumLog *)
Hash(sm, r) == IF r.i = 1 /\ r.y = "cfg" THEN <<>> ELSE Append(sm, r)
RECURSIVE FoldHash(_, _)
FoldHash(sm, q) == IF q = <<>> THEN sm ELSE FoldHash(Hash(sm, Head(q)), Tail(q))

NoRep == [s |-> 0, e |-> 0, exp |-> <<>>, wr |-> <<>>, tk |-> <<0, 0>>, dr |-> <<>>, sk |-> <<>>]
MkRep(s, e, exp, wr) == [s |-> s, e |-> e, exp |-> exp, wr |-> wr, tk |-> <<0, 0>>, dr |-> <<>>, sk |-> <<>>]

(* updateVerifyState(log, checksum, startIdx) *)
Upd(r, sm, stt) ==
  LET st0 == IF stt = 0 THEN r.i ELSE stt IN
  IF IsCP(r)
  THEN IF r.e.k = "none"                       \* new checkpoint: we must be the leader
       THEN LET r2 == [r EXCEPT !.e = Meta(st0, sm)] IN
            [ok |-> TRUE, r |-> r2, sum |-> Hash(<<>>, r2), start |-> r.i, rep |-> <<MkRep(st0, r.i, sm, sm)>>]
       ELSE IF r.e.k = "junk"                  \* decodeCheckpointMeta fails
       THEN [ok |-> FALSE, r |-> r, sum |-> sm, start |-> stt, rep |-> <<>>]
       ELSE [ok |-> TRUE, r |-> r, sum |-> Hash(<<>>, r), start |-> r.i,
             rep |-> <<MkRep(r.e.s, r.i, r.e.sum, IF r.e.s # st0 THEN <<>> ELSE sm)>>]
  ELSE [ok |-> TRUE, r |-> r, sum |-> Hash(sm, r), start |-> st0, rep |-> <<>>]

(* the loop of StoreLogs over a batch of records *)
RECURSIVE Run(_, _, _, _, _)
Run(batch, sm, stt, out, reps) ==
  IF batch = <<>> THEN [ok |-> TRUE, recs |-> out, sum |-> sm, start |-> stt, reps |-> reps]
  ELSE LET u == Upd(Head(batch), sm, stt) IN
       IF ~u.ok THEN [ok |-> FALSE, recs |-> <<>>, sum |-> <<>>, start |-> 0, reps |-> <<>>]
       ELSE Run(Tail(batch), u.sum, u.start, Append(out, u.r), reps \o u.rep)

(* runVerifier's receive: skipped-range detection *)
TakeRep(last, r) == [r EXCEPT !.sk = IF last > 0 /\ last # r.s THEN <<last, r.s>> ELSE <<>>]

(* triggerVerify for each report of a batch: non-blocking send on a 1-buffered channel. *)
(* V = the verifier-side fields of mw[n].                                                *)
RECURSIVE Trig(_, _)
Trig(V, reps) ==
  IF reps = <<>> THEN V
  ELSE LET r == [Head(reps) EXCEPT !.dr = V.pend] IN
       IF V.ch = <<>>
       THEN IF Eager /\ V.vs = "idle"
            THEN Trig([V EXCEPT !.vs = "busy", !.cur = TakeRep(V.last, r), !.last = r.e, !.pend = <<>>], Tail(reps))
            ELSE Trig([V EXCEPT !.ch = <<r>>, !.pend = <<>>], Tail(reps))
       ELSE Trig([V EXCEPT !.cnt.drop = @ + 1, !.pend = Append(@, <<r.s, r.e>>)], Tail(reps))

(* verify(report) against the store as it is now *)
Verify(n, r) ==
  IF r.wr # <<>> /\ r.wr # r.exp THEN "inflight"
  ELSE IF FirstI(st[n]) > r.s THEN "range"
  ELSE IF \E i \in r.s..(r.e - 1) : ~Has(st[n], i)
       THEN (IF FirstOnly THEN "other" ELSE "range")       \* GetLog fails: log not found
  ELSE IF FoldHash(<<>>, [k \in 1..(r.e - r.s) |-> Read(n, r.s + k - 1)]) # r.exp THEN "storage"
  ELSE "ok"

----------------------------------------------------------------------------
FreshMw == [sum |-> <<>>, start |-> 0, ch |-> <<>>, vs |-> "idle", cur |-> NoRep, last |-> 0, gate |-> FALSE,
            cnt |-> [cpw |-> 0, drop |-> 0, ver |-> 0, wfail |-> 0, rfail |-> 0],
            deliv |-> <<>>, pend |-> <<>>, wrote |-> {}, sblk |-> 0,
            bdrop |-> 0]      \* ghost: most reports dropped by a single StoreLogs call (scenario selection only)

ZeroBud == [cp |-> 0, tt |-> 0, th |-> 0, snap |-> 0, rs |-> 0, cor |-> 0, fo |-> 0, blk |-> 0, fail |-> 0]

Init == /\ st = [n \in Nodes |-> [f |-> 1, c |-> <<>>]]
        /\ tw = [n \in Nodes |-> [f |-> 1, c |-> <<>>]]
        /\ mw = [n \in Nodes |-> FreshMw]
        /\ leader = 1 /\ term = 1
        /\ rot = [n |-> 0, i |-> 0, f |-> "t", m |-> "alt1"]
        /\ truth = <<>>
        /\ bud = ZeroBud
        /\ bug \in BugModes
        /\ hist = <<>>

Room == Len(hist) < MaxSteps
H(x) == hist' = Append(hist, x) /\ bug' = bug

PutF(f, k, v) == [x \in DOMAIN f \cup {k} |-> IF x = k THEN v ELSE f[x]]

(* StoreLogs(batch) on node n.  `keys[p]` is the ghost identity of batch[p] (the leader's   *)
(* entry it was copied from); `fail` = the underlying store returns an error.               *)
(* Result: [ok, st, tw, mw]                                                                *)
StoreLogs(n, batch, keys, fail) ==
  LET m == mw[n]
      j0 == NextI(st[n])
      run == Run(batch, m.sum, m.start, <<>>, <<>>)
      b0 == IF EmptyS(st[n]) THEN batch[1].i ELSE j0           \* an empty store accepts any first index
      contiguous == b0 >= 1 /\ \A p \in 1..Len(batch) : batch[p].i = b0 + p - 1
  IN IF ~run.ok \/ fail \/ ~contiguous
     THEN [ok |-> FALSE, st |-> st[n], tw |-> tw[n], mw |-> m]
     ELSE LET reps == [p \in 1..Len(run.reps) |-> [run.reps[p] EXCEPT !.tk = keys[run.reps[p].e - b0 + 1]]]
              m1 == [m EXCEPT !.sum = run.sum, !.start = run.start,
                              !.cnt.cpw = @ + Len(reps),
                              !.wrote = IF TrackWrote THEN @ \cup {run.recs[p] : p \in 1..Len(run.recs)} ELSE @,
                              !.sblk = @ + (IF m.vs = "inrep" THEN 1 ELSE 0)]
          IN [ok |-> TRUE,
              st |-> [f |-> IF EmptyS(st[n]) THEN b0 ELSE st[n].f, c |-> st[n].c \o [p \in 1..Len(run.recs) |-> EntOf(run.recs[p])]],
              tw |-> [f |-> IF EmptyS(tw[n]) THEN b0 ELSE tw[n].f, c |-> tw[n].c \o [p \in 1..Len(batch) |-> EntOf(batch[p])]],
              mw |-> LET t == Trig(m1, reps)
                         d == t.cnt.drop - m1.cnt.drop
                     IN [t EXCEPT !.bdrop = IF d > @ THEN d ELSE @]]

NCps(batch) == Cardinality({p \in 1..Len(batch) : IsCP(batch[p])})

KindEnt(k) == IF k = "a" THEN Ent(term, "cmd", "a", NoExt)
              ELSE IF k = "cp" THEN Ent(term, "cmd", "cp", NoExt)
              ELSE IF k = "cfg" THEN Ent(term, "cfg", "a", NoExt)
              ELSE Ent(term, "cmd", "cp", Junk)
(* the leader appends a batch (optionally with checkpoints; `cpf` = a checkpoint whose      *)
(* Extensions already hold foreign data: the append must be refused)                        *)
LeaderAppend(ks, fail) ==
  LET n == leader
      j0 == NextI(st[n])
      batch == [p \in 1..Len(ks) |-> Rec(j0 + p - 1, KindEnt(ks[p]))]
      keys == [p \in 1..Len(ks) |-> <<j0 + p - 1, term>>]
      ncp == Cardinality({p \in 1..Len(ks) : ks[p] \in {"cp", "cpf"}})
      nfo == Cardinality({p \in 1..Len(ks) : ks[p] = "cpf"})
      res == StoreLogs(n, batch, keys, fail)
  IN /\ Room
     /\ j0 + Len(ks) - 1 <= MaxIdx
     /\ \A p \in 1..Len(ks) : ks[p] = "cfg" => (CfgAt1 /\ j0 + p - 1 = 1)
     /\ bud.cp + ncp <= MaxCp /\ bud.fo + nfo <= MaxForeign
     /\ (fail => bud.fail < MaxFail)
     /\ (Eager /\ mw[n].vs = "idle" => ncp <= 1)     \* see DESIGN 4.10 (timing): the harness cannot order this race
     /\ st' = [st EXCEPT ![n] = res.st] /\ tw' = [tw EXCEPT ![n] = res.tw] /\ mw' = [mw EXCEPT ![n] = res.mw]
     /\ bud' = [bud EXCEPT !.cp = @ + (IF res.ok THEN ncp ELSE 0), !.fo = @ + nfo, !.fail = @ + (IF fail THEN 1 ELSE 0)]
     /\ truth' = IF ~res.ok THEN truth
                 ELSE LET cps == {p \in 1..Len(ks) : ks[p] = "cp"}
                          T(p) == LET i == j0 + p - 1
                                      s == At(res.st, i).e.s
                                  IN [ok |-> \A x \in s..(i - 1) : Has(res.st, x), s |-> s, e |-> i,
                                      ents |-> IF \A x \in s..(i - 1) : Has(res.st, x)
                                               THEN [x \in 1..(i - s) |-> RecAt(res.st, s + x - 1)] ELSE <<>>,
                                      cp |-> RecAt(res.st, i)]
                      IN [k \in DOMAIN truth \cup {<<j0 + p - 1, term>> : p \in cps} |->
                            IF k \in DOMAIN truth THEN truth[k] ELSE T(k[1] - j0 + 1)]
     /\ H([op |-> "append", n |-> n, first |-> j0, term |-> term, kinds |-> ks, fail |-> fail, ok |-> res.ok])
     /\ UNCHANGED <<leader, term, rot>>

(* every node writes its own bootstrap configuration entry at index 1: not replicated, not   *)
(* byte-identical (the reason for checksumLog's special case)                                 *)
Boot ==
  LET R(n) == StoreLogs(n, <<Rec(1, Ent(1, "cfg", IF n = 1 THEN "b1" ELSE IF n = 2 THEN "b2" ELSE "b3", NoExt))>>, <<<<1, 1>>>>, FALSE) IN
  /\ CfgAt1 /\ hist = <<>> /\ term = 1 /\ \A n \in Nodes : EmptyS(st[n]) /\ st[n].f = 1 /\ mw[n] = FreshMw
  /\ st' = [n \in Nodes |-> R(n).st] /\ tw' = [n \in Nodes |-> R(n).tw] /\ mw' = [n \in Nodes |-> R(n).mw]
  /\ H([op |-> "boot"])
  /\ UNCHANGED <<leader, term, rot, truth, bud>>

(* log matching between follower f and the leader on the indexes both hold *)
Matches(f) == \A i \in 1..MaxIdx : (Has(st[f], i) /\ Has(st[leader], i)) => At(st[f], i).t = At(st[leader], i).t

NoCor == [p |-> 0, f |-> "t", m |-> "alt1"]

(* follower f is handed the next k entries of the leader's log (as the leader's store returns *)
(* them); cor = one entry of the batch altered in one field on the way (CorruptInFlight)       *)
Replicate(f, k, cor) ==
  LET j0 == NextI(st[f])
      src == [p \in 1..k |-> Read(leader, j0 + p - 1)]
      batch == [p \in 1..k |-> IF cor.p = p THEN Alter(src[p], cor.f, cor.m) ELSE src[p]]
      keys == [p \in 1..k |-> <<j0 + p - 1, At(st[leader], j0 + p - 1).t>>]
      res == StoreLogs(f, batch, keys, FALSE)
  IN /\ Room /\ f # leader
     /\ Matches(f)
     /\ Has(st[leader], j0) /\ Has(st[leader], j0 + k - 1)
     /\ (~EmptyS(st[f]) => Has(st[leader], j0 - 1))     \* raft's prevLogIndex/prevLogTerm check needs the predecessor
     /\ (cor.p # 0 => /\ InFlight /\ bud.cor < MaxCorrupt /\ cor.p <= k /\ ValidAlt(src[cor.p], cor.f, cor.m))
     /\ (Eager /\ mw[f].vs = "idle" => NCps(batch) <= 1)
     /\ st' = [st EXCEPT ![f] = res.st] /\ tw' = [tw EXCEPT ![f] = res.tw] /\ mw' = [mw EXCEPT ![f] = res.mw]
     /\ bud' = [bud EXCEPT !.cor = @ + (IF cor.p # 0 THEN 1 ELSE 0)]
     /\ H([op |-> "repl", n |-> f, from |-> leader, first |-> j0, k |-> k,
           cp |-> cor.p, cf |-> cor.f, cm |-> cor.m, ok |-> res.ok])
     /\ UNCHANGED <<leader, term, rot, truth>>

ChangeLeader(n) ==
  /\ Room /\ n # leader /\ term < MaxTerm
  /\ leader' = n /\ term' = term + 1
  /\ H([op |-> "leader", n |-> n, term |-> term + 1])
  /\ UNCHANGED <<st, tw, mw, rot, truth, bud>>

(* DeleteRange(mn, mx) through the middleware; s2 = the store afterwards *)
Delete(n, mx, s2, t2) ==
  /\ st' = [st EXCEPT ![n] = s2]
  /\ tw' = [tw EXCEPT ![n] = t2]
  /\ mw' = IF NoReset \/ mx < mw[n].start THEN mw
           ELSE [mw EXCEPT ![n].sum = <<>>, ![n].start = 0]

(* the first index at which follower f conflicts with the leader: raft deletes [i, last] *)
TruncateTail(f, i) ==
  /\ Room /\ f # leader /\ bud.tt < MaxTT
  /\ mw[f].vs # "busy"                      \* ranges are not modified while their verification runs
  /\ Has(st[f], i) /\ Has(st[leader], i) /\ At(st[f], i).t # At(st[leader], i).t
  /\ \A j \in 1..(i - 1) : (Has(st[f], j) /\ Has(st[leader], j)) => At(st[f], j).t = At(st[leader], j).t
  /\ Delete(f, LastI(st[f]), DelTail(st[f], i), DelTail(tw[f], i))
  /\ bud' = [bud EXCEPT !.tt = @ + 1]
  /\ H([op |-> "trunctail", n |-> f, min |-> i, max |-> LastI(st[f])])
  /\ UNCHANGED <<leader, term, rot, truth>>

TruncateHead(n, i) ==
  /\ Room /\ bud.th < MaxTH
  /\ mw[n].vs # "busy"
  /\ Has(st[n], i)
  /\ Delete(n, i, DelHead(st[n], i), DelHead(tw[n], i))
  /\ bud' = [bud EXCEPT !.th = @ + 1]
  /\ H([op |-> "trunchead", n |-> n, min |-> FirstI(st[n]), max |-> i])
  /\ UNCHANGED <<leader, term, rot, truth>>

(* snapshot install on a follower with a monotonic store: every log is removed and the log  *)
(* continues after index j                                                                   *)
Snap(f, j) ==
  /\ Room /\ f # leader /\ bud.snap < MaxSnap
  /\ mw[f].vs # "busy"
  /\ j >= NextI(st[f]) /\ Has(st[leader], j)
  /\ IF EmptyS(st[f]) THEN UNCHANGED mw /\ st' = [st EXCEPT ![f] = [f |-> j + 1, c |-> <<>>]]
                                        /\ tw' = [tw EXCEPT ![f] = [f |-> j + 1, c |-> <<>>]]
     ELSE Delete(f, LastI(st[f]), [f |-> j + 1, c |-> <<>>], [f |-> j + 1, c |-> <<>>])
  /\ bud' = [bud EXCEPT !.snap = @ + 1]
  /\ H([op |-> "snap", n |-> f, to |-> j, first |-> FirstI(st[f]), last |-> LastI(st[f])])
  /\ UNCHANGED <<leader, term, rot, truth>>

Quiet(n) == mw[n].vs = "idle" /\ mw[n].ch = <<>>

(* the middleware is closed and re-created over the same store *)
Restart(n) ==
  /\ Room /\ bud.rs < MaxRestart /\ Quiet(n)
  /\ mw[n] # FreshMw
  /\ mw' = [mw EXCEPT ![n] = FreshMw]
  /\ bud' = [bud EXCEPT !.rs = @ + 1]
  /\ H([op |-> "restart", n |-> n])
  /\ UNCHANGED <<st, tw, leader, term, rot, truth>>

(* the store of node n starts returning entry i altered in one field *)
CorruptAtRest(n, i, f, m) ==
  /\ Room /\ AtRest /\ bud.cor < MaxCorrupt /\ rot.n = 0
  /\ Has(st[n], i) /\ ValidAlt(RecAt(st[n], i), f, m)
  /\ (f = "w" => Has(st[n], i + 1))
  /\ mw[n].vs # "busy"
  /\ rot' = [n |-> n, i |-> i, f |-> f, m |-> m]
  /\ bud' = [bud EXCEPT !.cor = @ + 1]
  /\ H([op |-> "rot", n |-> n, i |-> i, f |-> f, m |-> m])
  /\ UNCHANGED <<st, tw, mw, leader, term, truth>>

----------------------------------------------------------------------------
(* the verifier goroutine *)
Receive(m) == [m EXCEPT !.vs = "busy", !.cur = TakeRep(m.last, m.ch[1]), !.last = m.ch[1].e, !.ch = <<>>]
Return(m) == LET m1 == [m EXCEPT !.vs = "idle", !.cur = NoRep, !.cnt.ver = @ + 1] IN
             IF Eager /\ m1.ch # <<>> THEN Receive(m1) ELSE m1

VerifierTake(n) ==
  /\ Room /\ ~Eager
  /\ mw[n].vs = "idle" /\ mw[n].ch # <<>>
  /\ mw' = [mw EXCEPT ![n] = Receive(@)]
  /\ H([op |-> "take", n |-> n])
  /\ UNCHANGED <<st, tw, leader, term, rot, truth, bud>>

InRange(i, a, b) == i >= a /\ i < b

(* the ghost facts of a report at the moment verify() reads the store *)
Facts(n, r, err) ==
  LET hasT == r.tk \in DOMAIN truth
      T == IF hasT THEN truth[r.tk] ELSE [ok |-> FALSE, s |-> 0, e |-> 0, ents |-> <<>>, cp |-> Bogus]
      same == hasT /\ T.ok /\ T.s = r.s /\ T.e = r.e
      held == \A i \in r.s..(r.e - 1) : Has(st[n], i)
      exempt(i) == LET a == Read(n, i) b == T.ents[i - r.s + 1] IN
                   i = 1 /\ a.i = 1 /\ a.y = "cfg" /\ b.y = "cfg" /\ At(st[n], i).y = "cfg"   \* checksumLog's bootstrap exception
      cpok == Has(st[n], r.e) /\ RecAt(st[n], r.e) = T.cp                  \* the checkpoint entry itself arrived intact
      eq == same /\ held /\ cpok /\ \A i \in r.s..(r.e - 1) :      \* stored as the leader wrote it and read back unchanged
                 (RecAt(st[n], i) = T.ents[i - r.s + 1] /\ Read(n, i) = T.ents[i - r.s + 1]) \/ exempt(i)
      div == same /\ held /\ \E i \in r.s..(r.e - 1) : Read(n, i) # T.ents[i - r.s + 1] /\ ~exempt(i)
      wother == \/ ~hasT \/ ~T.ok
                \/ \E w \in mw[n].wrote : \/ (w.i = T.e /\ w # T.cp)
                                          \/ (InRange(w.i, T.s, T.e) /\ w # T.ents[w.i - T.s + 1])
      skok == \A p \in 1..Len(r.dr) : \A i \in r.dr[p][1]..(r.dr[p][2] - 1) :
                 \/ i >= r.s            \* in this report's range, or beyond it (the dropped checkpoint was truncated away)
                 \/ (r.sk # <<>> /\ InRange(i, r.sk[1], r.sk[2]))
  IN [s |-> r.s, e |-> r.e, err |-> err, sk |-> r.sk, ndr |-> Len(r.dr),
      eq |-> eq, lacks |-> ~held, div |-> div, wother |-> wother, skok |-> skok]

VerifierFinish(n) ==
  LET m == mw[n]
      err == Verify(n, m.cur)
      m1 == [m EXCEPT !.deliv = Append(@, Facts(n, m.cur, err)),
                      !.cnt.wfail = @ + (IF err = "inflight" THEN 1 ELSE 0),
                      !.cnt.rfail = @ + (IF err = "storage" THEN 1 ELSE 0)]
  IN /\ Room /\ m.vs = "busy"
     /\ mw' = [mw EXCEPT ![n] = IF m.gate THEN [m1 EXCEPT !.vs = "inrep"] ELSE Return(m1)]
     /\ H([op |-> "finish", n |-> n, s |-> m.cur.s, e |-> m.cur.e, err |-> err, sk |-> m.cur.sk])
     /\ UNCHANGED <<st, tw, leader, term, rot, truth, bud>>

ReportFnBlock(n) ==
  /\ Room /\ bud.blk < MaxBlock /\ ~mw[n].gate
  /\ mw' = [mw EXCEPT ![n].gate = TRUE]
  /\ bud' = [bud EXCEPT !.blk = @ + 1]
  /\ H([op |-> "block", n |-> n])
  /\ UNCHANGED <<st, tw, leader, term, rot, truth>>

ReportFnUnblock(n) ==
  /\ Room /\ mw[n].gate
  /\ mw' = [mw EXCEPT ![n] = IF @.vs = "inrep" THEN Return([@ EXCEPT !.gate = FALSE]) ELSE [@ EXCEPT !.gate = FALSE]]
  /\ H([op |-> "unblock", n |-> n])
  /\ UNCHANGED <<st, tw, leader, term, rot, truth, bud>>

----------------------------------------------------------------------------
(* the batches a leader may append in the current state (guards of LeaderAppend, hoisted) *)
KindsNow == {"a", "cp"} \cup (IF CfgAt1 /\ NextI(st[leader]) = 1 THEN {"cfg"} ELSE {})
                        \cup (IF bud.fo < MaxForeign THEN {"cpf"} ELSE {})
FirstKinds == KindsNow
LaterKinds == KindsNow \ {"cfg"}
BatchesNow == {<<x>> : x \in FirstKinds} \cup
              (IF MaxBatch >= 2 THEN {<<x, y>> : x \in FirstKinds, y \in LaterKinds} ELSE {}) \cup
              (IF MaxBatch >= 3 THEN {<<x, y, z>> : x \in FirstKinds, y \in LaterKinds, z \in LaterKinds} ELSE {})
FailNow == IF bud.fail < MaxFail THEN BOOLEAN ELSE {FALSE}
Cors == [p : 1..MaxBatch, f : Fields \ {"w"}, m : Alts]
CorsNow == {NoCor} \cup (IF InFlight /\ bud.cor < MaxCorrupt THEN Cors ELSE {})
AtRestNow == IF AtRest /\ bud.cor < MaxCorrupt /\ rot.n = 0 THEN Fields ELSE {}

Next ==
  \/ Boot
  \/ \E ks \in BatchesNow, fail \in FailNow : LeaderAppend(ks, fail)
  \/ \E f \in Nodes \ {leader}, k \in 1..MaxBatch, cor \in CorsNow : Replicate(f, k, cor)
  \/ \E n \in Nodes : ChangeLeader(n)
  \/ (bud.tt < MaxTT /\ \E f \in Nodes \ {leader}, i \in 1..MaxIdx : TruncateTail(f, i))
  \/ (bud.th < MaxTH /\ \E n \in Nodes, i \in 1..MaxIdx : TruncateHead(n, i))
  \/ (bud.snap < MaxSnap /\ \E f \in Nodes \ {leader}, j \in 1..MaxIdx : Snap(f, j))
  \/ \E n \in Nodes : Restart(n)
  \/ \E f \in AtRestNow, n \in Nodes, i \in 1..MaxIdx, m \in Alts : CorruptAtRest(n, i, f, m)
  \/ \E n \in Nodes : VerifierTake(n)
  \/ \E n \in Nodes : VerifierFinish(n)
  \/ \E n \in Nodes : ReportFnBlock(n)
  \/ \E n \in Nodes : ReportFnUnblock(n)

Spec == Init /\ [][Next]_vars

----------------------------------------------------------------------------
(* The properties, over the delivered reports *)
Deliv(n) == mw[n].deliv
AllDeliv == UNION {{<<n, k>> : k \in 1..Len(Deliv(n))} : n \in Nodes}
Mismatch == {"inflight", "storage"}

(* C16: no false alarm; a node lacking part of the range says range mismatch *)
C16_NoFalseAlarm == \A x \in AllDeliv : LET r == Deliv(x[1])[x[2]] IN r.eq => r.err \notin Mismatch
C16_LacksIsRange == \A x \in AllDeliv : LET r == Deliv(x[1])[x[2]] IN r.lacks => r.err = "range"
C16_LacksNotCorruption == \A x \in AllDeliv : LET r == Deliv(x[1])[x[2]] IN r.lacks => r.err \notin Mismatch
(* C17: every divergence inside a fully held range is reported; blame *)
C17_Detects == \A x \in AllDeliv : LET r == Deliv(x[1])[x[2]] IN r.div => r.err \in Mismatch
C17_Blame == TrackWrote => \A x \in AllDeliv : LET r == Deliv(x[1])[x[2]] IN r.err = "inflight" => r.wother
(* C18 *)
Same(a, b) == /\ a.t = b.t /\ a.y = b.y /\ a.d = b.d
              /\ (a.e = b.e \/ (IsCP(Rec(0, b)) /\ b.e.k = "none" /\ a.e.k = "meta"))
C18a_PassThrough == \A n \in Nodes : /\ st[n].f = tw[n].f /\ Len(st[n].c) = Len(tw[n].c)
                                     /\ \A p \in 1..Len(st[n].c) : Same(st[n].c[p], tw[n].c[p])
C18c_Accounting == \A n \in Nodes : Quiet(n) => mw[n].cnt.cpw = Len(Deliv(n)) + mw[n].cnt.drop
                                                /\ mw[n].cnt.ver = Len(Deliv(n))
C18c_Bound == \A n \in Nodes : mw[n].cnt.cpw = Len(Deliv(n)) + mw[n].cnt.drop + Len(mw[n].ch)
                                               + (IF mw[n].vs = "busy" THEN 1 ELSE 0)
C18d_SkippedNamed == \A x \in AllDeliv : Deliv(x[1])[x[2]].skok

TypeOK == /\ \A n \in Nodes : /\ Len(mw[n].ch) <= 1 /\ mw[n].vs \in {"idle", "busy", "inrep"}
                              /\ (mw[n].vs = "idle" <=> mw[n].cur = NoRep)
                              /\ (Eager => ~(mw[n].vs = "idle" /\ mw[n].ch # <<>>))
          /\ leader \in Nodes /\ term \in 1..MaxTerm

(* Output channels.  Violations are printed and recorded, TLC keeps going: one run yields   *)
(* every counterexample state's scenario.                                                    *)
Cex(name, ok) == IF ok THEN TRUE ELSE PrintT(<<"CEX", ToJson([inv |-> name, bug |-> bug, h |-> hist])>>)
EmitCex == /\ ("C16" \in Props => /\ Cex("C16_NoFalseAlarm", C16_NoFalseAlarm)
                                  /\ Cex("C16_LacksIsRange", C16_LacksIsRange)
                                  /\ Cex("C16_LacksNotCorruption", C16_LacksNotCorruption))
           /\ ("C17" \in Props => /\ Cex("C17_Detects", C17_Detects)
                                  /\ Cex("C17_Blame", C17_Blame))
           /\ ("C18" \in Props => /\ Cex("C18a_PassThrough", C18a_PassThrough)
                                  /\ Cex("C18c_Accounting", C18c_Accounting)
                                  /\ Cex("C18c_Bound", C18c_Bound)
                                  /\ Cex("C18d_SkippedNamed", C18d_SkippedNamed))
Emit == Len(hist) = MaxSteps => PrintT(<<"SCEN", ToJson(hist)>>)

(* behaviours that just delivered a report in which an antecedent of a property is true *)
JustDelivered == hist # <<>> /\ hist[Len(hist)].op \in {"finish"}
LastFacts == LET n == hist[Len(hist)].n IN Deliv(n)[Len(Deliv(n))]
Tags(r, n) == (IF r.eq /\ (bud.tt + bud.th + bud.snap + bud.rs > 0 \/ term > 1) THEN {"eq"} ELSE {})
         \cup (IF r.lacks THEN {"lacks"} ELSE {})
         \cup (IF r.div THEN {"div"} ELSE {})
         \cup (IF r.err = "inflight" THEN {"inflight"} ELSE {})
         \cup (IF r.ndr > 0 THEN {"afterdrop"} ELSE {})
         \cup (IF r.ndr > 0 /\ mw[n].bdrop > 1 THEN {"batchdrop"} ELSE {})      \* one batch lost two or more reports
         \* ... the drop came right after a report that ended in an error (the bookkeeping of "what was verified last" must
         \* advance over an unverifiable range too, or the dropped range is never named)
         \cup (IF r.ndr > 0 /\ Len(Deliv(n)) >= 2 /\ Deliv(n)[Len(Deliv(n)) - 1].err # "ok" THEN {"droperr"} ELSE {})
         \cup (IF mw[n].sblk > 0 THEN {"blockedstore"} ELSE {})
         \cup (IF bud.fo + bud.fail > 0 THEN {"refused"} ELSE {})
EmitInt == (EmitEvery > 0 /\ JustDelivered /\ Len(Deliv(hist[Len(hist)].n)) > 0)
             => LET tg == Tags(LastFacts, hist[Len(hist)].n) IN
                (tg # {} /\ RandomElement(1..EmitEvery) = 1) => PrintT(<<"INT", ToJson([tags |-> tg, bug |-> bug, h |-> hist])>>)

=============================================================================
