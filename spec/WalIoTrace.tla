------------------------------ MODULE WalIoTrace ------------------------------
(***************************************************************************)
(* Binding of spec/WalImpl.tla's I/O ordering to the real code: validates  *)
(* the VFS / MetaStore call sequence recorded from the real WAL (the same  *)
(* io.ndjson that DiskTrace expands) against the order WalImpl's actions   *)
(* prescribe:                                                              *)
(*   IdBeforeFile   a segment file is only created when the committed      *)
(*                  metadata already lists its id (mutateStateLocked:      *)
(*                  CommitState before postCommit; Open: commit before     *)
(*                  create; re-creation of a listed but missing tail)      *)
(*   UnlinkAfterCommit  a segment file is only unlinked when the committed *)
(*                  metadata no longer lists it (truncation finalizers,    *)
(*                  orphan sweep)                                          *)
(*   NextAboveIds   NextSegmentID of a committed state is above every id   *)
(*                  it lists, and never decreases                          *)
(*   AckSynced      when StoreLogs returns, every write it made has been   *)
(*                  followed by a Sync of that file                        *)
(* Violations are recorded with the trace line (same idiom as WalJudge).   *)
(***************************************************************************)
EXTENDS Integers, Sequences, FiniteSets, TLC, Json

CONSTANTS TraceFile
Trace == ndJsonDeserialize(TraceFile)

VARIABLES l, listed, next, dirty, inop, viol, ncalls

vars == <<l, listed, next, dirty, inop, viol, ncalls>>

Ev == Trace[l]
V(c) == viol' = viol \cup {[line |-> l, clause |-> c]}
ToSet(sq) == {sq[j] : j \in 1..Len(sq)}

Init == l = 1 /\ listed = {} /\ next = 0 /\ dirty = {} /\ inop = "none" /\ viol = {} /\ ncalls = 0

Step ==
  /\ l <= Len(Trace) /\ l' = l + 1
  /\ IF Ev.ev = "reset" THEN
        \* a new run: nested runs (after a crash image) start from unknown metadata -> learn it at the first commit
        /\ listed' = {-1} /\ next' = 0 /\ dirty' = {} /\ inop' = "none" /\ UNCHANGED <<viol, ncalls>>
     ELSE IF Ev.ev # "io" THEN UNCHANGED <<listed, next, dirty, inop, viol, ncalls>>
     ELSE /\ ncalls' = ncalls + 1
          /\ CASE Ev.call = "mcommit" /\ Ev.res = "ok" ->
                    /\ listed' = ToSet(Ev.ids) /\ next' = Ev.next /\ UNCHANGED <<dirty, inop>>
                    /\ IF \E i \in ToSet(Ev.ids) : i >= Ev.next THEN V("NextAboveIds")
                       ELSE IF Ev.next < next THEN V("NextDecreased") ELSE UNCHANGED viol
               [] Ev.call = "create" /\ Ev.res = "ok" ->
                    /\ UNCHANGED <<listed, next, dirty, inop>>
                    /\ IF -1 \in listed \/ Ev.id \in listed THEN UNCHANGED viol ELSE V("IdBeforeFile")
               [] Ev.call = "unlink" /\ Ev.res = "ok" ->
                    /\ UNCHANGED <<listed, next, dirty, inop>>
                    /\ IF -1 \in listed \/ Ev.id \notin listed THEN UNCHANGED viol ELSE V("UnlinkAfterCommit")
               [] Ev.call = "write" /\ Ev.res = "ok" -> /\ dirty' = dirty \cup {Ev.id} /\ UNCHANGED <<listed, next, inop, viol>>
               [] Ev.call = "sync" /\ Ev.res = "ok" -> /\ dirty' = dirty \ {Ev.id} /\ UNCHANGED <<listed, next, inop, viol>>
               [] Ev.call = "inv" -> /\ inop' = Ev.opk /\ UNCHANGED <<listed, next, dirty, viol>>
               [] Ev.call = "ret" -> /\ inop' = "none" /\ UNCHANGED <<listed, next, dirty>>
                                     /\ IF inop = "store" /\ dirty # {} THEN V("AckSynced") ELSE UNCHANGED viol
               [] OTHER -> UNCHANGED <<listed, next, dirty, inop, viol>>

Finish == /\ l = Len(Trace) + 1 /\ PrintT(<<"VIOL", ToJson([v |-> viol, nobs |-> ncalls])>>) /\ l' = l + 1
          /\ UNCHANGED <<listed, next, dirty, inop, viol, ncalls>>

Next == Step \/ Finish
Spec == Init /\ [][Next]_vars
Accepted == TLCGet("stats").diameter = Len(Trace) + 2
=============================================================================
