----------------------------- MODULE FsDiscipline -----------------------------
(***************************************************************************)
(* What the production fs/ and metadb/ packages owe the crash model the    *)
(* rest of the suite relies on (DESIGN.md 2.6, property C07).              *)
(*                                                                         *)
(* Part 1 - the syscall-level model.  State: one directory; per path the   *)
(* bytes written since the last fsync of that file (dirty), whether its    *)
(* directory entry is durable (dirDur: set by an fsync of the directory    *)
(* after the creating openat / rename), whether it was created with        *)
(* O_CREAT|O_EXCL, its preallocated size; the pending (not yet fsynced)    *)
(* directory operations; the API call window in progress.  One action per  *)
(* system call (OpenCreat/OpenCreatExcl, Fallocate, FTruncate, PWrite,     *)
(* FSyncFile, FSyncDir, Unlink, Rename) and per API marker (Inv, Ack, Obs).*)
(* The clauses of C07 are evaluated by the actions themselves: `nv` holds  *)
(* the violations raised by the last step.  FsDisciplineTrace drives these *)
(* actions with the system calls strace recorded from the real code.       *)
(*                                                                         *)
(* Part 2 - a small design model: a client that performs the VFS           *)
(* operations Create / WriteAt+Sync / Delete / Close+Open and the metadata *)
(* database initialisation as the syscall sequences fs.go, file.go and     *)
(* metadb.go issue them (knobs switch single steps off).  TLC checks       *)
(* exhaustively that (a) the C07 clauses hold at every Ack and (b) the     *)
(* discipline is SUFFICIENT for the crash contract spec/DiskTrace.tla and  *)
(* harness/sim assume: every crash image of the syscall-level state (any   *)
(* subset of pending directory operations and un-fsynced bytes lost)       *)
(* contains what the VFS contract promised when Sync / Delete returned.    *)
(***************************************************************************)
EXTENDS Integers, Sequences, FiniteSets, TLC

CONSTANTS DFiles,               \* design model: segment file names
          MaxWrites, MaxOps,    \* design model: bounds
          DirSyncOnFirstSync,   \* fs/file.go   File.Sync fsyncs the directory the first time
          DirSyncOnDelete,      \* fs/fs.go     Delete = unlink + syncDir
          FileSyncOnStore,      \* segment/writer.go sync() calls wf.Sync()
          UseExcl, Prealloc,    \* fs/fs.go     Create = O_CREATE|O_EXCL + Preallocate
          SyncBeforeRename,     \* metadb.go    tmp db committed (fdatasync) before rename
          CompleteBeforeRename, \* metadb.go    every write of the initialisation precedes the rename
          DirSyncAfterRename,   \* metadb.go    safeInitBoltDB fsyncs the directory after rename
          TrustLeftoverTmp,     \* (deviation) a leftover wal-meta.db.tmp that looks complete is renamed as it is
          BUG_ReopenLosesNew    \* pinned code: fs.OpenWriter returns a plain *os.File, so a segment
                                \* created by an earlier Open never gets its directory fsync

VARIABLES files,   \* name -> file record (files visible in the directory)
          dirp,    \* pending directory operations: set of [k, name]
          win,     \* API call window
          gen,     \* number of Open calls so far (incarnation)
          req,     \* segment size requested for this workload
          fresh,   \* segment files created and not yet checked for preallocation
          nv,      \* violations raised by the last step
          cl       \* design model: client state (unused by the trace spec)

cvars == <<files, dirp, win, gen, req, fresh, nv>>

MetaName == "wal-meta.db"
MetaTmp  == "wal-meta.db.tmp"

Put(f, k, v) == [x \in DOMAIN f \cup {k} |-> IF x = k THEN v ELSE f[x]]
Drop(f, ks)  == [x \in DOMAIN f \ ks |-> f[x]]
Max(a, b) == IF a > b THEN a ELSE b

NoWin == [op |-> "none", n |-> 0, written |-> {}, unlinked |-> {}, nmut |-> 0, open |-> FALSE]
Touch(w) == [w EXCEPT !.nmut = @ + 1]
InHarness == win.open /\ win.op = "harness"      \* file operations of the test driver itself

Handle(name) == IF name \in DOMAIN files THEN (IF files[name].gen < gen THEN "reopened" ELSE "fresh") ELSE "none"
Viol(clause, why, name) == [clause |-> clause, why |-> why, name |-> name, op |-> win.op, n |-> win.n,
                            handle |-> Handle(name)]

CoreInit == /\ files = <<>> /\ dirp = {} /\ win = NoWin /\ gen = 0 /\ req = 0 /\ fresh = {} /\ nv = {}

----------------------------------------------------------------------------
(* system calls *)

(* openat(O_CREAT [|O_EXCL]) that succeeded.  Without O_EXCL it only creates *)
(* when the name is not there yet.                                          *)
OpenCreat(name, kind, excl) ==
  LET isnew == name \notin DOMAIN files
      \* a temporary database planted by the driver stands for the remains of an initialisation that was killed:
      \* whatever it holds is not known to be durable (dirty) until somebody fsyncs it outside the harness window
      rec == [kind |-> kind, dirty |-> IF InHarness /\ kind = "metatmp" THEN 1 ELSE 0,
              ext |-> 0, tot |-> IF InHarness /\ kind = "metatmp" THEN 1 ELSE 0, dirDur |-> FALSE, excl |-> excl,
              prealloc |-> IF InHarness THEN req ELSE -1, gen |-> gen, extern |-> InHarness]
  IN /\ files' = IF isnew THEN Put(files, name, rec) ELSE files
     /\ dirp' = IF isnew THEN dirp \cup {[k |-> "create", name |-> name]} ELSE dirp
     /\ fresh' = IF isnew /\ kind = "seg" /\ ~InHarness THEN fresh \cup {name} ELSE fresh
     /\ win' = IF isnew THEN Touch(win) ELSE win
     /\ nv' = IF ~isnew \/ InHarness THEN {}
              ELSE IF kind = "seg" /\ ~excl THEN {Viol("C07_CreateExcl", "no_excl", name)}
              ELSE IF kind = "meta" THEN {Viol("C07_MetaInit", "created_under_final_name", name)}
              ELSE {}
     /\ UNCHANGED <<gen, req>>

OpenCreatExcl(name, kind) == OpenCreat(name, kind, TRUE)

(* fallocate(fd, mode, off, len): mode 0 from offset 0 extends the file with zeros *)
Fallocate(name, mode, off, len) ==
  /\ files' = IF name \in DOMAIN files /\ mode = 0 /\ off = 0
              THEN [files EXCEPT ![name].prealloc = len] ELSE files
  /\ win' = Touch(win) /\ nv' = {}
  /\ UNCHANGED <<dirp, gen, req, fresh>>

(* ftruncate: the fallback of fileutil.Preallocate, and bbolt growing its file *)
FTruncate(name, len) ==
  /\ files' = IF name \in DOMAIN files /\ ~InHarness
              THEN [files EXCEPT ![name].prealloc = len, ![name].dirty = @ + 1] ELSE files
  /\ win' = Touch(win) /\ nv' = {}
  /\ UNCHANGED <<dirp, gen, req, fresh>>

(* pwrite64/write through a descriptor that was opened under a name of kind `via` *)
PWrite(name, off, len, via) ==
  LET live == name \in DOMAIN files /\ ~InHarness IN
  /\ files' = IF live THEN [files EXCEPT ![name].dirty = @ + len, ![name].tot = @ + len,
                                         ![name].ext = Max(@, off + len)]
              ELSE files
  /\ win' = IF live THEN [Touch(win) EXCEPT !.written = @ \cup {name}] ELSE win
  /\ nv' = IF ~live THEN {}
           ELSE    (IF name \in fresh /\ files[name].prealloc = -1
                    THEN {Viol("C07_CreateExcl", "write_before_prealloc", name)} ELSE {})
              \* the handle of the temporary database is still being written after the rename:
              \* the database appeared under its final name before it was complete
              \cup (IF files[name].kind = "meta" /\ via = "metatmp"
                    THEN {Viol("C07_MetaInit", "tmp_handle_written_after_rename", name)} ELSE {})
  /\ UNCHANGED <<dirp, gen, req, fresh>>

(* fsync / fdatasync of a regular file *)
FSyncFile(name) ==
  /\ files' = IF name \in DOMAIN files /\ ~InHarness THEN [files EXCEPT ![name].dirty = 0] ELSE files
  /\ nv' = {}
  /\ UNCHANGED <<dirp, win, gen, req, fresh>>

(* fsync of the directory: every pending directory operation becomes durable *)
FSyncDir ==
  /\ files' = [x \in DOMAIN files |->
                 IF \E d \in dirp : d.name = x /\ d.k \in {"create", "rename"}
                 THEN [files[x] EXCEPT !.dirDur = TRUE] ELSE files[x]]
  /\ dirp' = {}
  /\ nv' = {}
  /\ UNCHANGED <<win, gen, req, fresh>>

Unlink(name) ==
  LET live == name \in DOMAIN files IN
  /\ files' = IF live THEN Drop(files, {name}) ELSE files
  /\ dirp' = IF live THEN dirp \cup {[k |-> "unlink", name |-> name]} ELSE dirp
  /\ win' = IF live THEN [Touch(win) EXCEPT !.unlinked = @ \cup (IF files[name].kind = "seg" THEN {name} ELSE {})]
            ELSE win
  /\ fresh' = fresh \ {name}
  /\ nv' = {}
  /\ UNCHANGED <<gen, req>>

Rename(from, to, tkind) ==
  LET live == from \in DOMAIN files IN
  /\ files' = IF live THEN Put(Drop(files, {from}), to, [files[from] EXCEPT !.kind = tkind, !.dirDur = FALSE])
              ELSE files
  /\ dirp' = IF live THEN dirp \cup {[k |-> "rename", name |-> to]} ELSE dirp
  /\ win' = Touch(win)
  /\ nv' = IF ~live \/ tkind # "meta" THEN {}
           ELSE IF files[from].kind # "metatmp" THEN {Viol("C07_MetaInit", "renamed_from_unexpected_name", from)}
           ELSE IF files[from].dirty > 0 THEN {Viol("C07_MetaInit", "renamed_before_sync", from)}
           ELSE {}
  /\ UNCHANGED <<gen, req, fresh>>

----------------------------------------------------------------------------
(* API markers and the clauses of C07 *)

Inv(op, n) ==
  /\ win' = [op |-> op, n |-> n, written |-> {}, unlinked |-> {}, nmut |-> 0, open |-> TRUE]
  /\ gen' = IF op = "open" THEN gen + 1 ELSE gen
  /\ nv' = {}
  /\ UNCHANGED <<files, dirp, req, fresh>>

IsSeg(p) == p \in DOMAIN files /\ files[p].kind = "seg"

(* C07_AckClean: StoreLogs returned nil => every segment file written since its Inv *)
(* has no un-fsynced byte and a durable directory entry                              *)
AckCleanViols ==
  UNION {   (IF files[p].dirty > 0 THEN {Viol("C07_AckClean", "unsynced_bytes", p)} ELSE {})
       \cup (IF ~files[p].dirDur THEN {Viol("C07_AckClean", "dir_entry_not_durable", p)} ELSE {})
       : p \in {q \in win.written : IsSeg(q)} }

(* C07_DeleteSynced: every unlink of a segment since Inv was followed by fsync(dir) *)
DeleteSyncedViols ==
  {Viol("C07_DeleteSynced", "unlink_not_dirsynced", p) : p \in {q \in win.unlinked : [k |-> "unlink", name |-> q] \in dirp}}

(* C07_CreateExcl (size part): a created segment was preallocated to the requested   *)
(* size.  A rotation may still be running on its own thread when StoreLogs returns, *)
(* so Ack(store) defers the check to the next Ack (the drivers follow every store    *)
(* with a barrier call that waits for the rotation).                                 *)
PreallocViols ==
  {Viol("C07_CreateExcl", IF files[p].prealloc = -1 THEN "not_preallocated" ELSE "wrong_size", p)
     : p \in {q \in fresh : IsSeg(q) /\ files[q].prealloc # req}}

(* C07_MetaInit (last part): the rename into the final name is followed by fsync(dir) *)
(* before Open returns                                                                *)
MetaInitViols ==
  IF MetaName \in DOMAIN files /\ ~files[MetaName].dirDur
  THEN {Viol("C07_MetaInit", "rename_not_dirsynced", MetaName)} ELSE {}

AckViols(op, res) ==
       \* also at the Ack of a DeleteRange: a tail truncation writes the forced seal (index + commit) into
       \* the old tail, which metadata then calls sealed - "every code path that ... seals" (C07 quantifier)
       (IF op \in {"store", "delete"} /\ res = "ok" THEN AckCleanViols ELSE {})
  \cup (IF res = "ok" THEN DeleteSyncedViols ELSE {})
  \cup (IF op # "store" THEN PreallocViols ELSE {})
  \cup (IF op = "open" /\ res = "ok" THEN MetaInitViols ELSE {})

Ack(op, n, res) ==
  /\ nv' = AckViols(op, res)
  /\ win' = [win EXCEPT !.open = FALSE]
  /\ fresh' = IF op = "store" THEN fresh ELSE {}
  /\ UNCHANGED <<files, dirp, gen, req>>

(* the driver looked at a segment file it had not seen before: size and the end *)
(* offset of its last non-zero byte.  The size is the requested one unless the  *)
(* code has already written beyond it (an entry larger than the segment), and   *)
(* nothing but what the code wrote may be non-zero.                             *)
Obs(name, size, nz) ==
  /\ nv' = IF name \in DOMAIN files /\ ~files[name].extern
           THEN    (IF size # Max(req, files[name].ext) THEN {Viol("C07_CreateExcl", "observed_size_differs", name)} ELSE {})
              \cup (IF nz > files[name].ext THEN {Viol("C07_CreateExcl", "observed_not_zero", name)} ELSE {})
           ELSE {}
  /\ UNCHANGED <<files, dirp, win, gen, req, fresh>>

(* the clauses as state predicates over `nv` (invariants of the design model) *)
C07_AckClean     == \A v \in nv : v.clause # "C07_AckClean"
C07_DeleteSynced == \A v \in nv : v.clause # "C07_DeleteSynced"
C07_CreateExcl   == \A v \in nv : v.clause # "C07_CreateExcl"
C07_MetaInit     == \A v \in nv : v.clause # "C07_MetaInit"

----------------------------------------------------------------------------
(* Part 2: design model *)

DReq == 4        \* requested segment size of the design model

(* micro operations of the client: system calls and markers, in program order *)
M(sc, f, op) == [sc |-> sc, f |-> f, op |-> op]

NoProm == [present |-> FALSE, bytes |-> 0, absent |-> FALSE]

DInit ==
  /\ files = <<>> /\ dirp = {} /\ win = NoWin /\ gen = 0 /\ req = DReq /\ fresh = {} /\ nv = {}
  /\ cl = [pc |-> <<>>, h |-> [f \in DFiles |-> "none"], nw |-> 0, nops |-> 0, isopen |-> FALSE,
           prom |-> [f \in DFiles |-> [NoProm EXCEPT !.absent = TRUE]], metaprom |-> FALSE]

Idle == cl.pc = <<>> /\ cl.nops < MaxOps

Begin(ms, h2) == cl' = [cl EXCEPT !.pc = ms, !.h = h2, !.nops = @ + 1]

(* metadb.BoltMetaDB.Load on a directory without a database: safeInitBoltDB *)
MetaInitSeq ==
  (IF MetaTmp \in DOMAIN files /\ TrustLeftoverTmp THEN <<>>       \* "only the rename was missing"
   ELSE (IF MetaTmp \in DOMAIN files THEN <<M("unlink", MetaTmp, "")>> ELSE <<>>)       \* os.RemoveAll(tmp)
        \o <<M("creat", MetaTmp, "metatmp"), M("pwrite", MetaTmp, "metatmp")>>
        \o (IF SyncBeforeRename THEN <<M("fsync", MetaTmp, "")>> ELSE <<>>))
  \o <<M("rename", MetaTmp, MetaName)>>
  \o (IF CompleteBeforeRename THEN <<>> ELSE <<M("pwrite", MetaName, "metatmp"), M("fsync", MetaName, "")>>)
  \o (IF DirSyncAfterRename THEN <<M("fsyncdir", "", "")>> ELSE <<>>)

(* wal.Open: load/initialise the metadata, reopen the existing segment files *)
DOpen ==
  /\ Idle /\ ~cl.isopen
  /\ cl' = [cl EXCEPT
       !.pc = <<M("inv", "", "open")>> \o (IF MetaName \in DOMAIN files THEN <<>> ELSE MetaInitSeq)
              \o <<M("ack", "", "open")>>,
       !.h = [f \in DFiles |-> IF f \notin DOMAIN files THEN "none"
                               ELSE IF BUG_ReopenLosesNew THEN "plain" ELSE "new0"],
       !.nops = @ + 1, !.isopen = TRUE]
  /\ UNCHANGED cvars

(* an earlier process was killed inside safeInitBoltDB: a temporary database is lying around *)
DLeftover ==
  /\ Idle /\ ~cl.isopen /\ gen = 0 /\ MetaName \notin DOMAIN files /\ MetaTmp \notin DOMAIN files
  /\ files' = Put(files, MetaTmp, [kind |-> "metatmp", dirty |-> 1, ext |-> 1, tot |-> 1, dirDur |-> FALSE, excl |-> FALSE,
                                   prealloc |-> -1, gen |-> 0, extern |-> TRUE])
  /\ dirp' = dirp \cup {[k |-> "create", name |-> MetaTmp]}
  /\ nv' = {}
  /\ cl' = [cl EXCEPT !.nops = @ + 1]
  /\ UNCHANGED <<win, gen, req, fresh>>

DClose ==
  /\ Idle /\ cl.isopen
  /\ cl' = [cl EXCEPT !.isopen = FALSE, !.nops = @ + 1, !.h = [f \in DFiles |-> "none"]]
  /\ UNCHANGED cvars

(* fs.Create as used by Open / rotation / truncation: no fsync at all *)
DCreate(f) ==
  /\ Idle /\ cl.isopen /\ f \notin DOMAIN files /\ [k |-> "unlink", name |-> f] \notin dirp
  /\ Begin(<<M("inv", f, "create"), M(IF UseExcl THEN "creatx" ELSE "creat", f, "seg")>>
           \o (IF Prealloc THEN <<M("falloc", f, "")>> ELSE <<>>)
           \o <<M("ack", f, "create")>>,
           [cl.h EXCEPT ![f] = "new0"])
  /\ UNCHANGED cvars

(* StoreLogs on segment f: WriteAt, Sync (= fsync(file), first time also fsync(dir)) *)
DStore(f) ==
  /\ Idle /\ cl.isopen /\ cl.h[f] # "none" /\ cl.nw < MaxWrites
  /\ cl' = [cl EXCEPT
       !.pc = <<M("inv", f, "store"), M("pwrite", f, "seg")>>
              \o (IF FileSyncOnStore THEN <<M("fsync", f, "")>> ELSE <<>>)
              \o (IF cl.h[f] = "new0" /\ DirSyncOnFirstSync THEN <<M("fsyncdir", "", "")>> ELSE <<>>)
              \o <<M("ack", f, "store")>>,
       !.h = [@ EXCEPT ![f] = IF @ = "new0" THEN "new1" ELSE @],
       !.nw = @ + 1, !.nops = @ + 1]
  /\ UNCHANGED cvars

(* fs.Delete: unlink + syncDir *)
DDelete(f) ==
  /\ Idle /\ cl.isopen /\ cl.h[f] # "none"
  /\ Begin(<<M("inv", f, "delete"), M("unlink", f, "")>>
           \o (IF DirSyncOnDelete THEN <<M("fsyncdir", "", "")>> ELSE <<>>)
           \o <<M("ack", f, "delete")>>,
           [cl.h EXCEPT ![f] = "none"])
  /\ UNCHANGED cvars

(* What the VFS contract (spec/DiskTrace.tla, harness/sim) promises on return:      *)
(*  Sync of a file returned by Create: directory entry and content durable;         *)
(*  Sync of a file returned by OpenWriter: content durable (entry: as it was);       *)
(*  Delete: the file is gone for good.  While an operation is in flight nothing is  *)
(*  promised about the parts it changes.                                            *)
PromInv(m) ==
  IF m.op = "delete" THEN [cl.prom EXCEPT ![m.f] = NoProm]
  ELSE IF m.op = "create" THEN [cl.prom EXCEPT ![m.f] = NoProm]
  ELSE cl.prom
PromAck(m, hkind) ==
  IF m.op = "store"
  THEN [cl.prom EXCEPT ![m.f] = [present |-> (@.present \/ hkind \in {"new0", "new1"}),
                                 bytes |-> files[m.f].tot, absent |-> FALSE]]
  ELSE IF m.op = "delete" THEN [cl.prom EXCEPT ![m.f] = [NoProm EXCEPT !.absent = TRUE]]
  ELSE cl.prom

DStep ==
  /\ cl.pc # <<>>
  /\ LET m == Head(cl.pc)
         rest == [cl EXCEPT !.pc = Tail(@)]
     IN CASE m.sc = "inv"      -> /\ Inv(m.op, cl.nops) /\ cl' = [rest EXCEPT !.prom = PromInv(m)]
          [] m.sc = "ack"      -> /\ Ack(m.op, cl.nops, "ok")
                                  /\ cl' = [rest EXCEPT !.prom = PromAck(m, cl.h[m.f]),
                                                        !.metaprom = (@ \/ m.op = "open")]
          [] m.sc = "creatx"   -> OpenCreatExcl(m.f, m.op) /\ cl' = rest
          [] m.sc = "creat"    -> OpenCreat(m.f, m.op, FALSE) /\ cl' = rest
          [] m.sc = "falloc"   -> Fallocate(m.f, 0, 0, DReq) /\ cl' = rest
          [] m.sc = "pwrite"   -> PWrite(m.f, IF m.f \in DOMAIN files THEN files[m.f].tot ELSE 0, 1, m.op) /\ cl' = rest
          [] m.sc = "fsync"    -> FSyncFile(m.f) /\ cl' = rest
          [] m.sc = "fsyncdir" -> FSyncDir /\ cl' = rest
          [] m.sc = "unlink"   -> Unlink(m.f) /\ cl' = rest
          [] m.sc = "rename"   -> Rename(m.f, m.op, "meta") /\ cl' = rest

DNext == \/ DOpen \/ DClose \/ DStep \/ DLeftover
         \/ \E f \in DFiles : DCreate(f) \/ DStore(f) \/ DDelete(f)

Spec == DInit /\ [][DNext]_<<cvars, cl>>

----------------------------------------------------------------------------
(* Crash images of the syscall-level state: a power loss keeps any subset of the  *)
(* pending directory operations and any prefix of the un-fsynced bytes.           *)
Names == DFiles \cup {MetaName}
PresentChoices(f) ==
  IF f \in DOMAIN files
  THEN (IF files[f].dirDur THEN {TRUE} ELSE {TRUE, FALSE})
  ELSE (IF [k |-> "unlink", name |-> f] \in dirp THEN {TRUE, FALSE} ELSE {FALSE})
BytesChoices(f) ==
  IF f \in DOMAIN files THEN (files[f].tot - files[f].dirty)..files[f].tot ELSE {0}
FileImages(f) == {[present |-> p, bytes |-> b] : p \in PresentChoices(f), b \in BytesChoices(f)}
RECURSIVE ProdImg(_)
ProdImg(S) == IF S = {} THEN {<<>>}
              ELSE LET x == CHOOSE y \in S : TRUE IN
                   {Put(g, x, c) : g \in ProdImg(S \ {x}), c \in FileImages(x)}
CrashImages == ProdImg(Names)

(* the discipline is sufficient for the contract: every crash image honours every promise *)
Sufficient ==
  \A img \in CrashImages :
    /\ \A f \in DFiles :
         /\ cl.prom[f].present => (img[f].present /\ img[f].bytes >= cl.prom[f].bytes)
         /\ cl.prom[f].absent => ~img[f].present
    \* the metadata database is never visible under its final name with unwritten parts
    \* while it is being initialised, and survives once Open has returned
    /\ (img[MetaName].present /\ MetaName \in DOMAIN files /\ win.op = "open" /\ win.open)
          => img[MetaName].bytes = files[MetaName].tot
    /\ cl.metaprom => img[MetaName].present

TypeOK ==
  /\ \A f \in DOMAIN files : files[f].dirty >= 0 /\ files[f].dirty <= files[f].tot + 1
  /\ \A d \in dirp : d.k \in {"create", "unlink", "rename"}
  /\ \A f \in DOMAIN files : files[f].dirDur => ~\E d \in dirp : d.name = f /\ d.k \in {"create", "rename"}
=============================================================================
