------------------------------ MODULE ConcJudge ------------------------------
(***************************************************************************)
(* LinTrace of DESIGN.md 5 (C06, C14): judges histories recorded from the  *)
(* real WAL running a writer, readers, a StableStore client and Close      *)
(* concurrently (harness/cmd/concdrive), both under TLC-forced schedules   *)
(* (spec/WalConc.tla) and free-running.                                    *)
(*                                                                         *)
(* The writer is sequential, so the log states form a sequence: hist[k+1]  *)
(* is the contract state (LogOps) after the writer's first k calls.  Every *)
(* read carries a sound over-approximation [from, to] of the states that   *)
(* were current while it ran (number of writer calls finished before it    *)
(* started / started before it returned).  A read is justified iff its     *)
(* result is the model's answer in one of those states.                    *)
(***************************************************************************)
EXTENDS Integers, Sequences, FiniteSets, TLC, Json, LogOps

CONSTANTS TraceFile
Trace == ndJsonDeserialize(TraceFile)

VARIABLES l, hist, closer, viol, nread, bad,
          thr,   \* content id -> number of completed fsyncs at which its batch became durable (-1: unknown)
          low    \* reader -> the earliest state (number of writer calls) that can have justified its previous read

vars == <<l, hist, closer, viol, nread, bad, thr, low>>

Ev == Trace[l]
Is(k) == l <= Len(Trace) /\ Ev.ev = k
Adv == l' = l + 1
V(clause) == viol' = viol \cup {[line |-> l, clause |-> clause]}
Cur == hist[Len(hist)]

Init == l = 1 /\ hist = <<Empty>> /\ closer = FALSE /\ viol = {} /\ nread = 0 /\ bad = FALSE /\ thr = <<>> /\ low = <<>>

Reset == /\ Is("reset") /\ Adv /\ hist' = <<Empty>> /\ closer' = Ev.withCloser /\ bad' = FALSE /\ thr' = <<>> /\ low' = <<>>
         /\ UNCHANGED <<viol, nread>>

(* writer calls, in program order *)
WOp ==
  /\ Is("wop") /\ Adv /\ UNCHANGED <<closer, nread, bad, low>>
  /\ thr' = IF Ev.op = "store" THEN [c \in DOMAIN thr \cup {Ev.cid} |-> IF c = Ev.cid THEN Ev.thr ELSE thr[c]] ELSE thr
  /\ LET nxt == IF Ev.res # "ok" THEN Cur
                ELSE IF Ev.op = "store" THEN ApplyStore(Cur, <<Ev.idx>>, <<Ev.cid>>)
                ELSE IF Ev.op \in {"delh", "delt"} THEN ApplyDel(Cur, Ev.idx, Ev.idx)
                ELSE Cur
     IN hist' = Append(hist, nxt)
  /\ IF Ev.res = "ok" THEN
        IF Ev.op = "store" /\ ~PreStore(Cur, <<Ev.idx>>) THEN V("StoreAcceptedIllegal") ELSE UNCHANGED viol
     ELSE IF Ev.res = "closed" /\ closer THEN UNCHANGED viol
     ELSE V("WriterError")                   \* a legal call failed although nothing was closing

States(from, to) == {hist[k + 1] : k \in {x \in from..to : x + 1 <= Len(hist)}}

(* The calls of ONE reader are sequential: linearizability puts their effects in that order, so the state that       *)
(* justifies a read cannot be older than the one that justified the same reader's previous read (choosing the earliest *)
(* justifying state each time loses nothing).  K = the states current during this read in which its result is right.  *)
Justifying ==
  {k \in Ev.from..Ev.to :
     /\ k + 1 <= Len(hist)
     /\ LET s == hist[k + 1] IN
        IF Ev.kind = "first" THEN Ev.res = "ok" /\ First(s) = Ev.val
        ELSE IF Ev.kind = "last" THEN Ev.res = "ok" /\ Last(s) = Ev.val
        ELSE IF Ev.res = "ok" THEN Get(s, Ev.idx) = Ev.val
        ELSE IF Ev.res = "notfound" THEN Get(s, Ev.idx) = 0
        ELSE FALSE}
LowOf(p) == IF p \in DOMAIN low THEN low[p] ELSE 0
SetMin(S) == CHOOSE x \in S : \A y \in S : x <= y

Read ==
  /\ Is("read") /\ Adv /\ UNCHANGED <<hist, closer, bad, thr>> /\ nread' = nread + 1
  /\ LET K == Justifying
         K2 == {k \in K : k >= LowOf(Ev.p)}
     IN low' = IF K2 # {} THEN [q \in DOMAIN low \cup {Ev.p} |-> IF q = Ev.p THEN SetMin(K2) ELSE low[q]] ELSE low
  /\ LET S == States(Ev.from, Ev.to) IN
     IF Ev.res \in {"ok", "notfound"} /\ Justifying # {} /\ {k \in Justifying : k >= LowOf(Ev.p)} = {}
     THEN V("ReadsWentBack")           \* justified on its own, but only by a state older than this reader has already seen
     ELSE IF Ev.res = "closed" THEN (IF closer /\ Ev.cs = 1 THEN UNCHANGED viol ELSE V("ClosedWithoutClose"))
     ELSE IF Ev.kind = "first" THEN
          (IF Ev.res = "ok" /\ \E s \in S : First(s) = Ev.val THEN UNCHANGED viol ELSE V("FirstUnjustified"))
     ELSE IF Ev.kind = "last" THEN
          (IF Ev.res = "ok" /\ \E s \in S : Last(s) = Ev.val THEN UNCHANGED viol ELSE V("LastUnjustified"))
     ELSE IF Ev.res = "ok" /\ Ev.val \in DOMAIN thr /\ thr[Ev.val] > 0 /\ Ev.sd < thr[Ev.val]
          THEN V("VisibleBeforeDurable")      \* C06: the entry was returned before the fsync of its batch completed
     ELSE IF Ev.res = "ok" THEN
          (IF \E s \in S : Get(s, Ev.idx) = Ev.val THEN UNCHANGED viol
           ELSE IF \A s \in S : Get(s, Ev.idx) = 0 THEN V("ReadPhantom") ELSE V("ReadWrongContent"))
     ELSE IF Ev.res = "notfound" THEN
          (IF \E s \in S : Get(s, Ev.idx) = 0 THEN UNCHANGED viol ELSE V("ReadLost"))
     ELSE \* an error other than not-found: only for an index a truncation removed during the read
          (IF \E k1, k2 \in Ev.from..Ev.to :
                 /\ k1 < k2 /\ k2 + 1 <= Len(hist)
                 /\ Get(hist[k1 + 1], Ev.idx) # 0 /\ Get(hist[k2 + 1], Ev.idx) = 0
           THEN UNCHANGED viol ELSE V("ReadError"))

StableEv ==
  /\ Is("stable") /\ Adv /\ UNCHANGED <<hist, closer, nread, bad, thr, low>>
  \* a client that is the only writer of its key reads back what it wrote last (Get / GetUint64)
  /\ IF Ev.res = "ok" THEN (IF Ev.op \in {"get", "getu"} /\ Ev.val # Ev.want THEN V("StableWrong") ELSE UNCHANGED viol)
     ELSE IF Ev.res = "closed" /\ closer /\ Ev.cs = 1 THEN UNCHANGED viol
     ELSE V("StableError")

CloseEv == /\ Is("close") /\ Adv /\ UNCHANGED <<hist, closer, nread, bad, thr, low>>
           /\ IF Ev.res = "ok" THEN UNCHANGED viol ELSE V("CloseError")
Close2 == /\ Is("close2") /\ Adv /\ UNCHANGED <<hist, closer, nread, bad, thr, low>>
          /\ IF Ev.res = "ok" THEN UNCHANGED viol ELSE V("SecondCloseNotNoop")
PostClose == /\ Is("postclose") /\ Adv /\ UNCHANGED <<hist, closer, nread, bad, thr, low>>
             /\ IF Ev.res = "closed" THEN UNCHANGED viol ELSE V("NotClosedAfterClose")
Goroutines == /\ Is("goroutines") /\ Adv /\ UNCHANGED <<hist, closer, nread, bad, thr, low>>
              /\ IF Ev.rotator THEN V("RotatorStillRunning") ELSE UNCHANGED viol
Handles == /\ Is("handles") /\ Adv /\ UNCHANGED <<hist, closer, nread, bad, thr, low>>
           /\ IF Ev.n # 0 THEN V("HandlesLeaked") ELSE UNCHANGED viol
(* C13 with readers: files of removed segments are gone once the readers are done *)
DirCheck == /\ Is("dircheck") /\ Adv /\ UNCHANGED <<hist, closer, nread, bad, thr, low>>
            /\ IF Ev.n # 0 THEN V("FilesNotReclaimed") ELSE UNCHANGED viol
PanicEv == /\ Is("panic") /\ Adv /\ UNCHANGED <<hist, closer, nread, bad, thr, low>> /\ V("Panic")
Stuck == /\ Is("stuck") /\ Adv /\ UNCHANGED <<hist, closer, nread, bad, thr, low>> /\ V("Deadlock")
OpenErr == /\ (Is("open") \/ Is("preload")) /\ Adv /\ UNCHANGED <<hist, closer, nread, bad, thr, low>> /\ V("OpenFailed")

(* everything acknowledged before Close is present after the next Open *)
Reopen ==
  /\ Is("reopen") /\ Adv /\ UNCHANGED <<hist, closer, nread, bad, thr, low>>
  /\ IF Ev.res # "ok" THEN V("ReopenFailed")
     ELSE IF Ev.first # First(Cur) \/ Ev.last # Last(Cur) THEN V("ReopenBounds")
     ELSE IF Ev.cids # Cur.c THEN V("ReopenContent")
     ELSE UNCHANGED viol

(* the tail-index stress (concdrive segStress): a read of the live tail returned something other than "not found" *)
(* or the entry appended at that index                                                                          *)
Anomaly == /\ Is("anomaly") /\ Adv /\ V("TailReadAnomaly") /\ UNCHANGED <<hist, closer, nread, bad, thr, low>>

Note == /\ l <= Len(Trace) /\ Ev.ev \in {"schedule", "note"} /\ Adv /\ UNCHANGED <<hist, closer, viol, nread, bad, thr, low>>

Finish == /\ l = Len(Trace) + 1 /\ PrintT(<<"VIOL", ToJson([v |-> viol, nobs |-> nread])>>) /\ l' = l + 1
          /\ UNCHANGED <<hist, closer, viol, nread, bad, thr, low>>

Next == Reset \/ WOp \/ Read \/ StableEv \/ CloseEv \/ Close2 \/ PostClose \/ Goroutines \/ Handles \/ DirCheck \/ PanicEv
        \/ Stuck \/ OpenErr \/ Reopen \/ Note \/ Anomaly \/ Finish
Spec == Init /\ [][Next]_vars
Accepted == TLCGet("stats").diameter = Len(Trace) + 2
=============================================================================
