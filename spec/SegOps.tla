------------------------------- MODULE SegOps -------------------------------
(***************************************************************************)
(* The metadata transactions of the storage engine as pure functions on    *)
(* the persisted segment list - one source of truth shared by the design   *)
(* model (WalImpl: which metadata each step commits) and by the trace      *)
(* specification that checks the metadata the REAL code commits            *)
(* (WalImplTrace).                                                         *)
(*                                                                         *)
(* A segment record: [id, base, min, max, sealed]                          *)
(*   id     segment id (file identity, with base the file name)            *)
(*   base   BaseIndex: index of the first entry the file can hold          *)
(*   min    MinIndex: first index still in the log (raised by head         *)
(*          truncation; = base when created)                               *)
(*   max    MaxIndex: last index, recorded when the segment is sealed      *)
(*          (0 while it is the unsealed tail)                              *)
(*   sealed SealTime is set                                                *)
(* The list is ordered by base; all but the last are sealed, the last is   *)
(* the unsealed tail.                                                      *)
(***************************************************************************)
EXTENDS Integers, Sequences, FiniteSets

(* The `@type` comments are annotations for Apalache (spec/SegOpsInd.tla proves the well-formedness of the segment   *)
(* list inductive over these transactions for unbounded indexes); TLC ignores them.                                  *)

\* @type: (Int, Int, Int, Int, Bool) => {id: Int, base: Int, min: Int, max: Int, sealed: Bool};
Seg(id, base, mn, mx, sealed) == [id |-> id, base |-> base, min |-> mn, max |-> mx, sealed |-> sealed]
\* @type: Seq({id: Int, base: Int, min: Int, max: Int, sealed: Bool}) => {id: Int, base: Int, min: Int, max: Int, sealed: Bool};
TailOf(segs) == segs[Len(segs)]
\* @type: Seq({id: Int, base: Int, min: Int, max: Int, sealed: Bool}) => Set(Int);
Ids(segs) == {segs[k].id : k \in DOMAIN segs}

(* createNextSegment: a fresh unsealed tail with the next free id *)
\* @type: (Seq({id: Int, base: Int, min: Int, max: Int, sealed: Bool}), Int, Int) => Seq({id: Int, base: Int, min: Int, max: Int, sealed: Bool});
NewTailSegs(segs, next, base) == Append(segs, Seg(next, base, base, 0, FALSE))
(* rotateSegmentLocked / forced seal: the tail becomes a sealed segment ending at `last` *)
\* @type: (Seq({id: Int, base: Int, min: Int, max: Int, sealed: Bool}), Int) => Seq({id: Int, base: Int, min: Int, max: Int, sealed: Bool});
SealedTailSegs(segs, last) ==
  [segs EXCEPT ![Len(segs)] = Seg(TailOf(segs).id, TailOf(segs).base, TailOf(segs).min, last, TRUE)]

(* Open on metadata without an unsealed tail (fresh directory): commit a tail *)
\* @type: (Seq({id: Int, base: Int, min: Int, max: Int, sealed: Bool}), Int) => {next: Int, segs: Seq({id: Int, base: Int, min: Int, max: Int, sealed: Bool})};
InitResult(segs, next) ==
  [next |-> next + 1,
   segs |-> NewTailSegs(segs, next, IF segs = <<>> THEN 1 ELSE TailOf(segs).max + 1)]

(* rotation (background after a sealing append, or completed by Open): seal the tail at the log's last index *)
\* @type: (Seq({id: Int, base: Int, min: Int, max: Int, sealed: Bool}), Int, Int) => {next: Int, segs: Seq({id: Int, base: Int, min: Int, max: Int, sealed: Bool})};
RotateResult(segs, next, last) ==
  [next |-> next + 1, segs |-> NewTailSegs(SealedTailSegs(segs, last), next, last + 1)]

(* resetEmptyFirstSegmentBaseIndex: the empty tail of an empty log is replaced by one with the right base *)
\* @type: (Seq({id: Int, base: Int, min: Int, max: Int, sealed: Bool}), Int, Int) => {next: Int, segs: Seq({id: Int, base: Int, min: Int, max: Int, sealed: Bool})};
ResetResult(segs, next, newBase) ==
  LET front == SubSeq(segs, 1, Len(segs) - 1) IN
  [next |-> next + 1,
   segs |-> NewTailSegs(front, next, IF front = <<>> THEN newBase ELSE TailOf(front).max + 1)]

(* truncateHeadLocked(newMin); `last` = the log's last index (what the unsealed tail holds up to) *)
\* @type: ({id: Int, base: Int, min: Int, max: Int, sealed: Bool}, Int, Int) => Bool;
SegSurvivesHead(sg, newMin, last) == IF sg.sealed THEN sg.max >= newMin ELSE last >= newMin
\* @type: (Seq({id: Int, base: Int, min: Int, max: Int, sealed: Bool}), Int, Int, Int) => {next: Int, segs: Seq({id: Int, base: Int, min: Int, max: Int, sealed: Bool})};
HeadResult(segs, next, newMin, last) ==
  LET \* @type: {id: Int, base: Int, min: Int, max: Int, sealed: Bool} => Bool;
      Survives(sg) == SegSurvivesHead(sg, newMin, last)
      keep == SelectSeq(segs, Survives) IN
  IF keep = <<>>
  THEN [next |-> next + 1, segs |-> <<Seg(next, last + 1, last + 1, 0, FALSE)>>]
  ELSE [next |-> next, segs |-> [keep EXCEPT ![1] = Seg(keep[1].id, keep[1].base, newMin, keep[1].max, keep[1].sealed)]]
(* truncateTailLocked(newMax): segments wholly above newMax go, the one holding newMax is (force-)sealed at newMax, *)
(* a fresh tail starts at newMax + 1                                                                                *)
\* @type: (Seq({id: Int, base: Int, min: Int, max: Int, sealed: Bool}), Int, Int) => {next: Int, segs: Seq({id: Int, base: Int, min: Int, max: Int, sealed: Bool})};
TailResult(segs, next, newMax) ==
  LET \* @type: {id: Int, base: Int, min: Int, max: Int, sealed: Bool} => Bool;
      Below(sg) == sg.base <= newMax
      keep0 == SelectSeq(segs, Below)
      keep == IF keep0 = <<>> THEN keep0
              ELSE [keep0 EXCEPT ![Len(keep0)] = Seg(TailOf(keep0).id, TailOf(keep0).base, TailOf(keep0).min, newMax, TRUE)]
  IN [next |-> next + 1, segs |-> NewTailSegs(keep, next, newMax + 1)]

(* structural invariant of every committed segment list *)
\* @type: (Seq({id: Int, base: Int, min: Int, max: Int, sealed: Bool}), Int) => Bool;
WellFormed(segs, next) ==
  /\ Len(segs) >= 1
  /\ \A k \in DOMAIN segs : /\ segs[k].id < next /\ segs[k].id >= 0
                            /\ segs[k].base >= 1 /\ segs[k].min >= segs[k].base
  /\ \A k \in DOMAIN segs : k < Len(segs) =>
                               /\ segs[k].sealed
                               /\ segs[k].max >= segs[k].min
                               /\ segs[k + 1].base = segs[k].max + 1
                               /\ segs[k].id < segs[k + 1].id
                               /\ (k > 1 => segs[k].min = segs[k].base)        \* only the head is ever cut
  /\ ~TailOf(segs).sealed /\ TailOf(segs).max = 0
  /\ (Len(segs) > 1 => TailOf(segs).min = TailOf(segs).base)

(* the log bounds a segment list denotes, given the log's last index: first index (0 iff empty) *)
\* @type: (Seq({id: Int, base: Int, min: Int, max: Int, sealed: Bool}), Int) => Int;
FirstFrom(segs, last) == IF last = 0 \/ last < segs[1].min THEN 0 ELSE segs[1].min
=============================================================================
