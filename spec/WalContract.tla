----------------------------- MODULE WalContract -----------------------------
(***************************************************************************)
(* The user-visible contract of raft-wal (DESIGN.md 2.4): a contiguous log *)
(* (LogOps) plus a durable key/value map, with the sequential API          *)
(*   StoreLogs / DeleteRange / Close+Open / Set / Get.                     *)
(*                                                                         *)
(* Roles:                                                                  *)
(*  1. reference model of C05 / C08 (what every call must answer),         *)
(*  2. scenario generator: `hist` is the operation sequence; TLC prints it *)
(*     (exhaustive BFS up to MaxOps, or -simulate) and harness/drive       *)
(*     executes it on the real code,                                       *)
(*  3. sanity invariants of the model itself, checked exhaustively.        *)
(***************************************************************************)
EXTENDS Integers, Sequences, FiniteSets, TLC, Json, LogOps

CONSTANTS MaxIdx,     \* largest raft index used
          Starts,     \* indexes an empty log may start at
          MaxBatch,   \* largest StoreLogs batch
          Sizes,      \* payload size classes (8-byte words)
          MaxOps,     \* length of generated operation sequences
          Keys, Vals, \* stable store keys / values (0 = nil)
          WithBad,    \* generate operations the contract rejects
          WithReopen, WithStable,
          MinOps,     \* only sequences at least this long are emitted
          WithHuge    \* truncation bounds also take the largest index there is (DeleteRange(x, MaxUint64): "everything from x")

(* what the harness turns into math.MaxUint64 (and what it logs for it: 2^30 + MaxUint64 % 1000, TLC integers are 32 bit) *)
Huge == 1073742439

VARIABLES log,    \* LogOps state
          kv,     \* stable map: key -> value (absent / 0 = unset)
          nc,     \* next fresh content id
          hist,   \* operation history (the scenario)
          nmut    \* number of accepted mutations (scenario interest)

vars == <<log, kv, nc, hist, nmut>>

Init == /\ log = Empty /\ kv = [k \in Keys |-> 0] /\ nc = 1 /\ hist = <<>> /\ nmut = 0

Room == Len(hist) < MaxOps

Idxs(first, n) == [j \in 1..n |-> first + j - 1]
Cids(n) == [j \in 1..n |-> nc + j - 1]

RECURSIVE SeqsOver(_, _)
SeqsOver(S, n) == IF n = 0 THEN {<<>>} ELSE {Append(q, x) : q \in SeqsOver(S, n - 1), x \in S}

(* accepted append *)
Store(first, n, sz) ==
  /\ Room
  /\ PreStore(log, Idxs(first, n))
  /\ first + n - 1 <= MaxIdx
  /\ log' = ApplyStore(log, Idxs(first, n), Cids(n))
  /\ nc' = nc + n
  /\ hist' = Append(hist, [op |-> "store", first |-> first, cids |-> Cids(n), sz |-> sz])
  /\ nmut' = nmut + 1
  /\ kv' = kv

(* rejected appends: not contiguous with LastIndex, or internally non-consecutive *)
StoreBad(idxs) ==
  /\ Room /\ WithBad
  /\ ~PreStore(log, idxs)
  /\ hist' = Append(hist, [op |-> "store", first |-> idxs[1], idxs |-> idxs,
                           cids |-> Cids(Len(idxs)), sz |-> [j \in 1..Len(idxs) |-> 1]])
  /\ nc' = nc + Len(idxs)
  /\ UNCHANGED <<log, kv, nmut>>

Delete(mn, mx) ==
  /\ Room
  /\ (DelClass(log, mn, mx) = "middle" => WithBad)
  /\ log' = ApplyDel(log, mn, mx)
  /\ hist' = Append(hist, [op |-> "delete", min |-> mn, max |-> mx])
  /\ nmut' = nmut + (IF DelClass(log, mn, mx) \in {"head", "tail"} THEN 1 ELSE 0)
  /\ UNCHANGED <<kv, nc>>

Reopen ==
  /\ Room /\ WithReopen
  /\ (IF hist = <<>> THEN TRUE ELSE hist[Len(hist)].op # "reopen")   \* also as the very first step
  /\ hist' = Append(hist, [op |-> "reopen"])
  /\ UNCHANGED <<log, kv, nc, nmut>>

SetK(k, v) ==
  /\ Room /\ WithStable
  /\ kv' = [kv EXCEPT ![k] = v]
  /\ hist' = Append(hist, [op |-> "set", key |-> k, val |-> v])
  /\ UNCHANGED <<log, nc, nmut>>

GetKey(k) ==
  /\ Room /\ WithStable
  /\ hist # <<>> /\ hist[Len(hist)].op # "getk"
  /\ hist' = Append(hist, [op |-> "getk", key |-> k])
  /\ UNCHANGED <<log, kv, nc, nmut>>

(* truncation ranges placed at every position relative to FirstIndex / LastIndex;  *)
(* ranges the contract treats as no-ops or rejects are generated only WithBad.      *)
DelCand == IF IsEmpty(log) THEN {0, 1, MaxIdx} \cup (IF WithHuge THEN {Huge} ELSE {})
           ELSE {x \in {First(log) - 1, First(log), First(log) + 1, Last(log) - 1, Last(log), Last(log) + 1, 0} :
                   x >= 0 /\ x <= MaxIdx + 1}
                \cup (IF WithHuge THEN {Huge} ELSE {})
DelRanges == {p \in DelCand \X DelCand :
                /\ (p[1] <= p[2] \/ (WithBad /\ p[1] = p[2] + 1))
                /\ (DelClass(log, p[1], p[2]) \in {"head", "tail"} \/ WithBad)}

StartIdxs == IF IsEmpty(log) THEN Starts ELSE {Last(log) + 1}
BadIdxs == {<<Last(log) + 2>>, <<Last(log) + 1, Last(log) + 3>>}
           \cup (IF IsEmpty(log) THEN {} ELSE {<<Last(log)>>, <<First(log)>>})

Next ==
  \/ \E first \in StartIdxs, n \in 1..MaxBatch : \E sz \in SeqsOver(Sizes, n) : Store(first, n, sz)
  \/ \E idxs \in BadIdxs : StoreBad(idxs)
  \/ \E p \in DelRanges : Delete(p[1], p[2])
  \/ Reopen
  \/ \E k \in Keys, v \in Vals : SetK(k, v)
  \/ \E k \in Keys : GetKey(k)

Spec == Init /\ [][Next]_vars

----------------------------------------------------------------------------
(* sanity of the reference model *)
TypeOK == /\ (IsEmpty(log) <=> log.f = 0)
          /\ \A i \in 1..Len(log.c) : log.c[i] < nc
          /\ \A i, j \in 1..Len(log.c) : i < j => log.c[i] < log.c[j]   \* fresh ids: never a stale generation
Bracket == \A i \in 0..(MaxIdx + 2) : (Get(log, i) # 0) <=> (First(log) <= i /\ i <= Last(log) /\ ~IsEmpty(log))

(* output channel *)
Emit == (Len(hist) = MaxOps \/ (Len(hist) >= MinOps /\ Len(hist) < MaxOps /\ FALSE))
          => PrintT(<<"SCEN", ToJson(hist)>>)
=============================================================================
