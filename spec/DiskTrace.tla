------------------------------ MODULE DiskTrace ------------------------------
(***************************************************************************)
(* Crash model of the filesystem the WAL runs on (DESIGN.md 2.1 "Disk"),   *)
(* driven by a *recorded* I/O trace of the real code.                      *)
(*                                                                         *)
(* The trace is the sequence of VFS / MetaStore calls the current tree     *)
(* really performed (harness/sim records one event per call).  This module *)
(* replays it and, at every I/O boundary, lets TLC enumerate every durable *)
(* image a power loss may leave behind:                                    *)
(*   - every subset of the not-yet-fsynced 8-byte chunks of every file,    *)
(*   - every pending directory operation (creation / unlink) independently *)
(*     persisted or not,                                                   *)
(*   - the durable file length (old, new, or in between),                  *)
(*   - the metadata transaction in flight committed or not.                *)
(* That is exactly the quantifier of properties C01-C04, C13.  Each image  *)
(* is printed as one JSON line; the harness materialises it and runs the   *)
(* real recovery on it.                                                    *)
(***************************************************************************)
EXTENDS Integers, Sequences, FiniteSets, TLC, Json, Randomization

CONSTANTS TraceFile,   \* ndjson file written by harness/drive (writeIO)
          MaxExh,      \* dirty sets up to this size are enumerated exhaustively
          NRandom,     \* number of random subsets sampled for larger dirty sets
          ProdCap      \* largest number of per-file choice combinations enumerated in full at one crash point

Trace == ndJsonDeserialize(TraceFile)

VARIABLES l,      \* next trace line
          path,   \* id of the run (section) being replayed
          n,      \* number of io events of this section consumed (= crash point "at")
          files,  \* name -> file record
          fresh,  \* TRUE iff a crash here can differ from the previous crash point
          img     \* the emitted crash image (img.at = -1: still running)

vars == <<l, path, n, files, fresh, img>>

NoImg == [at |-> -1]

(* file record:  vol = volatile length in chunks, dur = durable length,     *)
(* dirDur = directory entry durable, present = visible in the volatile dir, *)
(* pc / pu = creation / unlink pending in the directory, dirty = chunks     *)
(* written since the last fsync of the file.                               *)
NewFile(size) == [vol |-> size, dur |-> 0, dirDur |-> FALSE, present |-> TRUE,
                  pc |-> TRUE, pu |-> FALSE, dirty |-> {}]
InitFile(size) == [vol |-> size, dur |-> size, dirDur |-> TRUE, present |-> TRUE,
                   pc |-> FALSE, pu |-> FALSE, dirty |-> {}]

Put(f, k, v) == [x \in DOMAIN f \cup {k} |-> IF x = k THEN v ELSE f[x]]
Drop(f, ks)  == [x \in DOMAIN f \ ks |-> f[x]]

Init == /\ l = 1 /\ path = "" /\ n = 0 /\ files = <<>> /\ fresh = FALSE /\ img = NoImg

Max(a, b) == IF a > b THEN a ELSE b
SetMax(S) == CHOOSE x \in S : \A y \in S : y <= x

(* a directory fsync makes every pending directory operation durable *)
DirSync(fs) ==
  LET gone == {x \in DOMAIN fs : fs[x].pu} IN
  [x \in DOMAIN fs \ gone |-> IF fs[x].pc THEN [fs[x] EXCEPT !.pc = FALSE, !.dirDur = TRUE] ELSE fs[x]]

ApplyIO(e, fs) ==
  IF ~e.mut THEN fs
  ELSE CASE e.call = "create" -> Put(fs, e.name, NewFile(e.size))
         [] e.call = "write"  ->
              IF e.name \in DOMAIN fs
              THEN Put(fs, e.name, [fs[e.name] EXCEPT
                       !.vol = Max(@, e.end),
                       !.dirty = @ \cup {e.chunks[i] : i \in 1..Len(e.chunks)}])
              ELSE fs
         [] e.call = "sync"   ->
              IF e.name \in DOMAIN fs
              THEN Put(fs, e.name, [fs[e.name] EXCEPT !.dur = fs[e.name].vol, !.dirty = {}])
              ELSE fs
         [] e.call = "dirsync" -> DirSync(fs)
         [] e.call = "unlink" ->
              IF e.name \in DOMAIN fs
              THEN Put(fs, e.name, [fs[e.name] EXCEPT !.present = FALSE, !.pu = TRUE])
              ELSE fs
         [] OTHER -> fs     \* mcommit / sset: metadata store, no file effect

Step ==
  /\ img.at = -1
  /\ l <= Len(Trace)
  /\ l' = l + 1
  /\ img' = img
  /\ LET e == Trace[l] IN
     CASE e.ev = "reset" -> /\ path' = e.path /\ n' = 0 /\ files' = <<>> /\ fresh' = FALSE
       [] e.ev = "init"  -> /\ files' = Put(files, e.name, InitFile(e.size))
                            /\ UNCHANGED <<path, n>> /\ fresh' = FALSE
       [] e.ev = "io"    -> /\ files' = ApplyIO(e, files)
                            /\ n' = n + 1 /\ fresh' = e.mut /\ path' = path

----------------------------------------------------------------------------
(* Crash choices *)

Structured(D) ==      \* prefixes, suffixes, singletons, all-but-one (by position)
  {{c \in D : c <= p} : p \in D} \cup {{c \in D : c >= p} : p \in D}
  \cup {{c} : c \in D} \cup {D \ {c} : c \in D} \cup {{}, D}

SubsetChoices(D) ==
  IF Cardinality(D) <= MaxExh THEN SUBSET D
  ELSE Structured(D) \cup RandomSetOfSubsets(NRandom, Cardinality(D) \div 2, D)
                     \cup RandomSetOfSubsets(NRandom \div 2, (Cardinality(D) * 3) \div 4, D)

LenChoices(f) ==
  IF f.vol <= f.dur THEN {f.vol}
  ELSE IF f.vol - f.dur <= 3 THEN f.dur..f.vol
  ELSE {f.dur, f.vol, f.dur + ((f.vol - f.dur) \div 2)}
       \cup (IF f.dirty = {} THEN {} ELSE {SetMax(f.dirty) + 1, SetMax(f.dirty)})

FileChoices(f) ==
  UNION { { [len |-> L, keep |-> k] : k \in SubsetChoices({c \in f.dirty : c < L}) }
          : L \in LenChoices(f) }

RECURSIVE Prod(_, _)
Prod(names, fs) ==   \* all functions name -> choice
  IF names = {} THEN {<<>>}
  ELSE LET x == CHOOSE y \in names : TRUE IN
       {Put(g, x, c) : g \in Prod(names \ {x}, fs), c \in FileChoices(fs[x])}

(* When several files are dirty at once the full product explodes (a change that drops an fsync  *)
(* leaves whole files dirty).  Beyond ProdCap combinations the images are: every STRUCTURED      *)
(* choice (prefixes, suffixes, singletons, all-but-one, none, all) for ONE file at a time, the   *)
(* other files either losing everything un-fsynced or keeping everything.                        *)
Extremes(f) == { [len |-> f.vol, keep |-> {c \in f.dirty : c < f.vol}],
                 [len |-> IF f.vol <= f.dur THEN f.vol ELSE f.dur, keep |-> {}] }
RECURSIVE ExtProd(_, _)
ExtProd(names, fs) ==
  IF names = {} THEN {<<>>}
  ELSE LET x == CHOOSE y \in names : TRUE IN
       {Put(g, x, c) : g \in ExtProd(names \ {x}, fs), c \in Extremes(fs[x])}
RECURSIVE ProdSize(_, _)
ProdSize(names, fs) ==
  IF names = {} THEN 1
  ELSE LET x == CHOOSE y \in names : TRUE
           rest == ProdSize(names \ {x}, fs)
       IN IF rest > ProdCap THEN rest ELSE rest * Cardinality(FileChoices(fs[x]))
FileChoicesS(f) ==     \* structured subsets only (no exhaustive / random part)
  UNION { { [len |-> L, keep |-> k] : k \in Structured({c \in f.dirty : c < L}) } : L \in LenChoices(f) }
Mixed(names, fs) ==
  UNION { { Put(e, x, c) : c \in FileChoicesS(fs[x]), e \in ExtProd(names \ {x}, fs) } : x \in names }
Images(names, fs) == IF ProdSize(names, fs) <= ProdCap THEN Prod(names, fs) ELSE Mixed(names, fs)

(* A metadata transaction in flight needs no extra choice: "not committed" is the *)
(* image of the previous crash point and "committed" the image of the next one.  *)

Crash ==
  /\ img.at = -1
  /\ fresh
  /\ path # ""
  /\ (IF l > Len(Trace) THEN TRUE ELSE Trace[l].ev \in {"io", "reset"})
  /\ LET pcs == {x \in DOMAIN files : files[x].pc}
         pus == {x \in DOMAIN files : files[x].pu}
     IN \E cr \in SUBSET pcs, un \in SUBSET pus, mi \in {FALSE} :
          LET alive == {x \in DOMAIN files :
                          /\ (files[x].dirDur \/ x \in cr)
                          /\ ~(x \in un)}
          IN \E ch \in Images(alive, files) :
               img' = [at |-> n, path |-> path,
                       keep |-> [x \in alive |-> ch[x].keep],
                       len  |-> [x \in alive |-> ch[x].len],
                       creates |-> cr, unlinks |-> un, metaInc |-> mi]
  /\ UNCHANGED <<l, path, n, files, fresh>>

Next == Step \/ Crash

Spec == Init /\ [][Next]_vars

(* INVARIANT used as the output channel: one JSON line per crash image *)
Emit == img.at # -1 => PrintT(<<"IMG", ToJson(img)>>)

(* the whole trace must have been consumed by the non-crashing behaviour *)
Consumed == TLCGet("stats").diameter >= Len(Trace)
=============================================================================
