------------------------------- MODULE WalImpl -------------------------------
(***************************************************************************)
(* Design-level model of the storage engine (DESIGN.md 2.3) at FILE        *)
(* granularity: metadata record, directory, segment files, and the I/O     *)
(* steps of Open / StoreLogs / background rotation / DeleteRange, with a   *)
(* power loss possible between any two I/O steps (and inside recovery).    *)
(*                                                                         *)
(* Word-level tearing inside one append is NOT modelled here: spec/        *)
(* SegRecover.tla shows (exhaustively, within its bounds) that the         *)
(* repaired recovery turns every torn image of a batch into "batch present *)
(* in full" or "batch absent"; this module uses that as its abstraction of *)
(* a crash during an append (KeepOrDrop).                                  *)
(*                                                                         *)
(* What is modelled exactly as the code does it (one action per call):     *)
(*   - metadata commits are atomic and durable (CommitState),              *)
(*   - Create makes the file visible, its directory entry becomes durable  *)
(*     at the first Sync of the file (fs.File.Sync) - a crash before that  *)
(*     may or may not keep the file,                                       *)
(*   - Delete = unlink + directory fsync (two steps),                      *)
(*   - mutateStateLocked: CommitState, then postCommit (Create), then the  *)
(*     in-memory state is published, then old files are closed/deleted,    *)
(*   - Open: load, open sealed segments (must exist), recover or re-create *)
(*     the tail, complete the rotation of a recovered sealed tail (fix F1),*)
(*     create+commit a tail if metadata has none, sweep unlisted files.    *)
(* Design switches reproduce pinned defects / seeded changes:              *)
(*   RotateOnOpen = FALSE  -> F1 (sealed tail never rotated)               *)
(*   CreateBeforeCommit    -> seeded change S02 (ID reuse / collision)     *)
(*   Sweep = FALSE         -> orphans survive Open                         *)
(*   RecreateTail = FALSE  -> missing tail file makes Open fail            *)
(*   MaxFaults > 0, Recommit = FALSE -> F15 (failed file creation after    *)
(*                            the metadata commit: disk ahead of memory)   *)
(*   MaxFaults > 0, KeepNextId = FALSE -> seeded S51 (the id of a creation *)
(*                            that failed half-way is handed out again)    *)
(***************************************************************************)
EXTENDS Integers, Sequences, FiniteSets, TLC, LogOps, SegOps      \* SegOps: the metadata transactions (shared with WalImplTrace)

CONSTANTS MaxIdx,        \* entries ever appended
          SealAt,        \* a tail holding this many entries is sealed by the append
          MaxCrashes,
          MaxOps,        \* API calls per behaviour
          RotateOnOpen, CreateBeforeCommit, Sweep, RecreateTail,
          MaxFaults,     \* I/O failures injected per behaviour (0: the crash-only model)
          Recommit,      \* fix F15: a failed postCommit re-commits the state that stays in use
          KeepNextId     \* ... with the advanced next segment id (FALSE: the abandoned id is handed out again)

VARIABLES meta,      \* durable metadata: [next, segs]  segs = Seq of [id, base, min, max, sealed]
          vdir,      \* ids of the files visible in the directory now
          ddir,      \* ids whose directory entry is durable
          fvol,      \* id -> [ents: Seq(cid), sealed: BOOLEAN]   page cache content
          fdur,      \* id -> the same, as of the last fsync of the file
          mem,       \* the process: [up, segs, next, rot]  (segs mirrors meta.segs; rot = rotation pending)
          pc,        \* current step: <<"idle">>, <<"down">>, <<"failed">> or <<op, step, args...>>
          alog,      \* ghost: the contract log (LogOps state) as acknowledged
          unsure,    \* ghost: set of contract logs a restart may legitimately show
          nc, nops, crashes,
          created,   \* ghost: every <<id, base>> ever passed to Create (C13)
          faults     \* number of injected I/O failures so far (C10)

vars == <<meta, vdir, ddir, fvol, fdur, mem, pc, alog, unsure, nc, nops, crashes, created, faults>>

NoFile == [ents |-> <<>>, sealed |-> FALSE]
Put(f, k, v) == [x \in DOMAIN f \cup {k} |-> IF x = k THEN v ELSE f[x]]

(* the log a set of segments + file contents denotes (what GetLog/First/Last answer) *)
SegEnts(sg, files) ==
  LET all == files[sg.id].ents
      hi == IF sg.sealed THEN sg.max ELSE sg.base + Len(all) - 1
  IN [i \in 1..(IF hi >= sg.min THEN hi - sg.min + 1 ELSE 0) |-> all[sg.min + i - sg.base]]
RECURSIVE Flatten(_, _)
Flatten(segs, files) == IF segs = <<>> THEN <<>> ELSE SegEnts(Head(segs), files) \o Flatten(Tail(segs), files)
FirstOfView(segs, files) ==
  LET nz == {k \in 1..Len(segs) : SegEnts(segs[k], files) # <<>>} IN
  IF nz = {} THEN Empty
  ELSE [f |-> segs[CHOOSE k \in nz : \A j \in nz : k <= j].min, c |-> Flatten(segs, files)]
View == FirstOfView(mem.segs, fvol)

Init == /\ meta = [next |-> 0, segs |-> <<>>] /\ vdir = {} /\ ddir = {} /\ fvol = <<>> /\ fdur = <<>>
        /\ mem = [up |-> FALSE, segs |-> <<>>, next |-> 0, rot |-> FALSE, left |-> FALSE]
        /\ pc = <<"down">> /\ alog = Empty /\ unsure = {Empty} /\ nc = 1 /\ nops = 0 /\ crashes = 0 /\ created = {} /\ faults = 0

Idle == pc = <<"idle">> /\ mem.up
Room == nops < MaxOps

----------------------------------------------------------------------------
(* Create a segment file (Filer.Create): O_EXCL *)
CreateOK(id) == id \notin vdir
DoCreate(id, base) ==
  /\ vdir' = vdir \cup {id}
  /\ fvol' = Put(fvol, id, NoFile) /\ fdur' = Put(fdur, id, NoFile)
  /\ created' = created \cup {<<id, base>>}
  /\ UNCHANGED ddir

----------------------------------------------------------------------------
(* Open *)
OpenLoad ==
  /\ pc = <<"down">>
  /\ mem' = [up |-> FALSE, segs |-> meta.segs, next |-> meta.next, rot |-> FALSE, left |-> FALSE]
  /\ pc' = <<"open", "segments">>
  /\ UNCHANGED <<meta, vdir, ddir, fvol, fdur, alog, unsure, nc, nops, crashes, faults, created>>

OpenSegments ==     \* sealed segments must exist; tail recovered or re-created; no tail -> init
  /\ pc = <<"open", "segments">>
  /\ IF \E k \in 1..Len(mem.segs) : mem.segs[k].sealed /\ mem.segs[k].id \notin vdir
     THEN pc' = <<"failed">> /\ UNCHANGED <<meta, vdir, ddir, fvol, fdur, mem, created>>
     ELSE IF mem.segs = <<>> \/ TailOf(mem.segs).sealed
     THEN \* metadata has no tail (fresh directory): commit one, then create its file
          /\ pc' = <<"open", "initcommit">> /\ UNCHANGED <<meta, vdir, ddir, fvol, fdur, mem, created>>
     ELSE LET t == TailOf(mem.segs) IN
          IF t.id \in vdir
          THEN /\ pc' = (IF fvol[t.id].sealed THEN <<"open", "rotate">> ELSE <<"open", "sweep">>)
               /\ UNCHANGED <<meta, vdir, ddir, fvol, fdur, mem, created>>
          ELSE IF RecreateTail /\ CreateOK(t.id)
          THEN /\ DoCreate(t.id, t.base) /\ pc' = <<"open", "sweep">> /\ UNCHANGED <<meta, mem>>
          ELSE pc' = <<"failed">> /\ UNCHANGED <<meta, vdir, ddir, fvol, fdur, mem, created>>
  /\ UNCHANGED <<alog, unsure, nc, nops, crashes, faults>>

OpenInitCommit ==
  /\ pc = <<"open", "initcommit">>
  /\ LET res == InitResult(mem.segs, mem.next)
     IN /\ meta' = res
        /\ mem' = [mem EXCEPT !.segs = res.segs, !.next = res.next]
  /\ pc' = <<"open", "initcreate">>
  /\ UNCHANGED <<vdir, ddir, fvol, fdur, alog, unsure, nc, nops, crashes, faults, created>>

OpenInitCreate ==
  /\ pc = <<"open", "initcreate">>
  /\ LET t == TailOf(mem.segs) IN
     IF CreateOK(t.id) THEN DoCreate(t.id, t.base) /\ pc' = <<"open", "sweep">>
     ELSE pc' = <<"failed">> /\ UNCHANGED <<vdir, ddir, fvol, fdur, created>>
  /\ UNCHANGED <<meta, mem, alog, unsure, nc, nops, crashes, faults>>

(* fix F1: a recovered tail that is sealed on disk is rotated now (metadata commit, then create) *)
OpenRotate ==
  /\ pc = <<"open", "rotate">>
  /\ IF ~RotateOnOpen THEN pc' = <<"open", "sweep">> /\ UNCHANGED <<meta, mem>>
     ELSE LET t == TailOf(mem.segs)
              last == t.base + Len(fvol[t.id].ents) - 1
              ns == RotateResult(mem.segs, mem.next, last).segs
          IN /\ meta' = [next |-> mem.next + 1, segs |-> ns]
             /\ mem' = [mem EXCEPT !.segs = ns, !.next = mem.next + 1]
             /\ pc' = <<"open", "initcreate">>
  /\ UNCHANGED <<vdir, ddir, fvol, fdur, alog, unsure, nc, nops, crashes, faults, created>>

OpenSweep ==     \* delete unlisted files one by one (unlink + dir fsync), then the WAL is up
  /\ pc = <<"open", "sweep">>
  /\ LET orphans == vdir \ Ids(mem.segs) IN
     IF Sweep /\ orphans # {}
     THEN \E o \in orphans : /\ vdir' = vdir \ {o} /\ ddir' = ddir \ {o} /\ pc' = pc
                             /\ UNCHANGED <<mem, unsure>>
     ELSE /\ mem' = [mem EXCEPT !.up = TRUE] /\ pc' = <<"idle">> /\ UNCHANGED <<vdir, ddir>>
          \* recovery has decided: the recovered log must be one the contract allowed (else unsure becomes empty)
          /\ unsure' = unsure \cap {FirstOfView(mem.segs, fvol)}
          /\ alog' = FirstOfView(mem.segs, fvol)
  /\ IF Sweep /\ (vdir \ Ids(mem.segs)) # {} THEN UNCHANGED alog ELSE TRUE
  /\ UNCHANGED <<meta, fvol, fdur, nc, nops, crashes, faults, created>>

----------------------------------------------------------------------------
(* StoreLogs: one entry per call; write, fsync (+ directory on first sync), acknowledge *)
StoreWrite ==
  /\ Idle /\ Room /\ ~mem.rot
  /\ ~TailOf(mem.segs).sealed
  /\ LET t == TailOf(mem.segs)
         len == Len(fvol[t.id].ents)
     IN /\ t.base + len <= MaxIdx
        /\ (fvol[t.id].sealed => FALSE)          \* a sealed-on-disk tail refuses appends (ErrSealed): no step
        /\ fvol' = Put(fvol, t.id, [ents |-> Append(fvol[t.id].ents, nc), sealed |-> (len + 1 >= SealAt)])
  /\ nc' = nc + 1 /\ nops' = nops + 1
  /\ pc' = <<"store", "sync">>
  /\ unsure' = unsure \cup {ApplyStore(alog, <<IF IsEmpty(alog) THEN TailOf(mem.segs).base + Len(fvol[TailOf(mem.segs).id].ents) ELSE Last(alog) + 1>>, <<nc>>)}
  /\ UNCHANGED <<meta, vdir, ddir, fdur, mem, alog, crashes, faults, created>>

StoreSync ==
  /\ pc = <<"store", "sync">>
  /\ LET t == TailOf(mem.segs) IN
     /\ fdur' = Put(fdur, t.id, fvol[t.id])
     /\ ddir' = ddir \cup {t.id}
     /\ alog' = ApplyStore(alog, <<IF IsEmpty(alog) THEN t.base + Len(fvol[t.id].ents) - 1 ELSE Last(alog) + 1>>, <<nc - 1>>)
     /\ mem' = [mem EXCEPT !.rot = fvol[t.id].sealed]
  /\ unsure' = {alog'}
  /\ pc' = <<"idle">>
  /\ UNCHANGED <<meta, vdir, fvol, nc, nops, crashes, faults, created>>

(* background rotation: metadata commit, then create (or the other way round: seeded change S02) *)
RotateFirst ==
  /\ Idle /\ mem.rot
  /\ LET t == TailOf(mem.segs)
         last == t.base + Len(fvol[t.id].ents) - 1
         ns == RotateResult(mem.segs, mem.next, last).segs
     IN IF CreateBeforeCommit
        THEN IF CreateOK(mem.next) THEN DoCreate(mem.next, last + 1) /\ pc' = <<"rotate", "commit">> /\ UNCHANGED <<meta, mem>>
             ELSE pc' = <<"failed">> /\ UNCHANGED <<meta, vdir, ddir, fvol, fdur, mem, created>>
        ELSE /\ meta' = [next |-> mem.next + 1, segs |-> ns] /\ pc' = <<"rotate", "create">>
             /\ UNCHANGED <<vdir, ddir, fvol, fdur, mem, created>>
  /\ UNCHANGED <<alog, unsure, nc, nops, crashes, faults>>

RotateSecond ==
  /\ pc[1] = "rotate"
  /\ LET t == TailOf(mem.segs)
         last == t.base + Len(fvol[t.id].ents) - 1
         ns == RotateResult(mem.segs, mem.next, last).segs
     IN /\ IF pc[2] = "create"
           THEN IF CreateOK(mem.next) THEN DoCreate(mem.next, last + 1) /\ UNCHANGED meta
                ELSE UNCHANGED <<vdir, ddir, fvol, fdur, created, meta>>      \* Create fails: rotation error is logged
           ELSE /\ meta' = [next |-> mem.next + 1, segs |-> ns] /\ UNCHANGED <<vdir, ddir, fvol, fdur, created>>
        /\ mem' = [mem EXCEPT !.segs = ns, !.next = mem.next + 1, !.rot = FALSE]
  /\ pc' = <<"idle">>
  /\ UNCHANGED <<alog, unsure, nc, nops, crashes, faults>>

(* Empty-log base-index reset (resetEmptyFirstSegmentBaseIndex): the first append of an empty log *)
(* at an index other than the tail's BaseIndex replaces the empty tail by one with the right     *)
(* base: metadata commit, create the new file, (the append itself follows as StoreWrite), and    *)
(* the finalizer unlinks the old tail.                                                           *)
ResetCommit ==
  /\ Idle /\ Room /\ ~mem.rot /\ IsEmpty(alog)
  /\ Len(fvol[TailOf(mem.segs).id].ents) = 0
  /\ TailOf(mem.segs).base + 1 <= MaxIdx
  /\ LET t == TailOf(mem.segs)
         ns == ResetResult(mem.segs, mem.next, t.base + 1).segs
     IN /\ meta' = [next |-> mem.next + 1, segs |-> ns]
        /\ pc' = <<"del", "create", ns, {t.id}, alog>>        \* same post-commit steps as a truncation: create, publish, unlink
  /\ nops' = nops + 1
  /\ UNCHANGED <<vdir, ddir, fvol, fdur, mem, alog, unsure, nc, crashes, faults, created>>

----------------------------------------------------------------------------
(* DeleteRange: head truncation DeleteRange(first, newMin-1), tail truncation DeleteRange(newMax+1, last) *)
DelHeadCommit(newMin) ==
  /\ Idle /\ Room /\ ~mem.rot /\ ~IsEmpty(alog)
  /\ newMin > First(alog) /\ newMin <= Last(alog) + 1
  /\ LET t == TailOf(mem.segs)
         tlen == Len(fvol[t.id].ents)
         res == HeadResult(mem.segs, mem.next, newMin, t.base + tlen - 1)   \* the tail survives iff it holds an index >= newMin
         all == res.next # mem.next                              \* nothing survived: a fresh tail was committed
         ns == res.segs
     IN /\ meta' = res
        /\ pc' = IF all THEN <<"del", "create", ns, Ids(mem.segs) \ Ids(ns), ApplyDel(alog, First(alog), newMin - 1)>>
                 ELSE <<"del", "unlink", ns, Ids(mem.segs) \ Ids(ns), ApplyDel(alog, First(alog), newMin - 1)>>
        /\ unsure' = {alog, ApplyDel(alog, First(alog), newMin - 1)}
  /\ nops' = nops + 1
  /\ UNCHANGED <<vdir, ddir, fvol, fdur, mem, alog, nc, crashes, faults, created>>

DelTailSeal(newMax) ==        \* newMax inside the (non-empty) tail: force seal = write + fsync of index
  /\ Idle /\ Room /\ ~mem.rot /\ ~IsEmpty(alog)
  /\ newMax >= First(alog) /\ newMax < Last(alog)
  /\ LET t == TailOf(mem.segs) IN
     /\ t.base <= newMax /\ Len(fvol[t.id].ents) > 0
     /\ fvol' = Put(fvol, t.id, [fvol[t.id] EXCEPT !.sealed = TRUE])
     /\ fdur' = Put(fdur, t.id, [fvol[t.id] EXCEPT !.sealed = TRUE])
     /\ ddir' = ddir \cup {t.id}
  /\ pc' = <<"deltail", "commit", newMax>>
  /\ nops' = nops + 1
  /\ unsure' = {alog, ApplyDel(alog, newMax + 1, Last(alog))}
  /\ UNCHANGED <<meta, vdir, mem, alog, nc, crashes, faults, created>>

DelTailDirect(newMax) ==      \* newMax below the tail's base: whole tail (and maybe more) goes
  /\ Idle /\ Room /\ ~mem.rot /\ ~IsEmpty(alog)
  /\ newMax >= First(alog) /\ newMax < Last(alog)
  /\ TailOf(mem.segs).base > newMax
  /\ pc' = <<"deltail", "commit", newMax>>
  /\ nops' = nops + 1
  /\ unsure' = {alog, ApplyDel(alog, newMax + 1, Last(alog))}
  /\ UNCHANGED <<meta, vdir, ddir, fvol, fdur, mem, alog, nc, crashes, faults, created>>

DelTailCommit ==
  /\ pc[1] = "deltail" /\ pc[2] = "commit"
  /\ LET newMax == pc[3]
         ns == TailResult(mem.segs, mem.next, newMax).segs
     IN /\ meta' = [next |-> mem.next + 1, segs |-> ns]
        /\ pc' = <<"del", "create", ns, Ids(mem.segs) \ Ids(ns), ApplyDel(alog, newMax + 1, Last(alog))>>
  /\ UNCHANGED <<vdir, ddir, fvol, fdur, mem, alog, unsure, nc, nops, crashes, faults, created>>

DelCreate ==                   \* postCommit: create the new tail, then publish the state
  /\ pc[1] = "del" /\ pc[2] = "create"
  /\ LET ns == pc[3] t == TailOf(ns) IN
     IF CreateOK(t.id)
     THEN /\ DoCreate(t.id, t.base) /\ pc' = <<"del", "unlink", ns, pc[4], pc[5]>>
     ELSE /\ pc' = <<"failed">> /\ UNCHANGED <<vdir, ddir, fvol, fdur, created>>
  /\ UNCHANGED <<meta, mem, alog, unsure, nc, nops, crashes, faults>>

DelUnlink ==                   \* publish, then finalizer: unlink + dir fsync per removed file
  /\ pc[1] = "del" /\ pc[2] = "unlink"
  /\ LET ns == pc[3] gone == pc[4] IN
     IF gone # {}
     THEN \E g \in gone : /\ vdir' = vdir \ {g} /\ ddir' = ddir \ {g}
                          /\ pc' = <<"del", "unlink", ns, gone \ {g}, pc[5]>>
                          /\ mem' = [mem EXCEPT !.segs = ns, !.next = meta.next]
                          /\ UNCHANGED <<alog, unsure>>
     ELSE /\ mem' = [mem EXCEPT !.segs = ns, !.next = meta.next]
          /\ alog' = pc[5]                \* the contract's result of the acknowledged DeleteRange
          /\ unsure' = {pc[5]}
          /\ pc' = <<"idle">> /\ UNCHANGED <<vdir, ddir>>
  /\ UNCHANGED <<meta, fvol, fdur, nc, nops, crashes, faults, created>>

----------------------------------------------------------------------------
(* Power loss *)
Crash ==
  /\ pc # <<"down">> /\ pc # <<"failed">> /\ crashes < MaxCrashes
  /\ \E keepNew \in SUBSET (vdir \ ddir) :              \* files whose directory entry was never fsynced
       /\ vdir' = ddir \cup keepNew
       /\ \E keepVol \in SUBSET {i \in vdir' : fvol[i] # fdur[i]} :     \* un-fsynced content: all or nothing per file
            /\ fvol' = [i \in DOMAIN fvol |-> IF i \in keepVol THEN fvol[i] ELSE fdur[i]]
            /\ fdur' = fvol'
  /\ ddir' = vdir'
  /\ mem' = [up |-> FALSE, segs |-> <<>>, next |-> 0, rot |-> FALSE, left |-> FALSE]
  /\ pc' = <<"down">> /\ crashes' = crashes + 1
  /\ UNCHANGED <<meta, alog, unsure, nc, nops, created, faults>>

----------------------------------------------------------------------------
(* C10 at design level: the file creation of a postCommit fails (ENOSPC, EIO, ...).  The metadata  *)
(* already names the new tail; mutateStateLocked keeps using the old state.  Repaired design (fix   *)
(* F15, Recommit): the kept state is committed again, with the advanced next id (a file with the    *)
(* abandoned id may exist); pinned design: nothing - disk is ahead of memory, and what is appended  *)
(* and acknowledged from now on lives in a file the metadata no longer lists.                        *)
(* `left`: fs.Create may fail AFTER the O_EXCL creation (preallocation fails): the file stays in the directory. *)
FailedCreate(id, base, left) ==
  IF left THEN /\ vdir' = vdir \cup {id} /\ fvol' = Put(fvol, id, NoFile) /\ fdur' = Put(fdur, id, NoFile)
               /\ created' = created \cup {<<id, base>>} /\ UNCHANGED ddir
          ELSE UNCHANGED <<vdir, ddir, fvol, fdur, created>>
KeptNext == IF KeepNextId THEN meta.next ELSE mem.next

DelCreateFails ==
  /\ pc[1] = "del" /\ pc[2] = "create" /\ faults < MaxFaults
  /\ faults' = faults + 1
  /\ \E left \in BOOLEAN :
       /\ FailedCreate(TailOf(pc[3]).id, TailOf(pc[3]).base, left /\ TailOf(pc[3]).id \notin vdir)
       /\ IF Recommit THEN /\ meta' = [next |-> KeptNext, segs |-> mem.segs]
                           /\ mem' = [mem EXCEPT !.next = KeptNext, !.left = (@ \/ left)]
                      ELSE /\ mem' = [mem EXCEPT !.left = (@ \/ left)] /\ UNCHANGED meta
  /\ unsure' = {alog, pc[5]}           \* the call returns an error: applied or not, both are acceptable
  /\ pc' = <<"idle">>
  /\ UNCHANGED <<alog, nc, nops, crashes>>

RotateCreateFails ==
  /\ pc = <<"rotate", "create">> /\ faults < MaxFaults
  /\ faults' = faults + 1
  /\ LET t == TailOf(mem.segs)
         last == t.base + Len(fvol[t.id].ents) - 1
     IN \E left \in BOOLEAN :
          /\ FailedCreate(mem.next, last + 1, left /\ mem.next \notin vdir)
          /\ IF Recommit THEN /\ meta' = [next |-> KeptNext, segs |-> mem.segs]
                              /\ mem' = [mem EXCEPT !.next = KeptNext, !.rot = FALSE, !.left = (@ \/ left)]
                         ELSE /\ mem' = [mem EXCEPT !.rot = FALSE, !.left = (@ \/ left)] /\ UNCHANGED meta
  /\ pc' = <<"idle">>                  \* the error is logged; the tail stays sealed: appends are refused until a reopen
  /\ UNCHANGED <<alog, unsure, nc, nops, crashes>>

Next ==
  \/ OpenLoad \/ OpenSegments \/ OpenInitCommit \/ OpenInitCreate \/ OpenRotate \/ OpenSweep
  \/ StoreWrite \/ StoreSync \/ RotateFirst \/ RotateSecond \/ ResetCommit
  \/ \E i \in 1..(MaxIdx + 1) : DelHeadCommit(i)
  \/ \E i \in 0..MaxIdx : DelTailSeal(i) \/ DelTailDirect(i)
  \/ DelTailCommit \/ DelCreate \/ DelUnlink
  \/ DelCreateFails \/ RotateCreateFails
  \/ Crash

Spec == Init /\ [][Next]_vars

----------------------------------------------------------------------------
(* Properties *)
(* C03: Open succeeds on every directory state a crash can leave behind *)
C03_OpenSucceeds == pc # <<"failed">>
(* C03: after recovery the WAL accepts appends (the tail is never left sealed with no rotation pending) *)
\* (after an injected I/O failure the WAL may refuse writes until it is reopened: C10 allows that)
C03_Writable == (Idle /\ faults = 0) => (mem.rot \/ ~fvol[TailOf(mem.segs).id].sealed)

(* C01/C02/C04: whenever the WAL is up and idle, what it shows is one of the logs the contract allows *)
C01_ViewAllowed == Idle => View \in unsure
(* ... in particular after every recovery: the recovered log is one of the allowed outcomes (C01, C02, C04) *)
C01_Recovered == unsure # {}

(* C13: after Open (and after every completed call) the directory holds exactly the listed segments *)
\* (a creation that failed half-way may leave its file behind until the next Open sweeps it: mem.left)
C13_ExactDir == Idle => (IF mem.left THEN Ids(mem.segs) \subseteq vdir ELSE vdir = Ids(mem.segs))
(* C13: a segment id is never used for two different segments *)
C13_UniqueIds == \A p, q \in created : p[1] = q[1] => p[2] = q[2]

(* the in-memory state mirrors the metadata whenever no transaction is in flight *)
MemMatchesMeta == Idle => mem.segs = meta.segs /\ mem.next = meta.next
=============================================================================
