---------------------------- MODULE CorruptTrace ----------------------------
(***************************************************************************)
(* Trace validation for C11: one line of the trace = one damaged case      *)
(* executed on the REAL code by harness/cmd/corruptreplay:                 *)
(*   [id, ops, decode, dumplogs, dumpseg, open, first, last, firstr, lastr, *)
(*    get, nf, rd, er, close, lockheld, fdleft, reopen]                     *)
(* with outcome classes ok | err | panic | hang | alloc | blocked | none.  *)
(* Every step re-applies the recorded ops to the abstract image of         *)
(* Corrupt.tla and checks the recorded outcomes against the allowed        *)
(* outcome sets stated there.  Violations are printed (case id, clause,    *)
(* probe) and counted, so that one pass judges all cases.                  *)
(***************************************************************************)
EXTENDS Corrupt

CONSTANTS TraceFile
Trace == ndJsonDeserialize(TraceFile)

VARIABLES l, viol, cnt
tvars == <<l, viol, cnt>>

R == Trace[l]

Cap(c) == CASE c = "panic" -> "Panic" [] c = "hang" -> "Hang" [] c = "alloc" -> "Alloc"
            [] c = "blocked" -> "Blocked" [] OTHER -> "BadOutcome"

(* probes the property speaks about (Close is recorded but not judged) *)
Probes == {"decode", "dumplogs", "dumpseg", "open", "firstr", "lastr", "get", "reopen"}
ProbeName(p) == CASE p = "decode" -> "Decode" [] p = "dumplogs" -> "DumpLogs" [] p = "dumpseg" -> "DumpSegment"
                  [] p = "open" -> "Open" [] p = "firstr" -> "FirstIndex" [] p = "lastr" -> "LastIndex"
                  [] p = "get" -> "GetLog" [] OTHER -> "Reopen"

V(r, clause, probe, why) == [id |-> r.id, clause |-> clause, probe |-> probe, why |-> why]

ToSet(s) == {s[i] : i \in 1..Len(s)}

Judge(r) ==
  LET S == ApplyAll(S0, r.ops)
      control == r.ops = <<>>
      shown == r.open = "ok" /\ r.firstr = "ok" /\ r.lastr = "ok"
  IN
  (* never panic, hang, allocate beyond the bound *)
     {V(r, Cap(r[p]), ProbeName(p), "") : p \in {p \in Probes \ {"reopen"} : r[p] \notin Fine}}
  (* Open must fail for a missing / sub-header / foreign-header sealed segment *)
  \cup (IF r.open \in {"ok", "err"} /\ r.open \notin OpenAllowed(S)
        THEN {V(r, "SealedDamageAccepted", "Open", WhyFail(S))} ELSE {})
  (* no silently missing entries *)
  \cup (IF shown /\ MetaIntact(S) /\ S.pay = "none" THEN
            (IF r.first # First0 THEN {V(r, "SilentLoss", "Open", "first")} ELSE {})
       \cup (IF r.last < SealedMax THEN {V(r, "SilentLoss", "Open", "last")} ELSE {})
       \cup (IF TailUntouched(S) /\ r.last >= SealedMax /\ r.last # Last0
             THEN {V(r, "SilentLoss", "Open", "last-tail-untouched")} ELSE {})
       \cup (IF \E i \in ToSet(r.nf) : i <= SealedMax THEN {V(r, "SilentLoss", "GetLog", "notfound")} ELSE {})
        ELSE {})
  (* damaged payloads must not decode *)
  \cup (IF S.pay # "none" /\ r.decode \in {"ok", "err"} /\ r.decode \notin DecodeAllowed(S)
        THEN {V(r, IF S.pay = "orig" THEN "ControlFailed" ELSE "DecodeAccepted", "Decode", S.pay)} ELSE {})
  (* a failed Open leaves nothing locked or open; the second Open proceeds *)
  \cup (IF r.open = "err" THEN
            IF r.reopen \notin ReopenAllowed
            THEN {V(r, IF r.reopen = "blocked" THEN "ReopenBlocked" ELSE Cap(r.reopen), "Reopen", "")}
            ELSE IF r.lockheld THEN {V(r, "LeftLocked", "Open", "")}
            ELSE IF r.fdleft > 0 THEN {V(r, "LeftOpen", "Open", "")}
            ELSE {}
        ELSE {})
  (* the undamaged control case: the harness itself is sane *)
  \cup (IF control /\ ~(shown /\ r.first = First0 /\ r.last = Last0 /\ r.get = "ok"
                        /\ ToSet(r.rd) = First0..Last0 /\ r.dumplogs = "ok" /\ r.dumpseg = "ok")
        THEN {V(r, "ControlFailed", "Open", "")} ELSE {})

TInit == /\ img = S0 /\ ops = <<>> /\ l = 1 /\ viol = 0
         /\ cnt = [lines |-> 0, openok |-> 0, openerr |-> 0, mustfail |-> 0, mustdecode |-> 0, reopened |-> 0]

(* A violating line is printed at once (the number of violations is kept in the state): the *)
(* unrepaired tree yields tens of thousands of them in the thorough tier.                    *)
Step ==
  /\ l <= Len(Trace)
  /\ LET S == ApplyAll(S0, R.ops)
         J == Judge(R)
     IN /\ cnt' = [lines |-> cnt.lines + 1,
                   openok |-> cnt.openok + (IF R.open = "ok" THEN 1 ELSE 0),
                   openerr |-> cnt.openerr + (IF R.open = "err" THEN 1 ELSE 0),
                   mustfail |-> cnt.mustfail + (IF S.pay = "none" /\ MustFailOpen(S) THEN 1 ELSE 0),
                   mustdecode |-> cnt.mustdecode + (IF MustFailDecode(S) THEN 1 ELSE 0),
                   reopened |-> cnt.reopened + (IF R.reopen \in {"ok", "err"} THEN 1 ELSE 0)]
        /\ (J # {} => PrintT(<<"V", ToJson(J)>>))
        /\ viol' = viol + Cardinality(J)
  /\ l' = l + 1
  /\ UNCHANGED vars

Finish ==
  /\ l = Len(Trace) + 1
  /\ PrintT(<<"VIOL", ToJson([n |-> viol, cnt |-> cnt])>>)
  /\ l' = l + 1
  /\ UNCHANGED <<viol, cnt, img, ops>>

TNext == Step \/ Finish
TSpec == TInit /\ [][TNext]_<<tvars, vars>>

(* every line consumed exactly once: the validator is deterministic *)
Accepted == TLCGet("stats").diameter = Len(Trace) + 2
=============================================================================
