-------------------------------- MODULE Plans --------------------------------
(***************************************************************************)
(* Class-combination plans for the value-universal properties C12 (codec   *)
(* field values) and C15 (entry sizes).  The quantifier of those           *)
(* properties is over byte values, which TLA+ does not usefully model; the *)
(* specification contributes the STRUCTURE of the input space: the classes *)
(* of every field and the exhaustive product of the classes, which TLC     *)
(* enumerates (every initial state is one case) and prints as JSON.  The   *)
(* harness concretises each class (harness/cmd/codeccheck, drive).         *)
(***************************************************************************)
EXTENDS Integers, Sequences, FiniteSets, TLC, Json

CONSTANTS Kind,        \* "codec" | "size"
          IdxC, TermC, TypeC, DataC, ExtC, TimeC,   \* codec: class ids per raft.Log field
          SizeC, SegC, PosC,                         \* size: entry size class x segment size class x batch position
          CodecC                                     \*   x codec (identity: encoded size = len(Data); binary: encoded size = len(Data) + header fields)

VARIABLE case

CodecCases == [idx : IdxC, term : TermC, typ : TypeC, data : DataC, ext : ExtC, time : TimeC]
SizeCases  == [size : SizeC, seg : SegC, pos : PosC, codec : CodecC]

Init == case \in (IF Kind = "codec" THEN CodecCases ELSE SizeCases)
Next == UNCHANGED case
Spec == Init /\ [][Next]_case

Emit == PrintT(<<"CASE", ToJson(case)>>)
=============================================================================
