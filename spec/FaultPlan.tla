------------------------------ MODULE FaultPlan ------------------------------
(***************************************************************************)
(* Fault model for property C10 (DESIGN.md 5, C10), driven by a recorded   *)
(* I/O trace of the real code (same format as DiskTrace).                  *)
(*                                                                         *)
(* Every VFS / MetaStore call of the recorded run is a candidate failing   *)
(* call.  TLC enumerates the fault plans:                                  *)
(*   - a single failing call k, transient (that call only) or persistent   *)
(*     (that call and every later mutating call until the faults are       *)
(*     cleared),                                                           *)
(*   - for a write: how much of it reached the page cache before the error *)
(*     (nothing / the first half / everything),                            *)
(*   - for an fsync: whether the data became durable although the call     *)
(*     reported an error,                                                  *)
(*   - pairs of transient faults (k1 < k2), up to MaxPairs per run.        *)
(* Each plan is printed as one JSON line and executed by harness/drive.    *)
(***************************************************************************)
EXTENDS Integers, Sequences, FiniteSets, TLC, Json, Randomization

CONSTANTS TraceFile, MaxPairs

Trace == ndJsonDeserialize(TraceFile)

VARIABLES l, path, calls, plan, col

vars == <<l, path, calls, plan, col>>

NoPlan == [n |-> 0]

(* calls the WAL itself treats as fallible (api markers are not calls) *)
Failable(e) == e.ev = "io" /\ e.call \in {"create", "write", "sync", "dirsync", "unlink", "list", "openr", "openw",
                                          "mload", "mcommit", "sset", "sget"}

Init == l = 1 /\ path = "" /\ calls = <<>> /\ plan = NoPlan /\ col = TRUE

Step ==
  /\ plan.n = 0 /\ l <= Len(Trace) /\ l' = l + 1 /\ plan' = plan
  /\ LET e == Trace[l] IN
     IF e.ev = "reset" THEN path' = e.path /\ calls' = <<>> /\ col' = TRUE
     ELSE IF e.ev = "io" /\ e.call = "cleared" THEN col' = FALSE /\ UNCHANGED <<path, calls>>   \* faults are cleared here
     ELSE IF col /\ Failable(e) THEN calls' = Append(calls, [seq |-> e.seq, call |-> e.call, nbytes |-> e.end * 8])
                                     /\ UNCHANGED <<path, col>>
     ELSE UNCHANGED <<path, calls, col>>

EndOfRun == path # "" /\ calls # <<>> /\ (IF l > Len(Trace) THEN TRUE ELSE Trace[l].ev = "reset")

Variants(c) ==
  IF c.call = "write"
  THEN {[call |-> c.seq, kind |-> k, prefix |-> p, syncApplied |-> FALSE] :
            k \in {"transient", "persistent"}, p \in {-1, 8 * ((c.nbytes \div 8) \div 2), 1000000}}
  ELSE IF c.call = "create"      \* the creation fails cleanly, or after the file appeared (preallocation failed): prefix 0
  THEN {[call |-> c.seq, kind |-> k, prefix |-> p, syncApplied |-> FALSE] : k \in {"transient", "persistent"}, p \in {-1, 0}}
  ELSE IF c.call = "sync"
  THEN {[call |-> c.seq, kind |-> k, prefix |-> -1, syncApplied |-> a] : k \in {"transient", "persistent"}, a \in BOOLEAN}
  ELSE {[call |-> c.seq, kind |-> k, prefix |-> -1, syncApplied |-> FALSE] : k \in {"transient", "persistent"}}

Transient(c) == CHOOSE v \in Variants(c) : v.kind = "transient" /\ v.prefix = -1 /\ ~v.syncApplied

Single ==
  /\ plan.n = 0 /\ EndOfRun
  /\ \E i \in 1..Len(calls) : \E v \in Variants(calls[i]) :
        plan' = [n |-> 1, path |-> path, faults |-> <<v>>]
  /\ UNCHANGED <<l, path, calls, col>>

PairSet == LET all == {<<i, j>> : i \in 1..Len(calls), j \in 1..Len(calls)}
               ok == {p \in all : p[1] < p[2]}
           IN IF Cardinality(ok) <= MaxPairs THEN ok ELSE RandomSubset(MaxPairs, ok)

Pair ==
  /\ plan.n = 0 /\ EndOfRun /\ MaxPairs > 0
  /\ \E p \in PairSet :
        plan' = [n |-> 2, path |-> path, faults |-> <<Transient(calls[p[1]]), Transient(calls[p[2]])>>]
  /\ UNCHANGED <<l, path, calls, col>>

Next == Step \/ Single \/ Pair
Spec == Init /\ [][Next]_vars

Emit == plan.n # 0 => PrintT(<<"FAULT", ToJson(plan)>>)
Consumed == TLCGet("stats").diameter >= Len(Trace)
=============================================================================
