------------------------------- MODULE LogOps -------------------------------
(***************************************************************************)
(* The reference model of properties C01-C05, C10: a contiguous map from   *)
(* index to content id.  One source of truth, shared by the generator      *)
(* (WalContract), the judge (WalJudge) and the design-level engine spec    *)
(* (WalImpl).                                                              *)
(*   state  s = [f |-> first index (0 iff empty), c |-> sequence of cids]  *)
(***************************************************************************)
EXTENDS Integers, Sequences, FiniteSets

Empty == [f |-> 0, c |-> <<>>]
IsEmpty(s) == s.c = <<>>
First(s) == IF IsEmpty(s) THEN 0 ELSE s.f
Last(s)  == IF IsEmpty(s) THEN 0 ELSE s.f + Len(s.c) - 1
Get(s, i) == IF ~IsEmpty(s) /\ i >= s.f /\ i <= Last(s) THEN s.c[i - s.f + 1] ELSE 0

Consecutive(idxs) == \A j \in 1..(Len(idxs) - 1) : idxs[j + 1] = idxs[j] + 1
PreStore(s, idxs) == /\ Len(idxs) >= 1 /\ idxs[1] >= 1 /\ Consecutive(idxs)
                     /\ (IsEmpty(s) \/ idxs[1] = Last(s) + 1)
ApplyStore(s, idxs, cids) == IF IsEmpty(s) THEN [f |-> idxs[1], c |-> cids]
                             ELSE [f |-> s.f, c |-> s.c \o cids]

DelClass(s, mn, mx) ==
  IF mn > mx \/ IsEmpty(s) THEN "noop"
  ELSE IF mx < s.f \/ mn > Last(s) THEN "noop"
  ELSE IF mn <= s.f THEN "head"
  ELSE IF mx >= Last(s) THEN "tail"
  ELSE "middle"
ApplyDel(s, mn, mx) ==
  LET k == DelClass(s, mn, mx) IN
  IF k = "head" THEN (IF mx >= Last(s) THEN Empty
                      ELSE [f |-> mx + 1, c |-> SubSeq(s.c, mx + 2 - s.f, Len(s.c))])
  ELSE IF k = "tail" THEN [f |-> s.f, c |-> SubSeq(s.c, 1, mn - s.f)]
  ELSE s

Legal(s, op) ==      \* may the contract accept op in state s ?
  IF op.ev = "store" THEN PreStore(s, op.idxs)
  ELSE IF op.ev = "delete" THEN DelClass(s, op.min, op.max) # "middle"
  ELSE TRUE
Apply(s, op) ==
  IF op.ev = "store" THEN ApplyStore(s, op.idxs, op.cids)
  ELSE IF op.ev = "delete" THEN ApplyDel(s, op.min, op.max)
  ELSE s
MapOp(S, op)   == {Apply(s, op) : s \in {t \in S : Legal(t, op)}}
MaybeOp(S, op) == S \cup MapOp(S, op)        \* applied in full, or not at all

=============================================================================
