----------------------------- MODULE FsConcTrace -----------------------------
(***************************************************************************)
(* The production fs.FS under CONCURRENT use (C07): the writer commits     *)
(* into a fresh segment (Create, WriteAt, first Sync = fsync(file) +       *)
(* fsync(dir)) while another goroutine deletes segment files (unlink +     *)
(* fsync(dir)), as the WAL's state finalizers do.  The events are the      *)
(* system calls of both threads (strace -f) in trace order, with one       *)
(* conservative twist made by the converter: an fsync is placed where it   *)
(* was ENTERED, everything else where it completed - an fsync only vouches *)
(* for what was complete when it started.  Per call (cinv .. cack):        *)
(*   DeleteSynced   when Delete(name) returns, a directory fsync that      *)
(*                  started after unlink(name) completed has been seen     *)
(*   SyncDurable    when the first Sync of a created file returns, its     *)
(*                  bytes were fsynced after the last write and a          *)
(*                  directory fsync started after the file's creation      *)
(* Another thread's directory fsync is as good as one's own - provided it  *)
(* started late enough.                                                    *)
(***************************************************************************)
EXTENDS Integers, Sequences, FiniteSets, TLC, Json

CONSTANTS TraceFile
Trace == ndJsonDeserialize(TraceFile)

VARIABLES l, unl, cre, dirty, viol, nchk
vars == <<l, unl, cre, dirty, viol, nchk>>
Ev == Trace[l]
Put(f, k, v) == [x \in DOMAIN f \cup {k} |-> IF x = k THEN v ELSE f[x]]
Val(f, k, d) == IF k \in DOMAIN f THEN f[k] ELSE d
V(c) == viol' = viol \cup {[line |-> l, clause |-> c, name |-> Ev.name]}

Init == l = 1 /\ unl = <<>> /\ cre = <<>> /\ dirty = <<>> /\ viol = {} /\ nchk = 0

Step ==
  /\ l <= Len(Trace) /\ l' = l + 1
  /\ IF Ev.ev = "reset" THEN unl' = <<>> /\ cre' = <<>> /\ dirty' = <<>> /\ UNCHANGED <<viol, nchk>>
     ELSE IF Ev.ev \in {"open_creat_excl", "open_creat"} THEN
          cre' = Put(cre, Ev.name, "created") /\ UNCHANGED <<unl, dirty, viol, nchk>>
     ELSE IF Ev.ev = "pwrite" THEN dirty' = Put(dirty, Ev.name, TRUE) /\ UNCHANGED <<unl, cre, viol, nchk>>
     ELSE IF Ev.ev = "fsync_file" THEN dirty' = Put(dirty, Ev.name, FALSE) /\ UNCHANGED <<unl, cre, viol, nchk>>
     ELSE IF Ev.ev = "unlink" THEN unl' = Put(unl, Ev.name, "unlinked") /\ UNCHANGED <<cre, dirty, viol, nchk>>
     ELSE IF Ev.ev = "fsync_dir" THEN
          /\ unl' = [n \in DOMAIN unl |-> IF unl[n] = "unlinked" THEN "synced" ELSE unl[n]]
          /\ cre' = [n \in DOMAIN cre |-> IF cre[n] = "created" THEN "dirsynced" ELSE cre[n]]
          /\ UNCHANGED <<dirty, viol, nchk>>
     ELSE IF Ev.ev = "cack" /\ Ev.res = "ok" THEN
          /\ nchk' = nchk + 1 /\ UNCHANGED <<unl, cre, dirty>>
          /\ IF Ev.op = "delete"
             THEN (IF Val(unl, Ev.name, "none") = "synced" THEN UNCHANGED viol ELSE V("DeleteSynced"))
             ELSE (IF Val(dirty, Ev.name, TRUE) = FALSE /\ Val(cre, Ev.name, "none") = "dirsynced"
                   THEN UNCHANGED viol ELSE V("SyncDurable"))
     ELSE UNCHANGED <<unl, cre, dirty, viol, nchk>>

Finish == /\ l = Len(Trace) + 1 /\ PrintT(<<"VIOL", ToJson([v |-> viol, nchk |-> nchk])>>) /\ l' = l + 1
          /\ UNCHANGED <<unl, cre, dirty, viol, nchk>>
Next == Step \/ Finish
Spec == Init /\ [][Next]_vars
Accepted == TLCGet("stats").diameter = Len(Trace) + 2
=============================================================================
