----------------------------- MODULE WalIoGrammar -----------------------------
(***************************************************************************)
(* Drift detector: the sequence of VFS / MetaStore calls the real code     *)
(* makes inside each API call must be a path through the action sequences  *)
(* of spec/WalImpl.tla (DESIGN.md 1.2).  A mismatch is NOT a property      *)
(* violation - the code may legitimately be refactored - it is reported in *)
(* the evidence as impl_drift: the implementation no longer follows the    *)
(* implementation-level specification and the spec needs attention.        *)
(*                                                                         *)
(* Per API call kind the calls must match (regular expressions over call   *)
(* names; r = openr, w = openw, C = create, M = mcommit, U = unlink,       *)
(* D = dirsync, W = write, S = sync, L = mload, ls = list):                *)
(*   open    L ls r* (w [W S] | w C | C)? (M C)? (U D)*                    *)
(*           (recovery may zero torn remains: W S; rotate-on-open: M C)    *)
(*   store   (M C)? W S D? (U D)?         (M C .. U D = empty-log base reset) *)
(*   rotate  M C                          (background, after a store)      *)
(*   delete  (W S)? M C? (U D)*  |  nothing (no-op / rejected)             *)
(*   set     sset        get  sget        close  mclose                    *)
(* The automaton below is the product of those expressions, one state per  *)
(* position; `Accepting` tells whether the call may end there.             *)
(***************************************************************************)
EXTENDS Integers, Sequences, FiniteSets, TLC, Json

CONSTANTS TraceFile
Trace == ndJsonDeserialize(TraceFile)

VARIABLES l, op, st, drift, ncalls
vars == <<l, op, st, drift, ncalls>>

Ev == Trace[l]

(* transition function: (op kind, state, call) -> next state, or "X" (not allowed) *)
Step(k, s, c) ==
  IF k = "open" THEN
       CASE s = "0" /\ c = "mload" -> "L"
         [] s = "L" /\ c = "list" -> "ls"
         [] s \in {"ls", "r"} /\ c = "openr" -> "r"
         [] s \in {"ls", "r"} /\ c = "openw" -> "w"
         [] s \in {"ls", "r", "w"} /\ c = "create" -> "C"           \* missing tail re-created / fresh tail (after M)
         [] s = "w" /\ c = "write" -> "eW"                          \* erase torn remains
         [] s = "eW" /\ c = "write" -> "eW"
         [] s = "eW" /\ c = "sync" -> "eS"
         [] s = "eS" /\ c = "dirsync" -> "eS"
         [] s \in {"ls", "r", "w", "eS", "C"} /\ c = "mcommit" -> "M"  \* init commit or rotate-on-open
         [] s = "M" /\ c = "create" -> "C2"
         [] s \in {"w", "eS", "C", "C2", "ls", "r", "D"} /\ c = "unlink" -> "U"
         [] s = "U" /\ c = "dirsync" -> "D"
         [] OTHER -> "X"
  ELSE IF k = "store" THEN
       CASE s = "0" /\ c = "mcommit" -> "rM"
         [] s = "rM" /\ c = "create" -> "rC"
         [] s \in {"0", "rC"} /\ c = "write" -> "W"
         [] s = "W" /\ c = "sync" -> "S"
         [] s = "S" /\ c = "dirsync" -> "SD"
         [] s \in {"S", "SD", "rC"} /\ c = "unlink" -> "fU"      \* finalizer of the base reset: the old empty tail goes
         [] s = "fU" /\ c = "dirsync" -> "fD"
         [] OTHER -> "X"
  ELSE IF k = "rotate" THEN
       CASE s = "0" /\ c = "mcommit" -> "M"
         [] s = "M" /\ c = "create" -> "C"
         [] OTHER -> "X"
  ELSE IF k = "delete" THEN
       CASE s = "0" /\ c = "write" -> "W"
         [] s = "W" /\ c = "sync" -> "S"
         [] s = "S" /\ c = "dirsync" -> "S"
         [] s \in {"0", "S"} /\ c = "mcommit" -> "M"
         [] s = "M" /\ c = "create" -> "C"
         [] s \in {"M", "C", "D"} /\ c = "unlink" -> "U"
         [] s = "U" /\ c = "dirsync" -> "D"
         [] OTHER -> "X"
  ELSE IF k = "set" THEN (IF s = "0" /\ c = "sset" THEN "1" ELSE "X")
  ELSE IF k = "getk" THEN (IF s = "0" /\ c = "sget" THEN "1" ELSE "X")
  ELSE IF k = "close" THEN (IF c = "mclose" /\ s = "0" THEN "1" ELSE "X")
  ELSE "any"

Accepting(k, s) ==
  IF k = "open" THEN s \in {"w", "eS", "C", "C2", "D", "ls", "r"}
  ELSE IF k = "store" THEN s \in {"0", "S", "SD", "fD", "rC"}           \* "0": rejected before any I/O
  ELSE IF k = "rotate" THEN s \in {"0", "C"}
  ELSE IF k = "delete" THEN s \in {"0", "M", "C", "D"}
  ELSE TRUE

Init == l = 1 /\ op = "none" /\ st = "0" /\ drift = {} /\ ncalls = 0

Drift(why) == drift' = drift \cup {[line |-> l, op |-> op, state |-> st, why |-> why]}

Next ==
  \/ /\ l <= Len(Trace) /\ l' = l + 1
     /\ IF Ev.ev # "io" THEN
           /\ op' = "none" /\ st' = "0" /\ UNCHANGED <<drift, ncalls>>
        ELSE IF Ev.call = "inv" THEN
           /\ op' = Ev.opk /\ st' = "0" /\ UNCHANGED <<drift, ncalls>>
        ELSE IF Ev.call = "ret" THEN
           /\ IF op \notin {"none", "probe"} /\ st # "any" /\ st # "X" /\ ~Accepting(op, st) THEN Drift("call ended in a non-final position")
              ELSE UNCHANGED drift
           /\ op' = "none" /\ st' = "0" /\ UNCHANGED ncalls
        ELSE IF Ev.call \in {"cleared"} \/ Ev.res # "ok" THEN UNCHANGED <<op, st, drift, ncalls>>
        ELSE LET k == IF op = "none" /\ Ev.bg THEN "rotate" ELSE op
                 s0 == st
                 nx == IF k = "none" THEN "any" ELSE IF s0 \in {"X", "any"} THEN s0 ELSE Step(k, s0, Ev.call)
             IN /\ ncalls' = ncalls + 1
                /\ st' = nx /\ op' = op
                /\ IF nx = "X" /\ s0 # "X" THEN Drift(Ev.call) ELSE UNCHANGED drift
  \/ /\ l = Len(Trace) + 1 /\ PrintT(<<"DRIFT", ToJson([v |-> drift, nobs |-> ncalls])>>) /\ l' = l + 1
     /\ UNCHANGED <<op, st, drift, ncalls>>

Spec == Init /\ [][Next]_vars
Accepted == TLCGet("stats").diameter = Len(Trace) + 2
=============================================================================
