------------------------------ MODULE StableConc ------------------------------
(***************************************************************************)
(* The StableStore under concurrent clients (C08 "across any               *)
(* interleaving"): every call is three steps, as in wal.go Set / Get /     *)
(* SetUint64 / GetUint64 over metadb.BoltMetaDB -                          *)
(*     Start   the call is invoked (closed check, stableMu.RLock)          *)
(*     Txn     the bolt transaction: an atomic read or write of the map    *)
(*     Ret     the call returns what the transaction saw                    *)
(* and clients interleave freely between the steps.  The model is the      *)
(* design: a Get answers from its own transaction, nothing is remembered   *)
(* between calls.  TLC checks that every interleaving is a linearizable    *)
(* per-key register (Fresh: a Get never returns a value that a later Set,  *)
(* completed before the Get was invoked, has overwritten) and exports      *)
(* every interleaving of the client programs as a schedule; the harness    *)
(* (cmd/concdrive, mode stablesched) forces each on the real WAL through   *)
(* gates placed around the MetaStore's GetStable / SetStable (no hook in   *)
(* /repo), records the invocation / response history and spec/             *)
(* StableTrace.tla judges it with the same predicate.                      *)
(***************************************************************************)
EXTENDS Integers, Sequences, FiniteSets, TLC, Json, RegLin

CONSTANTS ProgSet,    \* "quick" | "thorough": which set of client program tuples
          Cache       \* design switch (negative control, must be rejected): a read-through cache in front of the store -
                      \* a Get that misses installs what its transaction read when it returns, a Set drops the entry when
                      \* it returns, a Get that hits answers from the cache without a transaction

(* program tuples: <<prog of client 1, prog of client 2, ...>>, prog = sequence of calls *)
S(k, v) == [op |-> "set", k |-> k, v |-> v]
G(k) == [op |-> "get", k |-> k, v |-> 0]
ProgsQuick ==
  { <<<<S(1, 1), S(1, 2)>>, <<G(1), G(1)>>>>,              \* one writer, one reader of the same key
    <<<<S(1, 1), G(1)>>, <<S(1, 2), G(1)>>>>,              \* two writers of one key, each reads back
    <<<<S(1, 1), G(1)>>, <<G(1), S(1, 2)>>>>,
    <<<<S(1, 1), S(2, 1)>>, <<G(2), G(1)>>>>,              \* two keys
    <<<<S(1, 1)>>, <<G(1)>>, <<S(1, 2)>>>>,                \* three clients, one call each
    <<<<S(1, 1)>>, <<G(1)>>, <<G(1)>>>> }
ProgsThorough == ProgsQuick \cup
  { <<<<S(1, 1), S(1, 2), G(1)>>, <<G(1), G(1)>>>>,
    <<<<S(1, 1), G(1), S(1, 2)>>, <<G(1), S(1, 1)>>>>,
    <<<<S(1, 1), G(1)>>, <<G(1), G(1)>>, <<S(1, 2)>>>>,
    <<<<S(1, 2), S(2, 2)>>, <<G(1), S(1, 1)>>, <<G(2)>>>> }
Progs == IF ProgSet = "quick" THEN ProgsQuick ELSE ProgsThorough

VARIABLES progs,      \* the chosen tuple
          pc,         \* per client: index of the current call (Len + 1 = finished)
          ph,         \* per client: "idle" | "started" | "done_txn"
          seen,       \* per client: what the current call's transaction read
          db,         \* key -> value (0 = never set)
          clock,      \* logical time: one tick per invocation / response
          calls,      \* history: set of [c, n, op, k, v, inv, res]  (res = 0: pending; for get v = value returned)
          sched,      \* sequence of client ids, one per step taken (schedule export)
          cache       \* key -> cached value or -1 (only with Cache)

vars == <<progs, pc, ph, seen, db, clock, calls, sched, cache>>

Clients == 1..Len(progs)
Keys == {1, 2}

Init == /\ progs \in Progs
        /\ pc = [c \in 1..Len(progs) |-> 1] /\ ph = [c \in 1..Len(progs) |-> "idle"] /\ seen = [c \in 1..Len(progs) |-> 0]
        /\ db = [k \in Keys |-> 0] /\ clock = 0 /\ calls = {} /\ sched = <<>> /\ cache = [k \in Keys |-> -1]

Cur(c) == progs[c][pc[c]]
Step(c) == sched' = Append(sched, c)

Start(c) == /\ pc[c] <= Len(progs[c]) /\ ph[c] = "idle"
            /\ ph' = [ph EXCEPT ![c] = "started"] /\ clock' = clock + 1
            /\ calls' = calls \cup {[c |-> c, n |-> pc[c], op |-> Cur(c).op, k |-> Cur(c).k, v |-> Cur(c).v, inv |-> clock + 1, res |-> 0]}
            /\ Step(c) /\ UNCHANGED <<progs, pc, seen, db, cache>>

Hit(c) == Cache /\ Cur(c).op = "get" /\ cache[Cur(c).k] # -1
Txn(c) == /\ pc[c] <= Len(progs[c]) /\ ph[c] = "started"
          /\ IF Cur(c).op = "set" THEN db' = [db EXCEPT ![Cur(c).k] = Cur(c).v] /\ UNCHANGED seen
             ELSE seen' = [seen EXCEPT ![c] = IF Hit(c) THEN cache[Cur(c).k] ELSE db[Cur(c).k]] /\ UNCHANGED db
          /\ ph' = [ph EXCEPT ![c] = "done_txn"]
          /\ Step(c) /\ UNCHANGED <<progs, pc, clock, calls, cache>>

Ret(c) == /\ pc[c] <= Len(progs[c]) /\ ph[c] = "done_txn"
          /\ clock' = clock + 1
          /\ calls' = {IF x.c = c /\ x.n = pc[c]
                       THEN [x EXCEPT !.res = clock + 1, !.v = IF x.op = "get" THEN seen[c] ELSE x.v] ELSE x : x \in calls}
          /\ ph' = [ph EXCEPT ![c] = "idle"] /\ pc' = [pc EXCEPT ![c] = @ + 1]
          /\ cache' = IF ~Cache THEN cache
                      ELSE IF Cur(c).op = "set" THEN [cache EXCEPT ![Cur(c).k] = -1]
                      ELSE [cache EXCEPT ![Cur(c).k] = seen[c]]
          /\ Step(c) /\ UNCHANGED <<progs, seen, db>>

AllDone == \A c \in Clients : pc[c] > Len(progs[c])
Next == (\E c \in Clients : Start(c) \/ Txn(c) \/ Ret(c)) \/ (AllDone /\ UNCHANGED vars)
Spec == Init /\ [][Next]_vars

----------------------------------------------------------------------------
(* The register property, phrased on the invocation / response history (shared with StableTrace). *)
(* A completed Get g may return the value of a Set s on the same key iff s was invoked before g   *)
(* returned and no other Set on that key lies strictly between s and g; it may return 0 (never    *)
(* set) iff no Set on that key completed before g was invoked.                                    *)
Fresh == \A g \in calls : (g.op = "get" /\ g.res # 0) => g.v \in Allowed(calls, g)

(* schedule export: one line per complete interleaving *)
Emit == AllDone => PrintT(<<"SCHED", ToJson([progs |-> progs, sched |-> sched])>>)
=============================================================================
