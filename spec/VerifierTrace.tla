---------------------------- MODULE VerifierTrace ----------------------------
(***************************************************************************)
(* The judge of C16 / C17 / C18 (DESIGN.md 2.10, 5): consumes the trace    *)
(* that harness/cmd/verifreplay recorded from REAL verifier.LogStore       *)
(* instances and evaluates the contract-level clauses of the properties on *)
(* every event.  One step per line; violations are recorded (line, clause) *)
(* instead of stopping, and printed at the end.                            *)
(*                                                                         *)
(* Entries are abstract tuples                                             *)
(*   <<index, term, type, data id, extensions id, ext-is-verifier-meta,    *)
(*     is-checkpoint>>            (<<-1,0,0,0,0,0,0>> = no such entry)     *)
(* Ground truth carried by the events (recorded by the harness, never      *)
(* computed from the reports themselves):                                  *)
(*   store.cps[k]  the checkpoints the call stored: range, and `truth` =   *)
(*                 what the checkpoint's leader held for that range when   *)
(*                 it wrote the checkpoint (`tok` = known and complete)    *)
(*   report.read   what the node's store returns for the range now         *)
(*   report.cur    what the node's store holds for the range, as the node  *)
(*                 handed it over (before any damage at rest)              *)
(*   report.wrote  everything this incarnation handed to its store at the  *)
(*                 indexes of the range (and the checkpoint's index)       *)
(***************************************************************************)
EXTENDS Integers, Sequences, FiniteSets, TLC, Json

CONSTANTS TraceFile
Trace == ndJsonDeserialize(TraceFile)

VARIABLES l,      \* next line
          sid,    \* id of the current scenario
          nd,     \* node -> [trig, ntrig, ndeliv, dacc, rot]
          viol,   \* recorded violations
          stat,   \* how often each clause's antecedent was true (vacuity guard, evidence)
          cells   \* C17 coverage: <<differing fields (bit mask i=1 t=2 type=4 data=8 ext=16), position in range, error class>>

vars == <<l, sid, nd, viol, stat, cells>>

CFG == 5                       \* raft.LogConfiguration
Mismatch == {"inflight", "storage", "mismatch"}

Ev == Trace[l]
Is(k) == l <= Len(Trace) /\ Ev.ev = k
Adv == l' = l + 1

FreshNode == [trig |-> <<>>, ntrig |-> 0, ndeliv |-> 0, dacc |-> 0, rot |-> {}]
ZeroStat == [reports |-> 0, eq |-> 0, lacks |-> 0, div |-> 0, inflight |-> 0, storage |-> 0, range |-> 0, afterdrop |-> 0,
             blockedstores |-> 0, refused |-> 0, failedstores |-> 0, probes |-> 0, drops |-> 0, stores |-> 0,
             dels |-> 0, exempted |-> 0, quiesces |-> 0, undelivered |-> 0, skipped |-> 0, spurious_skipped |-> 0]

Init == /\ l = 1 /\ sid = "" /\ nd = <<>> /\ viol = {} /\ stat = ZeroStat /\ cells = {}

Rec(cl, n) == [line |-> l, clause |-> cl, id |-> sid, n |-> n]
V(S, n) == viol' = viol \cup {Rec(cl, n) : cl \in S}
Bump(fs) == stat' = [k \in DOMAIN stat |-> stat[k] + (IF k \in DOMAIN fs THEN fs[k] ELSE 0)]
B(b) == IF b THEN 1 ELSE 0

Reset ==
  /\ Is("reset") /\ Adv
  /\ sid' = Ev.id
  /\ nd' = [n \in 1..Ev.nodes |-> FreshNode]
  /\ UNCHANGED <<viol, stat, cells>>

Note ==
  /\ Is("note") /\ Adv
  /\ nd' = IF Ev.what = "rot" THEN [nd EXCEPT ![Ev.n].rot = @ \cup {<<Ev.i, Ev.f>>}] ELSE nd
  /\ UNCHANGED <<sid, viol, stat, cells>>

Restart ==
  /\ Is("restart") /\ Adv
  /\ nd' = [nd EXCEPT ![Ev.n] = [FreshNode EXCEPT !.rot = nd[Ev.n].rot]]
  /\ UNCHANGED <<sid, viol, stat, cells>>

(* ---- C18: StoreLogs through the middleware *)
Store ==
  /\ Is("store") /\ Adv
  /\ LET n == Ev.n
         ok == Ev.res = "ok"
         ntrig2 == nd[n].ntrig + Len(Ev.cps)
         bad == (IF Ev.res = "hang" THEN {"C18b_StoreHang"} ELSE {})
           \cup (IF Ev.foreign /\ ok THEN {"C18a_ForeignAccepted"} ELSE {})
           \cup (IF ~Ev.foreign /\ Ev.res # "hang" /\ Ev.res # Ev.tres THEN {"C18a_ResultDiffers"} ELSE {})
           \cup (IF ~Ev.foreign /\ ~Ev.fail /\ ~Ev.noncontig /\ Ev.res = "err" THEN {"C18a_StoreFailed"} ELSE {})
           \cup (IF ok /\ Ev.met[1] # ntrig2 THEN {"C18c_CheckpointsWritten"} ELSE {})
     IN /\ V(bad, n)
        /\ nd' = IF ok THEN [nd EXCEPT ![n].trig = @ \o Ev.cps, ![n].ntrig = ntrig2] ELSE nd
        /\ Bump([stores |-> 1, blockedstores |-> B(ok /\ Ev.blocked), refused |-> B(Ev.foreign /\ ~ok),
                 failedstores |-> B(Ev.fail /\ ~ok)])
  /\ UNCHANGED <<sid, cells>>

Delete ==
  /\ Is("del") /\ Adv
  /\ V(IF Ev.res # Ev.tres THEN {"C18a_DeleteDiffers"} ELSE {}, Ev.n)
  /\ Bump([dels |-> 1])
  /\ UNCHANGED <<sid, nd, cells>>

(* ---- C18a: every read through the middleware equals the twin's *)
SameEnt(a, b, relaxExt) ==
  \/ (a[1] = -1 /\ b[1] = -1)
  \/ /\ a[1] = b[1] /\ a[2] = b[2] /\ a[3] = b[3] /\ a[4] = b[4]
     /\ \/ a[5] = b[5]
        \/ (b[7] = 1 /\ b[5] = 0 /\ a[6] = 1)      \* a checkpoint gained verification metadata in its empty Extensions
        \/ relaxExt
Probe ==
  /\ Is("probe") /\ Adv
  /\ LET n == Ev.n
         rotE == {x[1] : x \in nd[n].rot}     \* a damaged entry is damaged in both stores, but a checkpoint's Extensions
                                              \* differ between them to begin with: do not compare Extensions there
         bad == (IF Ev.first # Ev.tfirst \/ Ev.last # Ev.tlast \/ Ev.errs THEN {"C18a_IndexDiffers"} ELSE {})
           \cup (IF Len(Ev.mw) # Len(Ev.tw) THEN {"C18a_EntryDiffers"}
                 ELSE IF \E p \in 1..Len(Ev.mw) : ~SameEnt(Ev.mw[p], Ev.tw[p], (Ev.lo + p - 1) \in rotE)
                      THEN {"C18a_EntryDiffers"} ELSE {})
     IN V(bad, n)
  /\ Bump([probes |-> 1])
  /\ UNCHANGED <<sid, nd, cells>>

(* ---- C16 / C17 / C18d: a delivered report *)
InRange(i, a, b) == i >= a /\ i < b
Core(x) == <<x[1], x[2], x[3], x[4], x[5]>>

Report ==
  /\ Is("report") /\ Adv
  /\ LET n == Ev.n
         q == nd[n].trig
         ps == {p \in 1..Len(q) : q[p].s = Ev.s /\ q[p].e = Ev.e}
     IN IF ps = {}
        THEN /\ V({"C18c_ReportWithoutCheckpoint"}, n) /\ Bump([reports |-> 1])
             /\ nd' = [nd EXCEPT ![n].ndeliv = @ + 1] /\ cells' = cells
        ELSE
        LET p == CHOOSE x \in ps : \A y \in ps : x <= y
            T == q[p]
            D == SubSeq(q, 1, p - 1)                       \* checkpoints dropped since the previous accepted one
            same == T.tok /\ T.ts = Ev.s /\ T.te = Ev.e /\ Len(T.truth) = Ev.e - Ev.s
            sane == Ev.e >= Ev.s                           \* (a range taken from damaged metadata may be nonsense: no claim)
            held == /\ sane /\ Len(Ev.read) = Ev.e - Ev.s
                    /\ \A k \in 1..Len(Ev.read) : Ev.read[k][1] # -1
            lacks == sane /\ ~held
            exempt(k) == /\ Ev.read[k][1] = 1 /\ Ev.read[k][3] = CFG           \* checksumLog's bootstrap exception:
                         /\ T.truth[k][1] = 1 /\ T.truth[k][3] = CFG           \* an index-1 configuration entry on the
                         /\ k <= Len(Ev.cur) /\ Ev.cur[k][1] = 1 /\ Ev.cur[k][3] = CFG   \* leader, in the store and as read
            differs(k) == Core(Ev.read[k]) # Core(T.truth[k])
            cpok == T.tok /\ Core(Ev.cpread) = Core(T.cp)          \* the checkpoint entry itself is stored as its leader wrote it
            stored(k) == Core(Ev.cur[k]) = Core(T.truth[k])           \* stored exactly as the leader wrote it ...
            eq == same /\ held /\ cpok /\ Len(Ev.cur) = Len(Ev.read)  \* ... and read back unchanged
                  /\ \A k \in 1..Len(Ev.read) : (stored(k) /\ ~differs(k)) \/ exempt(k)
            div == same /\ held /\ \E k \in 1..Len(Ev.read) : differs(k) /\ ~exempt(k)
            exm == same /\ held /\ \E k \in 1..Len(Ev.read) : differs(k) /\ exempt(k)
            wother == \/ ~T.tok
                      \/ \E k \in 1..Len(Ev.wrote) :
                           LET w == Ev.wrote[k] IN
                           \/ (w[1] = T.te /\ Core(w) # Core(T.cp))
                           \/ (InRange(w[1], T.ts, T.te) /\ Core(w) # Core(T.truth[w[1] - T.ts + 1]))
            mask(k) == B(Ev.read[k][1] # T.truth[k][1]) + 2 * B(Ev.read[k][2] # T.truth[k][2])
                       + 4 * B(Ev.read[k][3] # T.truth[k][3]) + 8 * B(Ev.read[k][4] # T.truth[k][4])
                       + 16 * B(Ev.read[k][5] # T.truth[k][5])
            pos(k) == IF Len(Ev.read) = 1 THEN "only" ELSE IF k = 1 THEN "first" ELSE IF k = Len(Ev.read) THEN "last" ELSE "mid"
            named(i) == \/ i >= Ev.s                       \* inside this report's range, or beyond it (only possible when the
                                                           \* dropped checkpoint itself was truncated away afterwards)
                        \/ (Ev.sk # <<>> /\ InRange(i, Ev.sk[1], Ev.sk[2]))
            skok == \A k \in 1..Len(D) : \A i \in D[k].s..(D[k].e - 1) : named(i)
            bad == (IF eq /\ Ev.err \in Mismatch THEN {"C16_FalseAlarm"} ELSE {})
              \cup (IF lacks /\ Ev.err \in Mismatch /\ T.tok /\ ~wother THEN {"C16_LacksCorruption"} ELSE {})
              \cup (IF lacks /\ Ev.err \notin (Mismatch \cup {"range"}) THEN {"C16_LacksNotRange"} ELSE {})
              \cup (IF div /\ Ev.err \notin Mismatch THEN {"C17_Missed"} ELSE {})
              \cup (IF Ev.err = "inflight" /\ ~wother THEN {"C17_Blame"} ELSE {})
              \cup (IF ~skok THEN {"C18d_SkippedNotNamed"} ELSE {})
        IN /\ V(bad, n)
           /\ cells' = IF div /\ sid # "st-doctored" THEN cells \cup {<<mask(k), pos(k), Ev.err>> : k \in {x \in 1..Len(Ev.read) : differs(x) /\ ~exempt(x)}}
                       ELSE cells
           /\ nd' = [nd EXCEPT ![n].trig = SubSeq(q, p + 1, Len(q)), ![n].ndeliv = @ + 1, ![n].dacc = @ + Len(D)]
           /\ Bump([reports |-> 1, eq |-> B(eq), lacks |-> B(lacks), div |-> B(div), inflight |-> B(Ev.err = "inflight"),
                    storage |-> B(Ev.err = "storage"), range |-> B(Ev.err = "range"), afterdrop |-> B(Len(D) > 0), drops |-> Len(D),
                    exempted |-> B(exm), skipped |-> B(Ev.sk # <<>>), spurious_skipped |-> B(Ev.sk # <<>> /\ Len(D) = 0)])
  /\ UNCHANGED sid

(* ---- C18c: at quiescence every checkpoint is a delivered report or a counted drop *)
Quiesce ==
  /\ Is("quiesce") /\ Adv
  /\ LET n == Ev.n
         cpw == Ev.met[1]  drop == Ev.met[2]  ver == Ev.met[3]
         bad == (IF cpw # nd[n].ntrig THEN {"C18c_CheckpointsWritten"} ELSE {})
           \cup (IF ver # nd[n].ndeliv \/ Ev.ndeliv # nd[n].ndeliv THEN {"C18c_RangesVerified"} ELSE {})
           \cup (IF cpw # nd[n].ndeliv + drop \/ drop # nd[n].dacc + Len(nd[n].trig) THEN {"C18c_Accounting"} ELSE {})
     IN /\ V(bad, n) /\ Bump([quiesces |-> 1, undelivered |-> Len(nd[n].trig)])
  /\ UNCHANGED <<sid, nd, cells>>   \* undelivered checkpoints stay pending: the next report has to name them

Finish ==
  /\ l = Len(Trace) + 1
  /\ PrintT(<<"VIOL", ToJson([v |-> viol, stat |-> stat, cells |-> cells])>>)
  /\ l' = l + 1
  /\ UNCHANGED <<sid, nd, viol, stat, cells>>

Next == Reset \/ Note \/ Restart \/ Store \/ Delete \/ Probe \/ Report \/ Quiesce \/ Finish

Spec == Init /\ [][Next]_vars

TypeOK == l \in 1..(Len(Trace) + 2)

(* every line consumed exactly once: the judge is deterministic *)
Accepted == TLCGet("stats").diameter = Len(Trace) + 2
=============================================================================
