----------------------------- MODULE StableTrace -----------------------------
(***************************************************************************)
(* Judge of recorded StableStore histories (cmd/concdrive, mode            *)
(* stablesched: TLC-generated interleavings of spec/StableConc.tla forced  *)
(* on the real WAL).  Events: reset (a new run), sinv / sres (invocation / *)
(* response of a call, stamped with the run's logical clock).  Clauses:    *)
(*   StableStale   a completed Get returned a value RegLin!Allowed forbids  *)
(*   StableError   a call returned an error (none is injected here)        *)
(* Violations are recorded with the trace line.                            *)
(***************************************************************************)
EXTENDS Integers, Sequences, FiniteSets, TLC, Json, RegLin

CONSTANTS TraceFile
Trace == ndJsonDeserialize(TraceFile)

VARIABLES l, calls, viol, nget, nover
vars == <<l, calls, viol, nget, nover>>
Ev == Trace[l]

Init == l = 1 /\ calls = {} /\ viol = {} /\ nget = 0 /\ nover = 0

Step ==
  /\ l <= Len(Trace) /\ l' = l + 1
  /\ IF Ev.ev = "reset" THEN calls' = {} /\ UNCHANGED <<viol, nget, nover>>
     ELSE IF Ev.ev = "sinv" THEN
          /\ calls' = calls \cup {[c |-> Ev.c, n |-> Ev.n, op |-> Ev.op, k |-> Ev.k, v |-> Ev.v, inv |-> Ev.t, res |-> 0]}
          /\ UNCHANGED <<viol, nget, nover>>
     ELSE IF Ev.ev = "sres" THEN
          LET mine == {x \in calls : x.c = Ev.c /\ x.n = Ev.n /\ x.res = 0}
              H == {IF x \in mine THEN [x EXCEPT !.res = Ev.t, !.v = Ev.v] ELSE x : x \in calls}
              g == [c |-> Ev.c, n |-> Ev.n, op |-> Ev.op, k |-> Ev.k, v |-> Ev.v, inv |-> (CHOOSE x \in mine : TRUE).inv, res |-> Ev.t]
          IN /\ calls' = H
             /\ IF mine = {} THEN viol' = viol \cup {[line |-> l, clause |-> "Unmatched"]} /\ UNCHANGED <<nget, nover>>
                ELSE IF Ev.res # "ok" THEN viol' = viol \cup {[line |-> l, clause |-> "StableError"]} /\ UNCHANGED <<nget, nover>>
                ELSE IF Ev.op = "get" THEN
                     /\ nget' = nget + 1
                     \* reads that overlapped a Set on their key (the interesting ones)
                     /\ nover' = nover + (IF \E s \in SetsOn(H, g.k) : s.inv < g.res /\ (s.res = 0 \/ s.res > g.inv) THEN 1 ELSE 0)
                     /\ viol' = IF Ev.v \in Allowed(H, g) THEN viol ELSE viol \cup {[line |-> l, clause |-> "StableStale"]}
                ELSE UNCHANGED <<viol, nget, nover>>
     ELSE UNCHANGED <<calls, viol, nget, nover>>

Finish == /\ l = Len(Trace) + 1 /\ PrintT(<<"VIOL", ToJson([v |-> viol, nget |-> nget, nover |-> nover])>>) /\ l' = l + 1
          /\ UNCHANGED <<calls, viol, nget, nover>>
Next == Step \/ Finish
Spec == Init /\ [][Next]_vars
Accepted == TLCGet("stats").diameter = Len(Trace) + 2
=============================================================================
