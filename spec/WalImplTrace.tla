----------------------------- MODULE WalImplTrace -----------------------------
(***************************************************************************)
(* Stateful trace specification of the storage engine: the I/O the REAL    *)
(* code performs (io.ndjson: one event per VFS / MetaStore call, API       *)
(* markers with arguments at `inv` and result + reported log bounds at     *)
(* `ret`) is replayed against the engine's state machine of spec/WalImpl   *)
(* - the committed metadata (segment list + next id), the directory, and   *)
(* the contract's log bounds - with the metadata transactions taken from   *)
(* the same module (SegOps) the design model uses.  After every recorded   *)
(* call the state the specification predicts is compared with what the     *)
(* code wrote or reported (DESIGN.md 4.2, lock-step comparison):           *)
(*                                                                         *)
(*   Shape*          the segment list + next id handed to CommitState is   *)
(*                   exactly the result of the SegOps transaction the      *)
(*                   current call has to perform on the last committed     *)
(*                   metadata: InitResult / RotateResult (background, or   *)
(*                   completed by Open) / ResetResult / HeadResult /       *)
(*                   TailResult; a call that has no transaction to perform *)
(*                   (no-op or rejected truncation, reads, StableStore)    *)
(*                   commits nothing (UnexpectedCommit)                    *)
(*   MetaWellFormed  every committed list is ordered, contiguous, all but  *)
(*                   the last sealed, ids increasing and below next        *)
(*   IndexStartSet   sealed segments carry an index position, the tail not *)
(*   CreateIsTail    a file is created only as the tail the committed      *)
(*                   metadata names (id AND base index in the file name)   *)
(*   UnlinkUnlisted  only files the committed metadata no longer lists go  *)
(*   OpenMatchesMeta Open opens sealed segments for reading and the tail   *)
(*                   for writing, under the names the metadata gives       *)
(*   WriteOnlyTail   segment writes / fsyncs only ever touch the tail      *)
(*   WriteShape      ONE write per batch, holding exactly: the file header *)
(*                   iff it is the first write of the file, one entry      *)
(*                   frame per submitted entry, an index frame iff the     *)
(*                   batch seals the segment, one commit frame (a batch    *)
(*                   split over several writes could be torn BETWEEN them: *)
(*                   C02's batch atomicity rests on this); a forced seal   *)
(*                   writes index + commit; Open writes only zeros         *)
(*   WriteContiguous every write starts where the previous one ended       *)
(*   IndexCount      an index frame lists one offset per entry in the file *)
(*   RotationDue     an append that wrote the index frame is followed by   *)
(*                   the background rotation before the next call, and no  *)
(*                   rotation happens without one                          *)
(*   BoundsMatch     FirstIndex/LastIndex reported at the return of every  *)
(*                   call = the contract's bounds (LogOps) after the call  *)
(*   MetaDescribesLog the committed metadata denotes those bounds          *)
(*   DirExact        between calls the directory holds exactly the listed  *)
(*                   segments                                              *)
(*                                                                         *)
(* Unknown parts of the state (a run that starts from a crash image) are   *)
(* learnt from what the code is handed: metadata at Load, the directory    *)
(* at ListDir, the log bounds at the return of Open.  Clauses whose        *)
(* premises are unknown are skipped, never guessed.                        *)
(* Mismatches are recorded with the trace line; the caller reports them as *)
(* impl_drift (the code no longer follows the implementation-level spec),  *)
(* not as property violations - the properties are judged at contract      *)
(* level by WalJudge on the same runs.                                     *)
(***************************************************************************)
EXTENDS Integers, Sequences, FiniteSets, TLC, Json, LogOps, SegOps

CONSTANTS TraceFile
Trace == ndJsonDeserialize(TraceFile)

VARIABLES l,
          mk, meta,      \* committed metadata known? / [next, segs]
          dk, dir,       \* directory known? / set of segment ids present
          lk, lf, ll,    \* log bounds known? / first, last (0, 0 = empty)
          op,            \* the API call in progress: [k, first, n, cons, min, max]
          ncommit,       \* metadata commits seen inside the current call
          prev,          \* the metadata before the first commit of the current call / background rotation
          rb,            \* the file creation that follows a commit failed: the transaction has to be rolled back
          wend, fent,    \* per file id written in full view of this run: end of the last write (chunks) / entry frames in it
          rotdue,        \* an append wrote the index frame: the background rotation is due
          viol, cnt      \* recorded mismatches / number of clause evaluations per clause family

vars == <<l, mk, meta, dk, dir, lk, lf, ll, op, ncommit, prev, rb, wend, fent, rotdue, viol, cnt>>

Ev == Trace[l]
NoOp == [k |-> "none", first |-> 0, n |-> 0, cons |-> FALSE, min |-> 0, max |-> 0]
NoMeta == [next |-> 0, segs |-> <<>>]
ToSet(sq) == {sq[j] : j \in 1..Len(sq)}
Put(f, k, v) == [x \in DOMAIN f \cup {k} |-> IF x = k THEN v ELSE f[x]]
SegsOf(e) == [k \in 1..Len(e.segs) |-> Seg(e.segs[k][1], e.segs[k][2], e.segs[k][3], e.segs[k][4], e.segs[k][5] = 1)]
IStartOK(e) == \A k \in 1..Len(e.segs) : (e.segs[k][5] = 1) = (e.segs[k][6] > 0)

Bnd == [f |-> lf, l |-> ll]
Emp == ll = 0
(* DeleteRange classification on bounds, as the code does it (WAL.DeleteRange).  It is LogOps!DelClass except on an  *)
(* EMPTY log (first = last = 0) with min = 0: the code takes that for a head truncation, removes the empty tail and   *)
(* commits + creates a fresh one (invisible at contract level: the log stays empty).                                  *)
DClass(mn, mx) ==
  IF mn > mx THEN "noop"
  ELSE IF mx < lf \/ mn > ll THEN "noop"
  ELSE IF mn <= lf THEN "head"
  ELSE IF mx >= ll THEN "tail"
  ELSE "middle"
StoreLegal(o) == o.n = 0 \/ (o.cons /\ o.first >= 1 /\ (Emp \/ o.first = ll + 1))

Init == /\ l = 1 /\ mk = FALSE /\ meta = NoMeta /\ dk = FALSE /\ dir = {} /\ lk = FALSE /\ lf = 0 /\ ll = 0
        /\ op = NoOp /\ ncommit = 0 /\ prev = NoMeta /\ rb = FALSE /\ wend = <<>> /\ fent = <<>> /\ rotdue = FALSE /\ viol = {}
        /\ cnt = [shape |-> 0, wf |-> 0, file |-> 0, bounds |-> 0, dirx |-> 0, wshape |-> 0,
                  \* transactions whose committed result was compared, per kind (vacuity guard)
                  Init |-> 0, Rotate |-> 0, OpenRotate |-> 0, Reset |-> 0, Head |-> 0, Tail |-> 0, Recommit |-> 0]

Bump(f) == [cnt EXCEPT ![f] = @ + 1]
\* record every clause of the set cs (a set of strings) as violated at this line
Rec(cs) == viol' = viol \cup {[line |-> l, clause |-> c] : c \in cs}

(* an injected I/O failure (fault runs, C10): the only one that changes what the engine has to do next at this level   *)
(* is a failed file creation after a metadata commit; any failure makes the directory clause moot until the next Open *)
(* (a failed unlink leaves its file, C13 is about crash / no-fault histories)                                         *)
Failed ==
  /\ rb' = IF Ev.call = "mcommit" THEN FALSE        \* the roll-back itself failed: the WAL refuses writes until reopened
           ELSE rb \/ (Ev.call = "create" /\ mk /\ ncommit > 0 /\ meta.segs # <<>> /\ Ev.id = TailOf(meta.segs).id)
  /\ dk' = FALSE
  /\ dir' = IF Ev.call = "create" /\ Ev.res = "err-left" THEN dir \cup {Ev.id} ELSE dir
  /\ wend' = <<>> /\ fent' = <<>> /\ rotdue' = FALSE       \* (a rolled-back append leaves the file tracking moot)
  /\ UNCHANGED <<mk, meta, lk, lf, ll, op, ncommit, prev, viol, cnt>>

(* the metadata the current call has to commit, or "none" *)
Expected(new) ==
  IF rb THEN
       \* fix F15 (WalImpl!DelCreateFails / RotateCreateFails with Recommit, KeepNextId): the state that stays in use is
       \* committed again, with the advanced next id (the abandoned id may name a file that was left behind)
       [k |-> "Recommit", v |-> [next |-> meta.next, segs |-> prev.segs]]
  ELSE IF Ev.bg \/ op.k = "none" THEN
       IF lk THEN [k |-> "Rotate", v |-> RotateResult(meta.segs, meta.next, ll)] ELSE [k |-> "skip", v |-> NoMeta]
  ELSE IF op.k = "open" THEN
       IF meta.segs = <<>> \/ TailOf(meta.segs).sealed THEN [k |-> "Init", v |-> InitResult(meta.segs, meta.next)]
       ELSE \* a recovered tail that is sealed on disk: Open completes the rotation at the recovered last index
            IF Len(new.segs) >= 2
            THEN [k |-> "OpenRotate", v |-> RotateResult(meta.segs, meta.next, new.segs[Len(new.segs) - 1].max)]
            ELSE [k |-> "OpenRotate", v |-> NoMeta]
  ELSE IF op.k = "store" THEN
       IF ~lk THEN [k |-> "skip", v |-> NoMeta]
       \* the base-index reset comes BEFORE the batch is validated (StoreLogs): a batch that is refused afterwards
       \* (non-consecutive indexes) has already replaced the empty tail - invisible at contract level
       ELSE IF Emp /\ op.n > 0 /\ op.first # TailOf(meta.segs).base /\ ncommit = 0
       THEN [k |-> "Reset", v |-> ResetResult(meta.segs, meta.next, op.first)]
       ELSE [k |-> "none", v |-> NoMeta]
  ELSE IF op.k = "delete" THEN
       IF ~lk THEN [k |-> "skip", v |-> NoMeta]
       ELSE IF ncommit > 0 THEN [k |-> "none", v |-> NoMeta]
       ELSE IF DClass(op.min, op.max) = "head" THEN [k |-> "Head", v |-> HeadResult(meta.segs, meta.next, op.max + 1, ll)]
       ELSE IF DClass(op.min, op.max) = "tail" THEN [k |-> "Tail", v |-> TailResult(meta.segs, meta.next, op.min - 1)]
       ELSE [k |-> "none", v |-> NoMeta]
  ELSE [k |-> "none", v |-> NoMeta]

Commit ==
  LET new == [next |-> Ev.next, segs |-> SegsOf(Ev)]
      ex == IF mk THEN Expected(new) ELSE [k |-> "skip", v |-> NoMeta]
      bad == (IF WellFormed(new.segs, new.next) THEN {} ELSE {"MetaWellFormed"})
             \cup (IF IStartOK(Ev) THEN {} ELSE {"IndexStartSet"})
             \cup (IF ex.k = "skip" THEN {}
                   ELSE IF ex.k = "none" THEN {"UnexpectedCommit"}
                   ELSE IF ex.v = new THEN {} ELSE {"Shape" \o ex.k})
             \* a background rotation only ever follows an append that wrote the index frame of the tail
             \cup (IF ex.k = "Rotate" /\ ~rotdue /\ TailOf(meta.segs).id \in DOMAIN fent THEN {"RotationDue"} ELSE {})
  IN /\ Rec(bad)
     /\ rotdue' = IF ex.k \in {"Rotate", "Recommit"} THEN FALSE ELSE rotdue
     /\ meta' = new /\ mk' = TRUE /\ ncommit' = ncommit + 1
     /\ prev' = (IF rb THEN prev ELSE meta) /\ rb' = FALSE
     /\ cnt' = LET c1 == [cnt EXCEPT !.wf = @ + 1, !.shape = IF ex.k = "skip" THEN @ ELSE @ + 1] IN
               IF ex.k \in {"skip", "none"} THEN c1 ELSE [c1 EXCEPT ![ex.k] = @ + 1]
     /\ UNCHANGED <<dk, dir, lk, lf, ll, op, wend, fent>>

Load ==
  LET ld == [next |-> Ev.next, segs |-> SegsOf(Ev)] IN
  /\ Rec(IF mk /\ meta # ld THEN {"LoadIsCommitted"} ELSE {})
  /\ meta' = ld /\ mk' = TRUE
  /\ UNCHANGED <<dk, dir, lk, lf, ll, op, ncommit, cnt, prev, rb, wend, fent, rotdue>>

List ==
  /\ Rec(IF dk /\ dir # ToSet(Ev.ids) THEN {"ListIsDir"} ELSE {})
  /\ dir' = ToSet(Ev.ids) /\ dk' = TRUE
  /\ UNCHANGED <<mk, meta, lk, lf, ll, op, ncommit, cnt, prev, rb, wend, fent, rotdue>>

Create ==
  LET t == TailOf(meta.segs)
      bad == IF mk /\ meta.segs # <<>> THEN (IF t.id = Ev.id /\ t.base = Ev.base /\ ~t.sealed THEN {} ELSE {"CreateIsTail"})
             ELSE IF mk THEN {"CreateIsTail"} ELSE {}
  IN /\ Rec(bad)
     /\ dir' = dir \cup {Ev.id}
     /\ cnt' = IF mk THEN Bump("file") ELSE cnt
     /\ wend' = Put(wend, Ev.id, 0) /\ fent' = Put(fent, Ev.id, 0)        \* a file this run has seen from its creation
     /\ UNCHANGED <<mk, meta, dk, lk, lf, ll, op, ncommit, prev, rb, rotdue>>

Unlink ==
  /\ Rec(IF mk /\ Ev.id \in Ids(meta.segs) THEN {"UnlinkUnlisted"} ELSE {})
  /\ dir' = dir \ {Ev.id}
  /\ cnt' = IF mk THEN Bump("file") ELSE cnt
  /\ UNCHANGED <<mk, meta, dk, lk, lf, ll, op, ncommit, prev, rb, wend, fent, rotdue>>

OpenFile ==      \* openr / openw during Open
  LET match == {k \in 1..Len(meta.segs) : meta.segs[k].id = Ev.id /\ meta.segs[k].base = Ev.base}
      ok == /\ match # {}
            /\ \A k \in match : meta.segs[k].sealed = (Ev.call = "openr")
  IN /\ Rec(IF mk /\ op.k = "open" /\ ~ok THEN {"OpenMatchesMeta"} ELSE {})
     /\ cnt' = IF mk /\ op.k = "open" THEN Bump("file") ELSE cnt
     /\ UNCHANGED <<mk, meta, dk, dir, lk, lf, ll, op, ncommit, prev, rb, wend, fent, rotdue>>

Sync ==
  /\ Rec(IF mk /\ meta.segs # <<>> /\ Ev.id # TailOf(meta.segs).id THEN {"WriteOnlyTail"} ELSE {})
  /\ cnt' = IF mk THEN Bump("file") ELSE cnt
  /\ UNCHANGED <<mk, meta, dk, dir, lk, lf, ll, op, ncommit, prev, rb, wend, fent, rotdue>>

(* what one write may hold: the harness logs the frame letters and their counts (H file header, E entry, I index, C commit) *)
Write ==
  LET known == Ev.id \in DOMAIN wend
      first == Ev.woff = 0
      fr == Ev.frames
      nE == Ev.nent
      isBatch == op.k = "store" /\ op.n > 0
      shapeOK == IF isBatch THEN /\ Ev.nhdr = (IF first THEN 1 ELSE 0) /\ nE = op.n /\ Ev.ncmt = 1 /\ Ev.nidxf \in {0, 1} /\ Ev.wellformed
                 ELSE IF op.k = "delete" THEN Ev.nhdr = 0 /\ nE = 0 /\ Ev.nidxf = 1 /\ Ev.ncmt = 1 /\ Ev.wellformed
                 ELSE IF op.k = "open" THEN fr = "Z"
                 ELSE FALSE
      bad == (IF mk /\ meta.segs # <<>> /\ Ev.id # TailOf(meta.segs).id THEN {"WriteOnlyTail"} ELSE {})
             \cup (IF shapeOK THEN {} ELSE {"WriteShape"})
             \cup (IF known /\ fr # "Z" /\ Ev.woff # wend[Ev.id] THEN {"WriteContiguous"} ELSE {})
             \cup (IF known /\ Ev.nidxf = 1 /\ Ev.nidx # fent[Ev.id] + nE THEN {"IndexCount"} ELSE {})
  IN /\ Rec(bad)
     /\ cnt' = [cnt EXCEPT !.file = @ + 1, !.wshape = @ + 1]
     /\ wend' = IF ~known THEN wend
                ELSE IF fr = "Z" THEN [wend EXCEPT ![Ev.id] = Ev.woff] ELSE [wend EXCEPT ![Ev.id] = Ev.end]
     /\ fent' = IF fr = "Z" THEN fent ELSE IF known THEN [fent EXCEPT ![Ev.id] = @ + nE] ELSE fent
     /\ rotdue' = (rotdue \/ (isBatch /\ Ev.nidxf = 1))
     /\ UNCHANGED <<mk, meta, dk, dir, lk, lf, ll, op, ncommit, prev, rb>>

Inv ==
  /\ op' = [k |-> Ev.opk, first |-> Ev.afirst, n |-> Ev.an, cons |-> Ev.acons, min |-> Ev.amin, max |-> Ev.amax]
  /\ ncommit' = 0 /\ rb' = FALSE
  \* between calls (background work of the previous call has quiesced) the directory is exactly the listed segments
  /\ IF mk /\ dk /\ Ev.opk # "open"
     THEN /\ Rec((IF dir = Ids(meta.segs) THEN {} ELSE {"DirExact"})
                 \* the rotation an append made due has happened by the time the next call starts (the driver lets
                 \* background work quiesce after every call)
                 \cup (IF rotdue THEN {"RotationDue"} ELSE {}))
          /\ cnt' = Bump("dirx")
     ELSE /\ UNCHANGED viol /\ UNCHANGED cnt
  /\ rotdue' = FALSE
  /\ UNCHANGED <<mk, meta, dk, dir, lk, lf, ll, prev, wend, fent>>

(* the contract's bounds after the call that returns now *)
NewBounds ==
  IF op.k = "store" /\ Ev.ares = "ok" /\ op.n > 0
  THEN [f |-> IF Emp THEN op.first ELSE lf, l |-> op.first + op.n - 1]
  ELSE IF op.k = "delete" /\ Ev.ares = "ok"
  THEN LET c == DClass(op.min, op.max) IN
       IF c = "head" THEN (IF op.max >= ll THEN [f |-> 0, l |-> 0] ELSE [f |-> op.max + 1, l |-> ll])
       ELSE IF c = "tail" THEN [f |-> lf, l |-> op.min - 1]
       ELSE Bnd
  ELSE Bnd

DescribesLog(b) ==       \* the committed metadata denotes the bounds b
  LET s == meta.segs t == TailOf(s) IN
  IF b.l = 0 THEN Len(s) = 1
  ELSE /\ b.f = s[1].min
       /\ b.l >= t.base - 1
       /\ (Len(s) > 1 => b.l >= s[Len(s) - 1].max)
       /\ (Len(s) = 1 => b.l >= t.base)

Ret ==
  LET observed == Ev.afirst >= 0 /\ Ev.alast >= 0
      obs == [f |-> Ev.afirst, l |-> Ev.alast]
  IN
  /\ op' = NoOp /\ ncommit' = 0
  /\ IF op.k = "open" THEN
        \* learn (or, on a clean reopen, compare) the log bounds
        IF Ev.ares = "ok" /\ observed
        THEN /\ lf' = obs.f /\ ll' = obs.l /\ lk' = TRUE
             /\ Rec((IF lk /\ Bnd # obs THEN {"ReopenBounds"} ELSE {})
                    \cup (IF mk /\ meta.segs # <<>> /\ ~DescribesLog(obs) THEN {"MetaDescribesLog"} ELSE {})
                    \cup (IF mk /\ dk /\ dir # Ids(meta.segs) THEN {"DirExact"} ELSE {}))
             /\ cnt' = [cnt EXCEPT !.bounds = @ + 1, !.dirx = @ + 1]
        ELSE /\ lk' = FALSE /\ UNCHANGED <<lf, ll, viol, cnt>>
     ELSE IF ~lk \/ op.k \notin {"store", "delete"} THEN
        \* reads, StableStore calls, Close: the bounds stay; when reported they must be the same
        /\ UNCHANGED <<lk, lf, ll>>
        /\ IF lk /\ observed /\ op.k # "close"
           THEN /\ Rec(IF Bnd = obs THEN {} ELSE {"BoundsMatch"}) /\ cnt' = Bump("bounds")
           ELSE UNCHANGED <<viol, cnt>>
     ELSE IF Ev.ares = "ok" THEN
        LET nb == NewBounds IN
        /\ lf' = nb.f /\ ll' = nb.l /\ lk' = TRUE
        /\ Rec((IF observed /\ obs # nb THEN {"BoundsMatch"} ELSE {})
               \cup (IF mk /\ meta.segs # <<>> /\ ~DescribesLog(nb) THEN {"MetaDescribesLog"} ELSE {})
               \cup (IF op.k = "store" /\ ~StoreLegal(op) THEN {"AcceptedIllegal"} ELSE {})
               \cup (IF op.k = "delete" /\ DClass(op.min, op.max) = "middle" THEN {"AcceptedIllegal"} ELSE {}))
        /\ cnt' = Bump("bounds")
     ELSE IF Ev.ares = "err" THEN
        \* a refused call changes nothing; a legal call that failed leaves the bounds unknown until the next Open
        LET legal == IF op.k = "store" THEN StoreLegal(op) ELSE DClass(op.min, op.max) # "middle" IN
        /\ lk' = ~legal /\ UNCHANGED <<lf, ll>>
        /\ IF ~legal /\ observed
           THEN /\ Rec(IF Bnd = obs THEN {} ELSE {"BoundsMatch"}) /\ cnt' = Bump("bounds")
           ELSE UNCHANGED <<viol, cnt>>
     ELSE /\ lk' = FALSE /\ UNCHANGED <<lf, ll, viol, cnt>>
  /\ UNCHANGED <<mk, meta, dk, dir, prev, rb, wend, fent, rotdue>>

Skip == UNCHANGED <<mk, meta, dk, dir, lk, lf, ll, op, ncommit, prev, rb, wend, fent, rotdue, viol, cnt>>

Step ==
  /\ l <= Len(Trace) /\ l' = l + 1
  /\ IF Ev.ev = "reset" THEN
        /\ mk' = FALSE /\ meta' = NoMeta /\ dk' = FALSE /\ dir' = {} /\ lk' = FALSE /\ lf' = 0 /\ ll' = 0
        /\ op' = NoOp /\ ncommit' = 0 /\ prev' = NoMeta /\ rb' = FALSE /\ wend' = <<>> /\ fent' = <<>> /\ rotdue' = FALSE
        /\ UNCHANGED <<viol, cnt>>
     ELSE IF Ev.ev # "io" THEN Skip
     ELSE IF Ev.call = "inv" THEN Inv
     ELSE IF Ev.call = "ret" THEN Ret
     ELSE IF Ev.res # "ok" THEN (IF Ev.call \in {"create", "write", "sync", "dirsync", "unlink", "mcommit"} THEN Failed ELSE Skip)
     ELSE IF Ev.call = "mcommit" THEN Commit
     ELSE IF Ev.call = "mload" THEN Load
     ELSE IF Ev.call = "list" THEN List
     ELSE IF Ev.call = "create" THEN Create
     ELSE IF Ev.call = "unlink" THEN Unlink
     ELSE IF Ev.call \in {"openr", "openw"} THEN OpenFile
     ELSE IF Ev.call = "write" THEN Write
     ELSE IF Ev.call = "sync" THEN Sync
     ELSE Skip

Finish == /\ l = Len(Trace) + 1 /\ PrintT(<<"IMPLTRACE", ToJson([v |-> viol, cnt |-> cnt])>>) /\ l' = l + 1
          /\ UNCHANGED <<mk, meta, dk, dir, lk, lf, ll, op, ncommit, prev, rb, wend, fent, rotdue, viol, cnt>>

Next == Step \/ Finish
Spec == Init /\ [][Next]_vars
Accepted == TLCGet("stats").diameter = Len(Trace) + 2
=============================================================================
