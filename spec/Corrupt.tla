------------------------------- MODULE Corrupt -------------------------------
(***************************************************************************)
(* Structured damage of a raft-wal directory (DESIGN.md 2.9, property C11). *)
(*                                                                         *)
(* The directory is the one the REAL WAL produced for the harness          *)
(* (harness/cmd/corruptreplay build): two sealed segments s0, s1 and a     *)
(* tail with two commits, in abstract form: every file is a sequence of    *)
(* 8-byte words; CorruptShape (generated from the real files, dissected    *)
(* with the README-derived decoder) gives for every word its class         *)
(*    H0 magic|reserved|version   H1 BaseIndex   H2 SegmentID   H3 Codec   *)
(*    FE entry frame header (type, length)       PL payload word           *)
(*    FI index frame header                      IX index array word       *)
(*    FC commit frame (type, CRC)                Z  unwritten (zero) word  *)
(* and a content id (equal ids = equal bytes, 0 = all zero), the metadata  *)
(* record (per segment: sealed?, index range, IndexStart) and one codec    *)
(* payload as a list of fields.                                            *)
(*                                                                         *)
(* One or two mutation actions chosen by TLC damage it.  The spec does NOT *)
(* predict what the parsers do with the damage - the property does not     *)
(* either.  It states, for every damaged image, the ALLOWED OUTCOME SET of *)
(* every probe (operators at the end); CorruptTrace.tla validates the      *)
(* outcomes recorded from the real code against these sets.                *)
(*                                                                         *)
(* TLC enumerates all (site class x mutation kind) cases exhaustively      *)
(* (BFS, one state per case) and prints each case as JSON for the harness. *)
(***************************************************************************)
EXTENDS Integers, Sequences, FiniteSets, TLC, Json, CorruptShape

CONSTANTS MaxMut,   \* 1: single mutations, 2: pairs (only pairs are emitted)
          Rich      \* 1: quick site sets, 2: thorough site sets

Files  == {"s0", "s1", "tail"}
Sealed == {"s0", "s1"}
HdrW   == 4            \* the file header is 4 words (32 bytes)
GARB   == -1           \* content id of seeded random bytes (differs from every original word)
MOD    == -2           \* content id of a word one of whose fields was set to a different value

Op(k, f, g, a, b, c, v) == [k |-> k, f |-> f, g |-> g, a |-> a, b |-> b, c |-> c, v |-> v]

(* ---------------------------------------------------------------- image *)
File0(f) == [present |-> TRUE, bytes |-> 8 * Len(Cid[f]), w |-> Cid[f], touched |-> FALSE]
S0 == [fs   |-> [f \in Files |-> File0(f)],
       meta |-> [json |-> "ok", is |-> [f \in Sealed |-> "o"]],
       pay  |-> "none"]

First0    == Rng["s0"][1]
Last0     == Rng["tail"][2]
SealedMax == Rng["s1"][2]
MaxW      == 48

Min(a, b) == IF a < b THEN a ELSE b
NW(S, f)  == Len(S.fs[f].w)
Const(n, v) == [i \in 1..n |-> v]
FIPos(f)  == CHOOSE p \in 1..Len(Cls[f]) : Cls[f][p] = "FI"     \* 1-based word of the index frame header
IdxWord(f, i) == FIPos(f) + (i \div 2)                          \* 0-based word holding index entry i
HdrWord(g) == CASE g = "base" -> 1 [] g = "id" -> 2 [] g = "codec" -> 3 [] OTHER -> 0
Other(f)  == CASE f = "s0" -> "s1" [] f = "s1" -> "s0" [] OTHER -> "s1"

SetWords(fl, a, vals) ==
  [fl EXCEPT !.w = [i \in 1..Len(fl.w) |-> IF i > a /\ i <= a + Len(vals) THEN vals[i - a] ELSE fl.w[i]],
             !.touched = TRUE]

(* The effect of one mutation on the abstract image.  Positions are 0-based word numbers. *)
Apply(S, op) ==
  IF op.k \in {"FlipType", "SetLen", "TypeLen"} THEN [S EXCEPT !.fs[op.f] = SetWords(@, op.a, <<MOD>>)]
  ELSE IF op.k = "IndexEntry" THEN [S EXCEPT !.fs[op.f] = SetWords(@, IdxWord(op.f, op.a), <<MOD>>)]
  ELSE IF op.k = "ZeroRun" THEN [S EXCEPT !.fs[op.f] = SetWords(@, op.a, Const(op.b - op.a, 0))]
  ELSE IF op.k = "Garbage" THEN [S EXCEPT !.fs[op.f] = SetWords(@, op.a, Const(op.b, GARB))]
  ELSE IF op.k = "TruncateAt" THEN
       [S EXCEPT !.fs[op.f] = [@ EXCEPT !.w = SubSeq(@, 1, op.a), !.bytes = 8 * op.a + op.c, !.touched = TRUE]]
  ELSE IF op.k = "Splice" THEN
       [S EXCEPT !.fs[op.f] = SetWords(@, op.c, SubSeq(S.fs[op.g].w, op.a + 1, op.b))]
  ELSE IF op.k = "HeaderField" THEN
       [S EXCEPT !.fs[op.f] = SetWords(@, HdrWord(op.g),
            <<IF op.v = "other" THEN Cid[Other(op.f)][HdrWord(op.g) + 1] ELSE MOD>>)]
  ELSE IF op.k = "RemoveFile" THEN
       [S EXCEPT !.fs[op.f] = [@ EXCEPT !.present = FALSE, !.w = <<>>, !.bytes = 0, !.touched = TRUE]]
  ELSE IF op.k = "SwapFiles" THEN
       IF op.v = "both"
       THEN [S EXCEPT !.fs[op.f] = [S.fs[op.g] EXCEPT !.touched = TRUE],
                      !.fs[op.g] = [S.fs[op.f] EXCEPT !.touched = TRUE]]
       ELSE [S EXCEPT !.fs[op.f] = [S.fs[op.g] EXCEPT !.touched = TRUE]]
  ELSE IF op.k = "IndexStartInMeta" THEN [S EXCEPT !.meta.is[op.f] = op.v]
  ELSE IF op.k = "MetaJSON" THEN [S EXCEPT !.meta.json = op.v]
  ELSE IF op.k = "Payload" THEN [S EXCEPT !.pay = op.v]
  ELSE S     \* Self* ops of the harness self-test do not touch the image

RECURSIVE ApplyAll(_, _)
ApplyAll(S, ops) == IF ops = <<>> THEN S ELSE ApplyAll(Apply(S, Head(ops)), Tail(ops))

(* ---------------------------------------------------------------- sites *)
(* <<f, p>>: word p of file f still exists and had class in CC in the pristine file *)
Sites(S, FF, CC) ==
  {s \in FF \X (0..(MaxW - 1)) :
      /\ S.fs[s[1]].present /\ s[2] < NW(S, s[1]) /\ s[2] < Len(Cls[s[1]])
      /\ Cls[s[1]][s[2] + 1] \in CC}
TypeOf(f, p) == CASE Cls[f][p + 1] = "FE" -> "1" [] Cls[f][p + 1] = "FI" -> "2"
                  [] Cls[f][p + 1] = "FC" -> "3" [] OTHER -> "0"
(* the first site of every class: the reduced site set used for the second mutation of a pair *)
RepSites(S, FF, CC) ==
  {s \in Sites(S, FF, CC) : \A t \in Sites(S, FF, CC) :
        (t[1] = s[1] /\ Cls[t[1]][t[2] + 1] = Cls[s[1]][s[2] + 1]) => t[2] >= s[2]}

AllCls == {"H0", "H1", "H2", "H3", "FE", "PL", "FI", "IX", "FC", "Z"}
TypeVals == {"0", "1", "2", "3", "4", "255"}
LenVals  == {"0", "1", "len-1", "len+1", "beyond", "maxentry", "maxentry+1", "u32max",
             "u32wrap8", "u32wrap16", "i32max", "i32min"}     \* lengths at which 32-bit offset arithmetic wraps / changes sign
IdxVals  == {"zero", "inhdr", "beyond", "misaligned", "commit", "self", "next", "u32max"}
ISVals   == {"zero", "inhdr", "beyond", "misaligned", "minus8", "plus4", "eof-2", "u64max", "i63"}
MetaKinds == {"truncated", "wrongtype", "wrongtype2", "negative", "hugenext", "overflownext", "unsorted",
              "twotails", "sealedaftertail", "allsealed", "nosegments", "dupsegment", "hugerange",
              "tailminlow", "sealedminlow", "maxbelowmin",     \* index bounds that contradict each other
              "empty", "garbage"}
HdrVals == {<<"magic", "zero">>, <<"magic", "plus1">>, <<"magic", "flip">>, <<"version", "1">>,
            <<"version", "255">>, <<"reserved", "1">>,
            <<"base", "zero">>, <<"base", "plus1">>, <<"base", "other">>, <<"base", "max">>,
            <<"id", "zero">>, <<"id", "plus1">>, <<"id", "other">>, <<"id", "max">>,
            <<"codec", "zero">>, <<"codec", "plus1">>, <<"codec", "ext">>, <<"codec", "max">>}
SwapPairs == {<<"s1", "tail">>, <<"tail", "s1">>, <<"s1", "s0">>, <<"s0", "s1">>, <<"tail", "s0">>, <<"s0", "tail">>}
(* The codec payload (BinaryCodec encoding of one raft.Log) as its list of fields; Payload    *)
(* mutations address a field by its number a: uvarint Index, Term, Type, length of Data,      *)
(* length of Extensions (1..5), the byte strings follow their lengths, then a 15-byte time.   *)
PayFields == <<"index", "term", "type", "datalen", "extlen", "time">>
PayOps ==
  {Op("Payload", "", "", 0, 0, 0, "orig"), Op("Payload", "", "", 0, 0, 0, "empty"),
   Op("Payload", "", "", 0, 0, 0, "trunc-varint")}
  \cup {Op("Payload", "", "", a, 0, 0, "varint-overflow") : a \in 1..5}
  \cup {Op("Payload", "", "", a, 0, 0, "len-gt-rest") : a \in 4..5}
  \cup {Op("Payload", "", "", a, 0, 0, "len-huge") : a \in 4..5}
  \* a well-formed 10-byte uvarint with the top bit set (2^63, 2^64-1): negative once it is taken for an int
  \cup {Op("Payload", "", "", a, 0, c, "len-top") : a \in 4..5, c \in 1..2}
  \cup {Op("Payload", "", "", a, 0, 0, "trunc-time") : a \in {1, 7, 8, 14, 15}}
  \cup {Op("Payload", "", "", a, 0, 0, "trailing") : a \in {1, 8}}
  \cup {Op("Payload", "", "", 0, 0, c, "random") : c \in 1..(IF Rich >= 2 THEN 64 ELSE 8)}

(* ---------------------------------------------------------------- mutation actions *)
MutFiles == IF Rich >= 2 THEN Files ELSE {"s1", "tail"}

FlipType(S, ST, VV) ==
  UNION {{Op("FlipType", s[1], "", s[2], 0, 0, v) : v \in VV \ {TypeOf(s[1], s[2])}} : s \in ST}
SetLen(S, ST, VV) ==
  UNION {{Op("SetLen", s[1], "", s[2], 0, 0, v) : v \in VV} : s \in ST}
(* the whole frame-header word damaged at once: another frame type AND an absurd length (one garbage word) *)
TypeLenVals == {<<"2", "u32max">>, <<"2", "maxentry+1">>, <<"3", "u32max">>, <<"3", "i32max">>, <<"0", "u32max">>,
                <<"255", "u32wrap8">>, <<"1", "u32max">>, <<"2", "i32min">>}
TypeLen(S, ST, VV) ==
  UNION {{Op("TypeLen", s[1], v[1], s[2], 0, 0, v[2]) : v \in VV} : s \in ST}
ZeroRun(S, FF, LL) ==
  UNION {{Op("ZeroRun", f, "", r[1], r[2], 0, "") :
            r \in {r \in (0..(MaxW - 1)) \X (1..MaxW) :
                      r[1] < r[2] /\ r[2] <= NW(S, f) /\ (r[2] - r[1] \in LL \/ r[2] = NW(S, f))}}
         : f \in {f \in FF : S.fs[f].present}}
TruncateAt(S, FF, SUB, lim) ==
  UNION {{Op("TruncateAt", f, "", t[1], 0, t[2], "") :
            t \in {t \in (0..(MaxW - 1)) \X SUB :
                      8 * t[1] + t[2] < S.fs[f].bytes /\ t[1] <= NW(S, f) /\ (f # "s0" \/ t[1] <= lim)}}
         : f \in {f \in FF : S.fs[f].present}}
Splice(S, FF, GG, LL) ==
  UNION {{Op("Splice", fg[1], fg[2], x[1], x[1] + x[2], x[3], "") :
            x \in {x \in (0..(MaxW - 1)) \X LL \X (0..(MaxW - 1)) :
                      /\ x[1] + x[2] <= NW(S, fg[2]) /\ x[3] + x[2] <= NW(S, fg[1])
                      /\ ~(fg[1] = fg[2] /\ x[1] = x[3])}}
         : fg \in {fg \in FF \X Files : S.fs[fg[1]].present /\ S.fs[fg[2]].present /\ (fg[1] = fg[2] \/ GG)}}
HeaderField(S, FF, HV) ==
  UNION {{Op("HeaderField", f, h[1], 0, 0, 0, h[2]) :
            h \in {h \in HV : h[2] = "other" => Cid[Other(f)][HdrWord(h[1]) + 1] # S.fs[f].w[HdrWord(h[1]) + 1]}}
         : f \in {f \in FF : S.fs[f].present /\ NW(S, f) >= HdrW}}
IndexEntry(S, FF, II, VV) ==
  UNION {{Op("IndexEntry", f, "", i, 0, 0, v) : v \in VV} :
         <<f, i>> \in {fi \in (FF \cap Sealed) \X II :
                          S.fs[fi[1]].present /\ fi[2] < NIdx[fi[1]] /\ IdxWord(fi[1], fi[2]) < NW(S, fi[1])}}
IndexStartInMeta(S, VV) ==
  {Op("IndexStartInMeta", f, "", 0, 0, 0, v) : f \in {f \in Sealed : S.meta.json = "ok" /\ S.meta.is[f] = "o"}, v \in VV}
RemoveFile(S, FF) == {Op("RemoveFile", f, "", 0, 0, 0, "") : f \in {f \in FF : S.fs[f].present}}
SwapFiles(S, MM) ==
  {Op("SwapFiles", p[1], p[2], 0, 0, 0, m) :
      p \in {p \in SwapPairs : S.fs[p[1]].present /\ S.fs[p[2]].present}, m \in MM}
Garbage(S, ST, LL, GV) ==
  UNION {{Op("Garbage", s[1], "", s[2], Min(n, NW(S, s[1]) - s[2]), c, "") : n \in LL, c \in 1..GV} : s \in ST}
MetaJSON(S, KK) == {Op("MetaJSON", "", "", 0, 0, 0, v) : v \in {v \in KK : S.meta.json = "ok"}}

(* every site x every mutation kind *)
Full(S) ==
  LET FF == MutFiles IN
       FlipType(S, Sites(S, FF, {"FE", "FI", "FC", "Z"}), TypeVals)
  \cup (IF Rich >= 2 THEN FlipType(S, Sites(S, FF, {"PL", "IX"}), {"1", "3"}) ELSE {})
  \cup SetLen(S, Sites(S, FF, {"FE", "FI", "FC", "Z"}), LenVals)
  \cup TypeLen(S, Sites(S, FF, {"FE", "FI", "FC"}), TypeLenVals)
  \cup ZeroRun(S, FF, IF Rich >= 2 THEN 1..MaxW ELSE {1, 2, 4})
  \cup TruncateAt(S, Files, IF Rich >= 2 THEN {0, 1, 4, 7} ELSE {0, 4}, IF Rich >= 2 THEN MaxW ELSE HdrW)
  \cup Splice(S, FF, Rich >= 2, IF Rich >= 2 THEN {1, 2, 4} ELSE {1, 2})
  \cup HeaderField(S, Files, HdrVals)
  \cup IndexEntry(S, Files, 0..7, IdxVals)
  \cup IndexStartInMeta(S, ISVals)
  \cup RemoveFile(S, Files)
  \cup SwapFiles(S, {"copy", "both"})
  \cup Garbage(S, Sites(S, FF, AllCls), {1, 2, 8}, IF Rich >= 2 THEN 3 ELSE 1)
  \cup MetaJSON(S, MetaKinds)

(* the reduced set a second mutation is drawn from *)
Rep(S) ==
  LET FF == {"s1", "tail"} IN
       FlipType(S, RepSites(S, FF, {"FE", "FI", "FC"}), {"0", "4"})
  \cup SetLen(S, RepSites(S, FF, {"FE", "FI"}), {"0", "u32max"})
  \cup {o \in ZeroRun(S, FF, {1}) : o.b = o.a + 1 /\ <<o.f, o.a>> \in RepSites(S, FF, AllCls)}
  \cup {o \in TruncateAt(S, Files, {0}, 1) : <<o.f, o.a>> \in RepSites(S, Files, AllCls)}
  \cup HeaderField(S, Files, {<<"base", "other">>, <<"id", "other">>})
  \cup IndexEntry(S, {"s1"}, {0}, {"zero", "beyond"})
  \cup IndexStartInMeta(S, {"zero", "beyond"})
  \cup RemoveFile(S, Files)
  \cup SwapFiles(S, {"copy"})
  \cup Garbage(S, RepSites(S, FF, AllCls), {1}, 1)
  \cup MetaJSON(S, MetaKinds)

(* ---------------------------------------------------------------- state machine *)
VARIABLES img, ops
vars == <<img, ops>>

Init == img = S0 /\ ops = <<>>

Mutate ==
  /\ Len(ops) < MaxMut
  /\ img.pay = "none"
  /\ \E op \in (IF ops = <<>> THEN Full(img) ELSE Rep(img)) :
        /\ img' = Apply(img, op)
        /\ ops' = Append(ops, op)

PayloadCase ==
  /\ ops = <<>> /\ MaxMut = 1
  /\ \E op \in PayOps : img' = Apply(img, op) /\ ops' = <<op>>

Next == Mutate \/ PayloadCase
Spec == Init /\ [][Next]_vars

(* ---------------------------------------------------------------- allowed outcomes *)
(* Every probe: outcome in {ok, err}; never panic / hang / alloc (over file size +        *)
(* MaxEntrySize + 64 MiB) / blocked.                                                      *)
Fine == {"ok", "err", "none"}

(* "When a segment that metadata lists as sealed is missing, truncated below its header    *)
(*  or carries the header of a different segment, Open fails"                              *)
SealedListed(S) == S.meta.json \in {"ok", "hugenext", "unsorted"}
Missing(S, f) == ~S.fs[f].present
Short(S, f)   == S.fs[f].present /\ S.fs[f].bytes < 8 * HdrW
Foreign(S, f) == /\ S.fs[f].present /\ S.fs[f].bytes >= 8 * HdrW
                 /\ (S.fs[f].w[2] # Cid[f][2] \/ S.fs[f].w[3] # Cid[f][3])
MustFailOpen(S) == SealedListed(S) /\ \E f \in Sealed : Missing(S, f) \/ Short(S, f) \/ Foreign(S, f)
WhyFail(S) == IF \E f \in Sealed : Missing(S, f) THEN "missing"
              ELSE IF \E f \in Sealed : Short(S, f) THEN "short" ELSE "foreign"
OpenAllowed(S) == IF MustFailOpen(S) THEN {"err"} ELSE {"ok", "err"}

(* "instead of presenting a log with silently missing entries": with the segment list of    *)
(* the metadata intact a successful Open shows the whole sealed range; damage to the tail   *)
(* may shorten the log (torn-write recovery) but never below the sealed segments.           *)
MetaIntact(S)    == S.meta.json \in {"ok", "hugenext"}
TailUntouched(S) == ~S.fs["tail"].touched

(* "decoding an entry from damaged bytes returns an error" (kinds that cannot be a valid    *)
(* encoding; a random byte string may happen to decode)                                     *)
MustFailDecode(S) == S.pay \notin {"none", "orig", "random"}
DecodeAllowed(S) == IF MustFailDecode(S) THEN {"err"} ELSE IF S.pay = "orig" THEN {"ok"} ELSE {"ok", "err"}

(* "A failed Open leaves nothing locked or open, so a later Open ... proceeds"              *)
ReopenAllowed == {"ok", "err"}

Expect(S) == [open |-> IF MustFailOpen(S) THEN "err" ELSE "any",
              decode |-> IF MustFailDecode(S) THEN "err" ELSE IF S.pay = "none" THEN "none" ELSE "any",
              metaintact |-> MetaIntact(S), tailuntouched |-> TailUntouched(S)]

(* ---------------------------------------------------------------- output channel *)
Emit == (ops # <<>> /\ Len(ops) = MaxMut) => PrintT(<<"CASE", ToJson([ops |-> ops, exp |-> Expect(img)])>>)

(* sanity of the model itself *)
TypeOK == /\ \A f \in Files : img.fs[f].present => img.fs[f].bytes >= 8 * Len(img.fs[f].w)
          /\ Len(ops) <= MaxMut
=============================================================================
