------------------------------- MODULE WalJudge -------------------------------
(***************************************************************************)
(* WalContractTrace of DESIGN.md 4.7: the judge.                           *)
(*                                                                         *)
(* Consumes an observation trace recorded from the REAL raft-wal code      *)
(* (harness/drive) and decides whether it is a behaviour of the contract   *)
(* "contiguous log + durable map + crash/fault outcome sets"               *)
(* (WalContract.tla holds the same operators for the generator side).      *)
(*                                                                         *)
(* Where the contract is nondeterministic (crash, injected I/O fault) the  *)
(* judge keeps SETS of abstract states:                                    *)
(*    vis = states the running process may be in,                          *)
(*    dur = states a reopen may find.                                      *)
(* Acknowledged operations map the sets, observations filter them, an      *)
(* interrupted or failed operation adds "applied in full" next to "not at  *)
(* all".  An observation that no state explains is a violation; it is      *)
(* recorded (line, clause) instead of stopping TLC so that one pass judges *)
(* thousands of crash forks (mark/restore events).                         *)
(***************************************************************************)
EXTENDS Integers, Sequences, FiniteSets, TLC, Json, LogOps

CONSTANTS TraceFile
Trace == ndJsonDeserialize(TraceFile)

VARIABLES l,        \* next line of the trace
          fam,      \* family of the current run: seq | crash | fault
          vis, dur, \* sets of log states
          kvis, kdur, \* key -> set of possible values (0 = unset / nil)
          sub,      \* index -> set of content ids ever submitted at that index
          created,  \* set of <<id, base>> of segment files ever created
          ncrash,   \* crashes so far in this run
          flt,      \* an injected fault has fired and may still have consequences
          clr,      \* the injected faults have been cleared (next Open is a clean restart)
          pend,     \* StoreLogs calls that failed under a fault: their bytes may still be in the file
          trunc,    \* an effective truncation has been submitted on this execution path
          bad,      \* a violation was recorded in this fork: stop judging it
          ckpt,     \* mark id -> saved judge state
          cnt,      \* metric reference counters (C20)
          viol,     \* recorded violations
          nobs      \* number of observations judged (evidence)

vars == <<l, fam, vis, dur, kvis, kdur, sub, created, ncrash, flt, clr, pend, trunc, bad, ckpt, cnt, viol, nobs>>

----------------------------------------------------------------------------
(* The contract operators (Empty, First, Last, Get, PreStore, ApplyStore,   *)
(* DelClass, ApplyDel, Legal, Apply, MapOp, MaybeOp) come from LogOps.      *)

PutK(f, k, v) == [x \in DOMAIN f \cup {k} |-> IF x = k THEN v ELSE f[x]]
GetK(f, k) == IF k \in DOMAIN f THEN f[k] ELSE {0}

----------------------------------------------------------------------------
Ev == Trace[l]
Is(k) == l <= Len(Trace) /\ Ev.ev = k
V(clause) == viol' = viol \cup {[line |-> l, clause |-> clause, trunc |-> trunc, ncrash |-> ncrash]}
Adv == l' = l + 1

ZeroCnt == [appends |-> 0, entries |-> 0, bytesw |-> 0, htrunc |-> 0, ttrunc |-> 0, sets |-> 0, gets |-> 0,
            reads |-> 0, bytesr |-> 0]

Init == /\ l = 1 /\ fam = "seq" /\ vis = {Empty} /\ dur = {Empty}
        /\ kvis = <<>> /\ kdur = <<>> /\ sub = <<>> /\ created = {}
        /\ ncrash = 0 /\ flt = FALSE /\ clr = FALSE /\ pend = <<>> /\ trunc = FALSE /\ bad = FALSE /\ ckpt = <<>>
        /\ cnt = ZeroCnt /\ viol = {} /\ nobs = 0

Reset == /\ Is("reset") /\ Adv
         /\ fam' = Ev.family /\ vis' = {Empty} /\ dur' = {Empty}
         /\ kvis' = <<>> /\ kdur' = <<>> /\ sub' = <<>> /\ created' = {}
         /\ ncrash' = 0 /\ flt' = FALSE /\ clr' = FALSE /\ pend' = <<>> /\ trunc' = FALSE /\ bad' = FALSE /\ ckpt' = <<>>
         /\ cnt' = ZeroCnt
         /\ UNCHANGED <<viol, nobs>>

Saved == [vis |-> vis, dur |-> dur, kvis |-> kvis, kdur |-> kdur, sub |-> sub, created |-> created,
          ncrash |-> ncrash, flt |-> flt, clr |-> clr, pend |-> pend, trunc |-> trunc, bad |-> bad, cnt |-> cnt]

Mark == /\ Is("mark") /\ Adv
        /\ ckpt' = PutK(ckpt, Ev.id, Saved)
        /\ UNCHANGED <<fam, vis, dur, kvis, kdur, sub, created, ncrash, flt, clr, pend, trunc, bad, cnt, viol, nobs>>

Restore == /\ Is("restore") /\ Adv
           /\ LET s == ckpt[Ev.id] IN
              /\ vis' = s.vis /\ dur' = s.dur /\ kvis' = s.kvis /\ kdur' = s.kdur /\ sub' = s.sub
              /\ created' = s.created /\ ncrash' = s.ncrash /\ flt' = s.flt /\ clr' = s.clr /\ pend' = s.pend /\ trunc' = s.trunc
              /\ bad' = s.bad /\ cnt' = s.cnt
           /\ UNCHANGED <<fam, ckpt, viol, nobs>>

(* marks of a finished fork are dropped (keeps the judge state small) *)
Unmark == /\ Is("unmark") /\ Adv
          /\ ckpt' = [k \in {x \in DOMAIN ckpt : x < Ev.from} |-> ckpt[k]]
          /\ UNCHANGED <<fam, vis, dur, kvis, kdur, sub, created, ncrash, flt, clr, pend, trunc, bad, cnt, viol, nobs>>

(* everything between a violation and the next restore/reset is skipped - except what needs no model of the log to be   *)
(* judged (C03, usability after recovery): in the crash family, with no fault injected, an append at the index the WAL *)
(* ITSELF reports as LastIndex+1 (a "relative" step of the driver) must be accepted, and Open must succeed             *)
Skip == /\ l <= Len(Trace) /\ bad /\ Ev.ev \notin {"reset", "mark", "restore", "unmark"} /\ Adv
        /\ IF fam = "crash" /\ Ev.ev = "store" /\ "rel" \in DOMAIN Ev /\ Ev.rel /\ Ev.res # "ok" /\ ~Ev.fault /\ ~Ev.mayrej
           THEN V("StoreRejectedLegal")
           ELSE IF fam = "crash" /\ Ev.ev = "open" /\ Ev.res # "ok" /\ ~Ev.fault THEN V("OpenFailed")
           ELSE UNCHANGED viol
        /\ UNCHANGED <<fam, vis, dur, kvis, kdur, sub, created, ncrash, flt, clr, pend, trunc, bad, ckpt, cnt, nobs>>

Live(k) == Is(k) /\ ~bad /\ Adv

Same == UNCHANGED <<fam, vis, dur, kvis, kdur, sub, created, ncrash, flt, clr, pend, trunc, ckpt, cnt>>

(* keep dur in step with vis outside the fault family (see 4.7) *)
SetVis(S) == /\ vis' = S /\ dur' = IF fam = "fault" THEN dur ELSE S

NoteSub(op) == IF op.ev = "store"
               THEN sub' = [i \in DOMAIN sub \cup {op.idxs[j] : j \in 1..Len(op.idxs)} |->
                              (IF i \in DOMAIN sub THEN sub[i] ELSE {}) \cup
                              {op.cids[j] : j \in {k \in 1..Len(op.idxs) : op.idxs[k] = i}}]
               ELSE sub' = sub

Faulty == fam = "fault" /\ (flt \/ Ev.fault)     \* events carrying a fault field
FaultyNF == fam = "fault" /\ flt                 \* other events

----------------------------------------------------------------------------
(* mutations *)
Store ==
  /\ Live("store")
  /\ NoteSub(Ev)
  /\ flt' = (flt \/ (fam = "fault" /\ Ev.fault)) /\ clr' = clr
  /\ pend' = IF Ev.res # "ok" /\ Faulty THEN Append(pend, Ev) ELSE pend
  /\ nobs' = nobs + 1
  /\ UNCHANGED <<fam, kvis, kdur, created, ncrash, trunc, ckpt>>
  /\ IF Ev.res = "ok"
     THEN /\ cnt' = [cnt EXCEPT !.appends = @ + 1, !.entries = @ + Len(Ev.cids), !.bytesw = @ + Ev.nbytes]
          /\ IF MapOp(vis, Ev) = {}
             THEN /\ V("StoreAcceptedIllegal") /\ bad' = TRUE /\ UNCHANGED <<vis, dur>>
             ELSE IF MapOp(dur, Ev) = {}
             THEN /\ V("DurableDiverged") /\ bad' = TRUE /\ UNCHANGED <<vis, dur>>
             ELSE /\ vis' = MapOp(vis, Ev) /\ dur' = MapOp(dur, Ev) /\ UNCHANGED <<viol, bad>>
     ELSE /\ cnt' = cnt
          /\ IF Faulty
             THEN \* failed under an injected fault: invisible now, maybe durable
                  /\ vis' = vis /\ dur' = MaybeOp(dur, Ev) /\ UNCHANGED <<viol, bad>>
             ELSE IF Ev.mayrej
             THEN UNCHANGED <<vis, dur, viol, bad>>     \* an entry above the documented maximum may be refused (C15)
             ELSE IF \E s \in vis : PreStore(s, Ev.idxs)
             THEN /\ V("StoreRejectedLegal") /\ bad' = TRUE /\ UNCHANGED <<vis, dur>>
             ELSE UNCHANGED <<vis, dur, viol, bad>>

NTrunc(S, op) ==     \* number of entries the truncation removes (same in every state of S, else -1)
  LET ns == {(Last(s) - First(s) + (IF IsEmpty(s) THEN 0 ELSE 1))
             - (Last(Apply(s, op)) - First(Apply(s, op)) + (IF IsEmpty(Apply(s, op)) THEN 0 ELSE 1)) : s \in S}
  IN IF Cardinality(ns) = 1 THEN CHOOSE x \in ns : TRUE ELSE -1

Delete ==
  /\ Live("delete")
  /\ flt' = (flt \/ (fam = "fault" /\ Ev.fault)) /\ clr' = clr /\ pend' = pend
  /\ nobs' = nobs + 1
  /\ trunc' = (trunc \/ \E s \in vis : DelClass(s, Ev.min, Ev.max) \in {"head", "tail"})
  /\ UNCHANGED <<fam, kvis, kdur, sub, created, ncrash, ckpt>>
  /\ IF Ev.res = "ok"
     THEN /\ LET k == {DelClass(s, Ev.min, Ev.max) : s \in vis}
                 nt == NTrunc({s \in vis : Legal(s, Ev)}, Ev) IN
             cnt' = IF nt < 0 \/ MapOp(vis, Ev) = {} THEN cnt
                    ELSE IF k = {"head"} THEN [cnt EXCEPT !.htrunc = @ + nt]
                    ELSE IF k = {"tail"} THEN [cnt EXCEPT !.ttrunc = @ + nt]
                    ELSE cnt
          /\ IF MapOp(vis, Ev) = {}
             THEN /\ V("DeleteAcceptedIllegal") /\ bad' = TRUE /\ UNCHANGED <<vis, dur>>
             ELSE IF MapOp(dur, Ev) = {}
             THEN /\ V("DurableDiverged") /\ bad' = TRUE /\ UNCHANGED <<vis, dur>>
             ELSE /\ vis' = MapOp(vis, Ev) /\ dur' = MapOp(dur, Ev) /\ UNCHANGED <<viol, bad>>
     ELSE /\ cnt' = cnt
          /\ IF Faulty
             THEN /\ vis' = MaybeOp(vis, Ev) /\ dur' = MaybeOp(dur, Ev) /\ UNCHANGED <<viol, bad>>
             ELSE IF \E s \in vis : Legal(s, Ev)
             THEN /\ V("DeleteRejectedLegal") /\ bad' = TRUE /\ UNCHANGED <<vis, dur>>
             ELSE UNCHANGED <<vis, dur, viol, bad>>

SetK ==
  /\ Live("set")
  /\ nobs' = nobs + 1
  /\ flt' = (flt \/ (fam = "fault" /\ Ev.fault)) /\ clr' = clr /\ pend' = pend
  /\ UNCHANGED <<fam, vis, dur, sub, created, ncrash, trunc, ckpt>>
  /\ cnt' = [cnt EXCEPT !.sets = @ + 1]
  /\ IF Ev.res = "ok"
     THEN /\ kvis' = PutK(kvis, Ev.key, {Ev.val}) /\ kdur' = PutK(kdur, Ev.key, {Ev.val})
          /\ UNCHANGED <<viol, bad>>
     ELSE IF Faulty
     THEN /\ kvis' = PutK(kvis, Ev.key, GetK(kvis, Ev.key) \cup {Ev.val})
          /\ kdur' = PutK(kdur, Ev.key, GetK(kdur, Ev.key) \cup {Ev.val})
          /\ UNCHANGED <<viol, bad>>
     ELSE /\ V("SetFailed") /\ bad' = TRUE /\ UNCHANGED <<kvis, kdur>>

----------------------------------------------------------------------------
(* crash / open / close *)
Crash ==
  /\ Live("crash")
  /\ LET op == Ev.op IN
     /\ NoteSub(op)
     /\ trunc' = (trunc \/ (op.ev = "delete" /\ \E s \in dur : DelClass(s, op.min, op.max) \in {"head", "tail"}))
     /\ LET d == MaybeOp(dur, op) IN vis' = d /\ dur' = d
     /\ IF op.ev = "set"
        THEN LET d == PutK(kdur, op.key, GetK(kdur, op.key) \cup {op.val}) IN kvis' = d /\ kdur' = d
        ELSE kvis' = kdur /\ kdur' = kdur
  /\ ncrash' = ncrash + 1
  /\ UNCHANGED <<fam, created, flt, clr, pend, ckpt, cnt, viol, bad, nobs>>

(* A StoreLogs that failed under a fault is invisible in-process, but its bytes may have reached the *)
(* file; unless a later append overwrote them, a restart may find the batch (applied in full).      *)
RECURSIVE Resurface(_, _)
Resurface(S, p) == IF p = <<>> THEN S
                   ELSE Resurface(S \cup {ApplyStore(s, p[1].idxs, p[1].cids) : s \in {t \in S : PreStore(t, p[1].idxs)}}, Tail(p))

Open ==
  /\ Live("open")
  /\ nobs' = nobs + 1
  /\ UNCHANGED <<fam, sub, created, ncrash, trunc, ckpt, kdur, clr>>
  /\ cnt' = cnt
  /\ IF Ev.res = "ok"
     THEN \* a clean restart after the faults were cleared: no fault is active any more
          /\ LET d == Resurface(dur, pend) IN vis' = d /\ dur' = d
          /\ pend' = <<>>
          /\ kvis' = kdur /\ flt' = (flt /\ ~clr) /\ UNCHANGED <<viol, bad>>
     ELSE IF fam = "fault" /\ (flt \/ Ev.fault) /\ ~clr
     THEN /\ flt' = TRUE /\ UNCHANGED <<vis, dur, pend, kvis, viol, bad>>   \* Open failed under an injected fault: allowed
     ELSE /\ V("OpenFailed") /\ bad' = TRUE /\ UNCHANGED <<vis, dur, pend, kvis, flt>>

Close ==
  /\ Live("close")
  /\ IF Ev.res = "ok" \/ FaultyNF THEN UNCHANGED <<viol, bad>> ELSE /\ V("CloseFailed") /\ bad' = TRUE
  /\ UNCHANGED <<nobs>> /\ Same

FaultsCleared ==
  /\ Live("faults_cleared")
  /\ clr' = TRUE
  /\ UNCHANGED <<viol, bad, nobs, fam, vis, dur, kvis, kdur, sub, created, ncrash, flt, pend, trunc, ckpt, cnt>>

Panic ==
  /\ Live("panic")
  \* (a bundled metrics collector refusing a name the library emits is C20's matter)
  /\ V(IF "metric" \in DOMAIN Ev /\ Ev.metric THEN "Metric_panic" ELSE "Panic") /\ bad' = TRUE /\ UNCHANGED <<nobs>> /\ Same

----------------------------------------------------------------------------
(* observations *)
ObsFirst ==
  /\ Live("first")
  /\ nobs' = nobs + 1
  /\ UNCHANGED <<fam, kvis, kdur, sub, created, ncrash, flt, clr, pend, trunc, ckpt, cnt>>
  /\ IF Ev.res # "ok" THEN /\ V("FirstError") /\ bad' = TRUE /\ UNCHANGED <<vis, dur>>
     ELSE LET S == {s \in vis : First(s) = Ev.val} IN
          IF S = {} THEN /\ V("FirstMismatch") /\ bad' = TRUE /\ UNCHANGED <<vis, dur>>
          ELSE /\ SetVis(S) /\ UNCHANGED <<viol, bad>>

ObsLast ==
  /\ Live("last")
  /\ nobs' = nobs + 1
  /\ UNCHANGED <<fam, kvis, kdur, sub, created, ncrash, flt, clr, pend, trunc, ckpt, cnt>>
  /\ IF Ev.res # "ok" THEN /\ V("LastError") /\ bad' = TRUE /\ UNCHANGED <<vis, dur>>
     ELSE LET S == {s \in vis : Last(s) = Ev.val} IN
          IF S = {} THEN /\ V("LastMismatch") /\ bad' = TRUE /\ UNCHANGED <<vis, dur>>
          ELSE /\ SetVis(S) /\ UNCHANGED <<viol, bad>>

SubAt(i) == IF i \in DOMAIN sub THEN sub[i] ELSE {}

ObsGet ==
  /\ Live("get")
  /\ nobs' = nobs + 1
  /\ cnt' = [cnt EXCEPT !.reads = @ + 1, !.bytesr = @ + Ev.nbytes]
  /\ UNCHANGED <<fam, kvis, kdur, sub, created, ncrash, flt, clr, pend, trunc, ckpt>>
  /\ LET i == Ev.idx
         got == IF Ev.res = "ok" THEN Ev.cid ELSE 0
         S == {s \in vis : Get(s, i) = got}
         exp == {Get(s, i) : s \in vis}
     IN IF Ev.res = "err" THEN /\ V("ReadError") /\ bad' = TRUE /\ UNCHANGED <<vis, dur>>
        ELSE IF S # {} THEN /\ SetVis(S) /\ UNCHANGED <<viol, bad>>
        ELSE /\ bad' = TRUE /\ UNCHANGED <<vis, dur>>
             /\ IF Ev.res = "notfound" THEN V("Lost")
                ELSE IF got \notin SubAt(i) THEN V("Fabricated")
                ELSE IF exp = {0} THEN V("Phantom")
                ELSE V("Stale")

ObsGetK ==
  /\ Live("getk")
  /\ nobs' = nobs + 1
  /\ cnt' = [cnt EXCEPT !.gets = @ + 1]
  /\ UNCHANGED <<fam, vis, dur, kdur, sub, created, ncrash, flt, clr, pend, trunc, ckpt>>
  /\ IF Ev.res # "ok" THEN /\ V("GetKError") /\ bad' = TRUE /\ kvis' = kvis
     ELSE IF Ev.val \in GetK(kvis, Ev.key)
     THEN /\ kvis' = PutK(kvis, Ev.key, {Ev.val}) /\ UNCHANGED <<viol, bad>>
     ELSE /\ V("StableMismatch") /\ bad' = TRUE /\ kvis' = kvis

ToSet(sq) == {sq[j] : j \in 1..Len(sq)}

ObsDir ==
  /\ Live("dir")
  /\ nobs' = nobs + 1
  /\ IF FaultyNF THEN UNCHANGED <<viol, bad>>
     ELSE IF ToSet(Ev.files) \ ToSet(Ev.segs) # {} THEN /\ V("DirExtra") /\ UNCHANGED bad
     ELSE IF ToSet(Ev.segs) \ ToSet(Ev.files) # {} THEN /\ V("DirMissing") /\ UNCHANGED bad      \* keep judging: what a missing file costs is C01/C03's business
     ELSE UNCHANGED <<viol, bad>>
  /\ Same

ObsCreat ==
  /\ Live("creat")
  /\ nobs' = nobs + 1
  /\ created' = created \cup {<<Ev.id, Ev.base>>}
  /\ IF FaultyNF THEN UNCHANGED <<viol, bad>>
     ELSE IF \E p \in created : p[1] = Ev.id /\ p[2] # Ev.base THEN /\ V("SegmentIDReused") /\ UNCHANGED bad
     ELSE IF Ev.res # "ok" THEN /\ V("CreateCollision") /\ UNCHANGED bad   \* keep judging: the failed Open that follows is C03's business
     ELSE UNCHANGED <<viol, bad>>
  /\ UNCHANGED <<fam, vis, dur, kvis, kdur, sub, ncrash, flt, clr, pend, trunc, ckpt, cnt>>

ObsMetrics ==
  /\ Live("metrics")
  /\ nobs' = nobs + 1
  /\ IF FaultyNF \/ fam # "seq" THEN UNCHANGED <<viol, bad>>
     ELSE IF Ev.log_appends # cnt.appends THEN /\ V("Metric_log_appends") /\ bad' = TRUE
     ELSE IF Ev.log_entries_written # cnt.entries THEN /\ V("Metric_log_entries_written") /\ bad' = TRUE
     ELSE IF Ev.head_truncations # cnt.htrunc THEN /\ V("Metric_head_truncations") /\ bad' = TRUE
     ELSE IF Ev.tail_truncations # cnt.ttrunc THEN /\ V("Metric_tail_truncations") /\ bad' = TRUE
     ELSE IF Ev.stable_sets # cnt.sets THEN /\ V("Metric_stable_sets") /\ bad' = TRUE
     ELSE IF Ev.stable_gets # cnt.gets THEN /\ V("Metric_stable_gets") /\ bad' = TRUE
     ELSE IF Ev.log_entries_read # cnt.reads THEN /\ V("Metric_log_entries_read") /\ bad' = TRUE
     ELSE IF Ev.log_entry_bytes_written # cnt.bytesw THEN /\ V("Metric_log_entry_bytes_written") /\ bad' = TRUE
     ELSE IF Ev.log_entry_bytes_read # cnt.bytesr THEN /\ V("Metric_log_entry_bytes_read") /\ bad' = TRUE
     ELSE IF Ev.segment_rotations # Ev.bg_rotations THEN /\ V("Metric_segment_rotations") /\ bad' = TRUE
     ELSE UNCHANGED <<viol, bad>>
  /\ Same

(* C09: the harness compared the segment files with the README encoding (harness/readmefmt) *)
ObsFormat ==
  /\ Live("format")
  /\ nobs' = nobs + 1
  /\ IF Ev.ok THEN UNCHANGED <<viol, bad>> ELSE /\ V("FormatMismatch") /\ bad' = TRUE
  /\ Same

(* C08: a value returned by Get must not change under the caller when later calls are made *)
ObsAlias ==
  /\ Live("alias")
  /\ nobs' = nobs + 1
  /\ IF Ev.ok THEN UNCHANGED <<viol, bad>> ELSE /\ V("StableAliased") /\ bad' = TRUE
  /\ Same

(* events that carry no contract content (notes of the harness) *)
Note ==
  /\ l <= Len(Trace) /\ ~bad /\ Ev.ev \in {"note", "none"} /\ Adv
  /\ UNCHANGED <<viol, bad, nobs>> /\ Same

Finish ==
  /\ l = Len(Trace) + 1
  /\ PrintT(<<"VIOL", ToJson([v |-> viol, nobs |-> nobs])>>)
  /\ l' = l + 1
  /\ UNCHANGED <<fam, vis, dur, kvis, kdur, sub, created, ncrash, flt, clr, pend, trunc, bad, ckpt, cnt, viol, nobs>>

Next == \/ Reset \/ Mark \/ Restore \/ Unmark \/ Skip
        \/ Store \/ Delete \/ SetK \/ Crash \/ Open \/ Close \/ FaultsCleared \/ Panic
        \/ ObsFirst \/ ObsLast \/ ObsGet \/ ObsGetK \/ ObsDir \/ ObsCreat \/ ObsMetrics \/ ObsFormat \/ ObsAlias \/ Note
        \/ Finish

Spec == Init /\ [][Next]_vars

(* Sanity of the judge itself *)
TypeOK == /\ vis # {} /\ dur # {}
          /\ \A s \in vis \cup dur : (IsEmpty(s) => s.f = 0) /\ (~IsEmpty(s) => s.f >= 1)

(* every line consumed exactly once: the judge is deterministic *)
Accepted == TLCGet("stats").diameter = Len(Trace) + 2
=============================================================================
