-------------------------- MODULE FsDisciplineTrace --------------------------
(***************************************************************************)
(* Trace validation for property C07 (DESIGN.md 2.10, 4.4, 5 "C07").       *)
(*                                                                         *)
(* The trace is what the kernel saw: cmd/fstrace runs workloads through    *)
(* the production stack (wal.Open with the default fs.FS and BoltMetaDB)   *)
(* under strace; lib/checks_fs.py turns the strace output into one ndjson  *)
(* event per completed system call, in completion order, plus the API      *)
(* markers the driver emits as no-op system calls.  Every line drives one  *)
(* action of FsDiscipline; the clauses of C07 are evaluated there (at the  *)
(* creating openat, at rename, at every Ack, at every observation).        *)
(* Violations are recorded with line number and clause instead of stopping *)
(* TLC, so that one pass judges all workloads; `reset` separates them.     *)
(*                                                                         *)
(* bbolt's own page writes to wal-meta.db (pwrite64 + fdatasync) are       *)
(* writes to the meta file, not segment writes: C07_AckClean only looks at *)
(* segment files, C07_MetaInit only constrains how the database file comes *)
(* into existence.                                                         *)
(***************************************************************************)
EXTENDS FsDiscipline, Json

CONSTANTS TraceFile
Trace == ndJsonDeserialize(TraceFile)

VARIABLES l,      \* next line of the trace
          viol,   \* recorded violations
          cnt,    \* event kind -> number of times its action fired
          st      \* evidence counters

tvars == <<l, viol, cnt, st>>

Kinds == {"reset", "end", "inv", "ack", "obs", "open_creat", "open_creat_excl", "fallocate", "ftruncate",
          "pwrite", "fsync_file", "fsync_dir", "unlink", "rename"}

TInit ==
  /\ CoreInit /\ cl = 0
  /\ l = 1 /\ viol = {}
  /\ cnt = [k \in Kinds |-> 0]
  /\ st = [workloads |-> 0, acks |-> 0, nontrivial |-> 0, stores_ok |-> 0, first_commits |-> 0,
           seg_unlinks |-> 0, seg_creates |-> 0, meta_inits |-> 0, reopened_writes |-> 0]

Ev == Trace[l]
IsEvent(k) == l <= Len(Trace) /\ Ev.ev = k

(* bookkeeping shared by all steps: advance, count, tag the new violations with the line *)
Consume(k) ==
  /\ l' = l + 1
  /\ cnt' = [cnt EXCEPT ![k] = @ + 1]
  /\ viol' = viol \cup {v @@ [line |-> l] : v \in nv'}
  /\ UNCHANGED cl

Reset ==
  /\ IsEvent("reset")
  /\ files' = <<>> /\ dirp' = {} /\ win' = NoWin /\ gen' = 0 /\ fresh' = {} /\ nv' = {}
  /\ req' = Ev.seg
  /\ st' = [st EXCEPT !.workloads = @ + 1]
  /\ Consume("reset")

(* end of a workload: nothing may be left unchecked *)
End ==
  /\ IsEvent("end")
  /\ nv' = IF win.open THEN {Viol("trace", "window_left_open", "")}
           ELSE IF fresh # {} THEN {Viol("trace", "creation_never_checked", "")} ELSE {}
  /\ UNCHANGED <<files, dirp, win, gen, req, fresh, st>>
  /\ Consume("end")

TInv ==
  /\ IsEvent("inv") /\ Inv(Ev.op, Ev.n)
  /\ UNCHANGED st /\ Consume("inv")

TAck ==
  /\ IsEvent("ack") /\ Ack(Ev.op, Ev.n, Ev.res)
  /\ st' = [st EXCEPT !.acks = @ + 1,
                      !.nontrivial = @ + (IF win.nmut > 0 THEN 1 ELSE 0),
                      !.stores_ok = @ + (IF Ev.op = "store" /\ Ev.res = "ok" THEN 1 ELSE 0),
                      !.reopened_writes = @ + (IF Ev.op = "store" /\ Ev.res = "ok"
                                                   /\ \E p \in win.written : IsSeg(p) /\ files[p].gen < gen
                                               THEN 1 ELSE 0)]
  /\ Consume("ack")

TObs ==
  /\ IsEvent("obs") /\ Obs(Ev.name, Ev.size, Ev.nz)
  /\ UNCHANGED st /\ Consume("obs")

TOpenCreat ==
  /\ IsEvent("open_creat") /\ OpenCreat(Ev.name, Ev.kind, FALSE)
  /\ st' = [st EXCEPT !.seg_creates = @ + (IF Ev.kind = "seg" /\ Ev.name \notin DOMAIN files THEN 1 ELSE 0)]
  /\ Consume("open_creat")

TOpenCreatExcl ==
  /\ IsEvent("open_creat_excl") /\ OpenCreatExcl(Ev.name, Ev.kind)
  /\ st' = [st EXCEPT !.seg_creates = @ + (IF Ev.kind = "seg" THEN 1 ELSE 0)]
  /\ Consume("open_creat_excl")

TFallocate ==
  /\ IsEvent("fallocate") /\ Fallocate(Ev.name, Ev.mode, Ev.off, Ev.len)
  /\ UNCHANGED st /\ Consume("fallocate")

TFTruncate ==
  /\ IsEvent("ftruncate") /\ FTruncate(Ev.name, Ev.len)
  /\ UNCHANGED st /\ Consume("ftruncate")

TPWrite ==
  /\ IsEvent("pwrite") /\ PWrite(Ev.name, Ev.off, Ev.len, Ev.via)
  /\ st' = [st EXCEPT !.first_commits = @ + (IF IsSeg(Ev.name) /\ files[Ev.name].tot = 0 /\ ~InHarness THEN 1 ELSE 0)]
  /\ Consume("pwrite")

TFSyncFile ==
  /\ IsEvent("fsync_file") /\ FSyncFile(Ev.name)
  /\ UNCHANGED st /\ Consume("fsync_file")

TFSyncDir ==
  /\ IsEvent("fsync_dir") /\ FSyncDir
  /\ UNCHANGED st /\ Consume("fsync_dir")

TUnlink ==
  /\ IsEvent("unlink") /\ Unlink(Ev.name)
  /\ st' = [st EXCEPT !.seg_unlinks = @ + (IF IsSeg(Ev.name) THEN 1 ELSE 0)]
  /\ Consume("unlink")

TRename ==
  /\ IsEvent("rename") /\ Rename(Ev.from, Ev.to, Ev.tkind)
  /\ st' = [st EXCEPT !.meta_inits = @ + (IF Ev.tkind = "meta" THEN 1 ELSE 0)]
  /\ Consume("rename")

Finish ==
  /\ l = Len(Trace) + 1
  /\ PrintT(<<"FSD", ToJson([viol |-> viol, cnt |-> cnt, st |-> st])>>)
  /\ l' = l + 1
  /\ UNCHANGED <<cvars, cl, viol, cnt, st>>

TNext == \/ Reset \/ End \/ TInv \/ TAck \/ TObs
         \/ TOpenCreat \/ TOpenCreatExcl \/ TFallocate \/ TFTruncate \/ TPWrite
         \/ TFSyncFile \/ TFSyncDir \/ TUnlink \/ TRename
         \/ Finish

TraceSpec == TInit /\ [][TNext]_<<cvars, cl, tvars>>

(* every line consumed exactly once: the trace spec is deterministic *)
Accepted == TLCGet("stats").diameter = Len(Trace) + 2
=============================================================================
