// Package readmefmt is an encoder/decoder of raft-wal's on-disk segment format written
// ONLY from README.md ("Storage Format Overview"): it shares no code with the segment
// package and is the independent implementation property C09 asks for. It is also the
// projection between bytes and the abstract words of the TLA+ specs.
package readmefmt

import (
	"encoding/binary"
	"fmt"
	"hash/crc32"
)

const (
	Magic      = 0x58eb6b0d
	HeaderLen  = 32
	FrameHdr   = 8
	TypeEntry  = 1
	TypeIndex  = 2
	TypeCommit = 3
)

var castagnoli = crc32.MakeTable(crc32.Castagnoli)

// Header is the 32-byte file header.
type Header struct {
	Magic     uint32
	Reserved  [3]byte
	Vsn       uint8
	BaseIndex uint64
	SegmentID uint64
	Codec     uint64
}

// Frame is one decoded frame.
type Frame struct {
	Type    uint8
	Offset  int    // file offset of the frame header
	Len     uint32 // Length field (Entry, Index)
	CRC     uint32 // CRC field (Commit)
	Payload []byte // Entry: the entry bytes; Index: the raw array
	Index   []uint32
	Rsvd    [3]byte
	PadOK   bool // padding bytes are zero
}

// File is a decoded segment file.
type File struct {
	Header Header
	Frames []Frame
	// End is the offset just after the last decoded frame.
	End int
	// LastCommitEnd is the offset just after the last commit frame (0 if none).
	LastCommitEnd int
	// StopReason says why decoding stopped.
	StopReason string
}

func FileName(baseIndex, id uint64) string { return fmt.Sprintf("%020d-%016x.wal", baseIndex, id) }

func pad(n int) int { return (8 - n%8) % 8 }

// Decode parses b as far as it is well formed.
func Decode(b []byte) (*File, error) {
	if len(b) < HeaderLen {
		return nil, fmt.Errorf("file shorter than the header (%d bytes)", len(b))
	}
	f := &File{}
	f.Header.Magic = binary.LittleEndian.Uint32(b[0:4])
	copy(f.Header.Reserved[:], b[4:7])
	f.Header.Vsn = b[7]
	f.Header.BaseIndex = binary.LittleEndian.Uint64(b[8:16])
	f.Header.SegmentID = binary.LittleEndian.Uint64(b[16:24])
	f.Header.Codec = binary.LittleEndian.Uint64(b[24:32])
	off := HeaderLen
	for {
		if off+FrameHdr > len(b) {
			f.StopReason = "eof"
			break
		}
		h := b[off : off+FrameHdr]
		typ := h[0]
		if typ == 0 {
			f.StopReason = "zero"
			break
		}
		if typ > TypeCommit {
			f.StopReason = fmt.Sprintf("unknown frame type %d at %d", typ, off)
			break
		}
		fr := Frame{Type: typ, Offset: off}
		copy(fr.Rsvd[:], h[1:4])
		v := binary.LittleEndian.Uint32(h[4:8])
		switch typ {
		case TypeCommit:
			fr.CRC = v
			fr.PadOK = true
			off += FrameHdr
			f.LastCommitEnd = off
		default:
			fr.Len = v
			end := off + FrameHdr + int(v)
			if end > len(b) || int(v) < 0 {
				f.StopReason = fmt.Sprintf("frame at %d overruns the file", off)
				f.End = off
				return f, nil
			}
			fr.Payload = b[off+FrameHdr : end]
			p := pad(int(v))
			fr.PadOK = true
			if end+p > len(b) {
				fr.PadOK = false
				p = len(b) - end
			}
			for _, x := range b[end : end+p] {
				if x != 0 {
					fr.PadOK = false
				}
			}
			if typ == TypeIndex {
				for i := 0; i+4 <= len(fr.Payload); i += 4 {
					fr.Index = append(fr.Index, binary.LittleEndian.Uint32(fr.Payload[i:]))
				}
			}
			off = end + p
		}
		f.Frames = append(f.Frames, fr)
	}
	f.End = off
	return f, nil
}

// Encode produces the bytes of a file (header + frames) per the README.
func Encode(f *File) []byte {
	out := make([]byte, HeaderLen)
	binary.LittleEndian.PutUint32(out[0:4], f.Header.Magic)
	copy(out[4:7], f.Header.Reserved[:])
	out[7] = f.Header.Vsn
	binary.LittleEndian.PutUint64(out[8:16], f.Header.BaseIndex)
	binary.LittleEndian.PutUint64(out[16:24], f.Header.SegmentID)
	binary.LittleEndian.PutUint64(out[24:32], f.Header.Codec)
	for _, fr := range f.Frames {
		var h [8]byte
		h[0] = fr.Type
		switch fr.Type {
		case TypeCommit:
			binary.LittleEndian.PutUint32(h[4:8], fr.CRC)
			out = append(out, h[:]...)
		default:
			binary.LittleEndian.PutUint32(h[4:8], uint32(len(fr.Payload)))
			out = append(out, h[:]...)
			out = append(out, fr.Payload...)
			out = append(out, make([]byte, pad(len(fr.Payload)))...)
		}
	}
	return out
}

// Build constructs, from scratch, the file the README prescribes for a history: the batches
// (each a list of encoded entries) committed into a segment, and whether it was sealed after
// the last batch (sealInBatch: the index frame is part of the last batch's write) or by a
// separate forced seal (its own commit).
func Build(h Header, batches [][][]byte, sealed bool, sealInBatch bool) ([]byte, uint64) {
	f := &File{Header: h}
	out := Encode(f)
	var offsets []uint32
	crcStart := 0
	indexStart := uint64(0)
	appendFrame := func(typ uint8, payload []byte) {
		var hd [8]byte
		hd[0] = typ
		binary.LittleEndian.PutUint32(hd[4:8], uint32(len(payload)))
		out = append(out, hd[:]...)
		out = append(out, payload...)
		out = append(out, make([]byte, pad(len(payload)))...)
	}
	commit := func() {
		var hd [8]byte
		hd[0] = TypeCommit
		binary.LittleEndian.PutUint32(hd[4:8], crc32.Checksum(out[crcStart:], castagnoli))
		out = append(out, hd[:]...)
		crcStart = len(out)
	}
	index := func() {
		p := make([]byte, 4*len(offsets))
		for i, o := range offsets {
			binary.LittleEndian.PutUint32(p[4*i:], o)
		}
		indexStart = uint64(len(out) + FrameHdr)
		appendFrame(TypeIndex, p)
	}
	for bi, batch := range batches {
		for _, e := range batch {
			offsets = append(offsets, uint32(len(out)))
			appendFrame(TypeEntry, e)
		}
		if sealed && sealInBatch && bi == len(batches)-1 {
			index()
		}
		commit()
	}
	if sealed && !sealInBatch {
		index()
		commit()
	}
	return out, indexStart
}

// CheckCRCs verifies that every commit frame's CRC covers exactly the bytes since the previous
// commit frame (or the start of the file).
func CheckCRCs(b []byte, f *File) error {
	start := 0
	for _, fr := range f.Frames {
		if fr.Type != TypeCommit {
			continue
		}
		got := crc32.Checksum(b[start:fr.Offset], castagnoli)
		if got != fr.CRC {
			return fmt.Errorf("commit frame at %d: CRC %08x does not cover bytes [%d,%d) (expected %08x)", fr.Offset, fr.CRC, start, fr.Offset, got)
		}
		start = fr.Offset + FrameHdr
	}
	return nil
}
