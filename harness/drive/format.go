package drive

import (
	"bytes"
	"encoding/json"
	"fmt"
	"os"
	"path/filepath"
	"sort"
	"strings"

	"github.com/hashicorp/raft"
	wal "github.com/hashicorp/raft-wal"
	"github.com/hashicorp/raft-wal/types"
	"go.etcd.io/bbolt"

	"verif/harness/readmefmt"
)

// segRec is what the harness knows was committed into one segment file: enough to rebuild the
// file from the README alone (readmefmt.Build) and compare it byte for byte (property C09).
type segRec struct {
	hdr         readmefmt.Header
	batches     [][][]byte
	sealed      bool
	sealInBatch bool
}

func (r *run) encode(l *raft.Log) []byte {
	if r.job.Codec != "bin" {
		return append([]byte(nil), l.Data...)
	}
	var buf bytes.Buffer
	(&wal.BinaryCodec{}).Encode(l, &buf)
	return buf.Bytes()
}

func (r *run) codecID() uint64 {
	if r.job.Codec == "bin" {
		return wal.CodecBinaryV1
	}
	return 1<<16 + 77
}

// noteBatch records an acknowledged batch against the current tail (sim mode: called after
// StoreLogs returned and before the background rotation is allowed to run).
func (r *run) noteBatch(logs []*raft.Log) {
	if r.fmtSegs == nil {
		r.fmtSegs = map[string]*segRec{}
	}
	st, _ := r.meta.Current()
	if len(st.Segments) == 0 {
		return
	}
	tail := st.Segments[len(st.Segments)-1]
	name := readmefmt.FileName(tail.BaseIndex, tail.ID)
	rec := r.fmtSegs[name]
	if rec == nil {
		rec = &segRec{hdr: readmefmt.Header{Magic: readmefmt.Magic, BaseIndex: tail.BaseIndex, SegmentID: tail.ID, Codec: r.codecID()}}
		r.fmtSegs[name] = rec
	}
	var b [][]byte
	for _, l := range logs {
		b = append(b, r.encode(l))
	}
	rec.batches = append(rec.batches, b)
	r.lastBatchSeg = name
}

// noteSeals marks segments that metadata now calls sealed.
func (r *run) noteSeals(afterStore bool) {
	st, _ := r.meta.Current()
	for _, s := range st.Segments {
		name := readmefmt.FileName(s.BaseIndex, s.ID)
		rec := r.fmtSegs[name]
		if rec == nil || rec.sealed || s.SealTime.IsZero() {
			continue
		}
		rec.sealed = true
		rec.sealInBatch = afterStore && name == r.lastBatchSeg
	}
}

// checkFormat compares every segment file with the file the README prescribes.
func (r *run) checkFormat(after string) {
	if r.fs == nil || r.job.Real {
		return
	}
	st, _ := r.meta.Current()
	byName := map[string]types.SegmentInfo{}
	for _, s := range st.Segments {
		byName[readmefmt.FileName(s.BaseIndex, s.ID)] = s
	}
	var problems []string
	for _, name := range r.fs.Names() {
		b := r.fs.Bytes(name)
		info, listed := byName[name]
		rec := r.fmtSegs[name]
		if rec == nil {
			if !allZero(b) {
				problems = append(problems, name+": a segment nothing was committed to is not all zero")
			}
			continue
		}
		want, idxStart := readmefmt.Build(rec.hdr, rec.batches, rec.sealed, rec.sealInBatch)
		if len(b) < len(want) || !bytes.Equal(b[:len(want)], want) {
			problems = append(problems, fmt.Sprintf("%s: bytes differ from the README encoding (first difference at offset %d)", name, firstDiff(b, want)))
			continue
		}
		if !allZero(b[len(want):]) {
			problems = append(problems, name+": non-zero bytes after the last commit frame")
		}
		// independent decoder direction
		f, err := readmefmt.Decode(b)
		if err != nil {
			problems = append(problems, name+": "+err.Error())
			continue
		}
		if err := readmefmt.CheckCRCs(b, f); err != nil {
			problems = append(problems, name+": "+err.Error())
		}
		if !bytes.Equal(readmefmt.Encode(f), b[:f.End]) {
			problems = append(problems, name+": decode/encode round trip differs (padding or reserved bytes not zero?)")
		}
		if listed {
			if info.ID != f.Header.SegmentID || info.BaseIndex != f.Header.BaseIndex || info.Codec != f.Header.Codec {
				problems = append(problems, name+": header disagrees with metadata")
			}
			if rec.sealed && info.IndexStart != idxStart {
				problems = append(problems, fmt.Sprintf("%s: IndexStart in metadata %d, index array is at %d", name, info.IndexStart, idxStart))
			}
			if !rec.sealed && (info.IndexStart != 0 || !info.SealTime.IsZero()) {
				problems = append(problems, name+": unsealed segment has IndexStart/SealTime in metadata")
			}
		}
	}
	ok := len(problems) == 0
	r.out.obs(map[string]any{"ev": "format", "after": after, "ok": ok, "msg": strings.Join(problems, "; ")})
}

func allZero(b []byte) bool {
	for _, x := range b {
		if x != 0 {
			return false
		}
	}
	return true
}

func firstDiff(a, b []byte) int {
	n := len(a)
	if len(b) < n {
		n = len(b)
	}
	for i := 0; i < n; i++ {
		if a[i] != b[i] {
			return i
		}
	}
	return n
}

// checkFormatReal (real mode, after Close): decode every segment file of the directory with the
// README decoder and read the bolt record directly (bucket wal-meta, key m, JSON).
func (r *run) checkFormatReal() {
	var problems []string
	db, err := bbolt.Open(filepath.Join(r.dir, "wal-meta.db"), 0600, &bbolt.Options{ReadOnly: true})
	if err != nil {
		r.out.obs(map[string]any{"ev": "format", "after": "close", "ok": false, "msg": "cannot open wal-meta.db: " + err.Error()})
		return
	}
	var raw []byte
	db.View(func(tx *bbolt.Tx) error {
		bk := tx.Bucket([]byte("wal-meta"))
		if bk == nil {
			problems = append(problems, "bucket wal-meta missing")
			return nil
		}
		if tx.Bucket([]byte("stable")) == nil {
			problems = append(problems, "bucket stable missing")
		}
		raw = append([]byte(nil), bk.Get([]byte("m"))...)
		return nil
	})
	db.Close()
	var ps struct {
		NextSegmentID uint64
		Segments      []map[string]any
	}
	if len(raw) == 0 {
		problems = append(problems, "metadata record (key m) missing")
	} else if err := json.Unmarshal(raw, &ps); err != nil {
		problems = append(problems, "metadata record is not the documented JSON: "+err.Error())
	}
	want := []string{"ID", "BaseIndex", "MinIndex", "MaxIndex", "Codec", "IndexStart", "CreateTime", "SealTime"}
	meta := map[string]map[string]any{}
	for _, s := range ps.Segments {
		for _, k := range want {
			if _, ok := s[k]; !ok {
				problems = append(problems, "metadata segment record lacks field "+k)
			}
		}
		id, _ := s["ID"].(float64)
		base, _ := s["BaseIndex"].(float64)
		meta[readmefmt.FileName(uint64(base), uint64(id))] = s
		if uint64(id) >= ps.NextSegmentID {
			problems = append(problems, "NextSegmentID not above a listed segment ID")
		}
	}
	ents, _ := os.ReadDir(r.dir)
	var names []string
	for _, e := range ents {
		if strings.HasSuffix(e.Name(), ".wal") {
			names = append(names, e.Name())
		}
	}
	sort.Strings(names)
	for _, name := range names {
		b, err := os.ReadFile(filepath.Join(r.dir, name))
		if err != nil {
			continue
		}
		s, listed := meta[name]
		if !listed {
			problems = append(problems, name+": file not listed in metadata after a clean close")
			continue
		}
		if allZero(b) {
			continue
		}
		f, err := readmefmt.Decode(b)
		if err != nil {
			problems = append(problems, name+": "+err.Error())
			continue
		}
		if f.Header.Magic != readmefmt.Magic || f.Header.Vsn != 0 || f.Header.Reserved != [3]byte{} {
			problems = append(problems, name+": bad magic/version/reserved bytes")
		}
		if readmefmt.FileName(f.Header.BaseIndex, f.Header.SegmentID) != name {
			problems = append(problems, name+": header does not match the file name")
		}
		if c, _ := s["Codec"].(float64); uint64(c) != f.Header.Codec {
			problems = append(problems, name+": codec in header differs from metadata")
		}
		if err := readmefmt.CheckCRCs(b, f); err != nil {
			problems = append(problems, name+": "+err.Error())
		}
		if !bytes.Equal(readmefmt.Encode(f), b[:f.End]) {
			problems = append(problems, name+": decode/encode round trip differs")
		}
		if !allZero(b[f.LastCommitEnd:]) && f.LastCommitEnd > 0 && f.End == f.LastCommitEnd {
			problems = append(problems, name+": non-zero bytes after the last commit frame")
		}
		// entry frames: contiguous from BaseIndex, payload = an encoding submitted for that index
		idx := f.Header.BaseIndex
		var offs []uint32
		for _, fr := range f.Frames {
			if fr.Type == readmefmt.TypeEntry {
				if !r.submittedAt(idx, fr.Payload) {
					problems = append(problems, fmt.Sprintf("%s: entry frame for index %d holds bytes never submitted for it", name, idx))
				}
				offs = append(offs, uint32(fr.Offset))
				idx++
			}
		}
		sealTime, _ := s["SealTime"].(string)
		sealed := sealTime != "" && !strings.HasPrefix(sealTime, "0001-01-01")
		if sealed {
			n := len(f.Frames)
			if n < 2 || f.Frames[n-1].Type != readmefmt.TypeCommit || f.Frames[n-2].Type != readmefmt.TypeIndex {
				problems = append(problems, name+": sealed segment does not end with index frame + commit frame")
			} else {
				ix := f.Frames[n-2]
				if len(ix.Index) != len(offs) {
					problems = append(problems, name+": index frame has a different number of entries than the segment")
				} else {
					for i := range offs {
						if ix.Index[i] != offs[i] {
							problems = append(problems, fmt.Sprintf("%s: index entry %d = %d, entry frame is at %d", name, i, ix.Index[i], offs[i]))
							break
						}
					}
				}
				if is, _ := s["IndexStart"].(float64); int(is) != ix.Offset+readmefmt.FrameHdr {
					problems = append(problems, fmt.Sprintf("%s: IndexStart %d, index array at %d", name, int(is), ix.Offset+readmefmt.FrameHdr))
				}
			}
		}
	}
	r.out.obs(map[string]any{"ev": "format", "after": "close", "ok": len(problems) == 0, "msg": strings.Join(problems, "; ")})
}

func (r *run) submittedAt(idx uint64, payload []byte) bool {
	for _, e := range r.submitted[idx] {
		if bytes.Equal(e, payload) {
			return true
		}
	}
	return false
}
