// Package drive executes TLC-generated scenarios against the real raft-wal code
// on top of the simulated filesystem/metadata store, records what the code did
// (I/O trace) and what it answered (observation trace), and forks executions at
// the crash images that TLC derives from the recorded I/O (spec/DiskTrace.tla).
package drive

import (
	"bufio"
	"bytes"
	"encoding/json"
	"errors"
	"fmt"
	"go.etcd.io/bbolt"
	"io"
	"math"
	"os"
	"path/filepath"
	"runtime/debug"
	"sort"
	"strings"

	"github.com/hashicorp/go-hclog"
	"github.com/hashicorp/raft"
	wal "github.com/hashicorp/raft-wal"
	"github.com/hashicorp/raft-wal/metrics"
	"github.com/hashicorp/raft-wal/segment"
	"github.com/hashicorp/raft-wal/types"

	"verif/harness/sim"
	"verif/harness/valpool"
)

// Step is one scenario step (see DESIGN.md 4.8).
type Step struct {
	Op    string   `json:"op"` // store delete reopen close open set getk probe
	First uint64   `json:"first,omitempty"`
	Idxs  []uint64 `json:"idxs,omitempty"` // explicit indexes (non-consecutive batches); default First..
	Cids  []int    `json:"cids,omitempty"`
	Sz    []int    `json:"sz,omitempty"`
	Look  []string `json:"look,omitempty"`
	Bytes []int    `json:"bytes,omitempty"`
	// relative steps (continuations after recovery)
	Rel    bool   `json:"rel,omitempty"`
	N      int    `json:"n,omitempty"`
	RelDel string `json:"reldel,omitempty"` // tail1 head1 all
	Min    uint64 `json:"min,omitempty"`
	Max    uint64 `json:"max,omitempty"`
	Key    int    `json:"key,omitempty"`
	Val    int    `json:"val,omitempty"`
	U64    bool   `json:"u64,omitempty"`
}

// FaultSpec is an injected fault at a call ordinal of the workload run.
type FaultSpec struct {
	Call        int    `json:"call"`
	Kind        string `json:"kind"`
	Prefix      int    `json:"prefix"`
	SyncApplied bool   `json:"syncApplied"`
}

// Fork is a crash image of the parent run plus what to do after recovery.
type Fork struct {
	ID     string     `json:"id"`
	Image  sim.Choice `json:"image"`
	Cont   []Step     `json:"cont"`
	Forks  []*Fork    `json:"forks,omitempty"`
	Expand bool       `json:"expand,omitempty"`
}

// Job is one workload with its tree of crash forks.
type Job struct {
	ID      string      `json:"id"`
	Family  string      `json:"family"` // seq crash fault
	Codec   string      `json:"codec"`  // ident | bin
	SegSize int         `json:"segSize"`
	Seed    int64       `json:"seed"`
	Steps   []Step      `json:"steps"`
	Faults  []FaultSpec `json:"faults,omitempty"`
	Forks   []*Fork     `json:"forks,omitempty"`
	Expand  bool        `json:"expand,omitempty"`
	// ProbeEach: probe (first,last,get window) after every step.
	ProbeEach bool `json:"probeEach,omitempty"`
	// ReopenEach: insert close+open+probe after every step (second pass of C05).
	ReopenEach bool `json:"reopenEach,omitempty"`
	// CheckFormat: run the README-format decoder on every segment file after each step (C09).
	CheckFormat bool `json:"checkFormat,omitempty"`
	Metrics     bool `json:"metrics,omitempty"`
	// After the faulty workload: clear faults, continuation, clean reopen, probe.
	Cont []Step `json:"cont,omitempty"`
	// Soft: a regression scenario from the corpus; if its recorded crash images
	// no longer fit the I/O the current tree performs it is skipped, not an error.
	Chain    bool   `json:"chain,omitempty"` // orchestration hints (used by lib/walengine.py only)
	ChainCap int    `json:"chainCap,omitempty"`
	Soft     bool   `json:"soft,omitempty"`
	Tag      string `json:"tag,omitempty"`
	// Real: run on the production fs.FS + metadb.BoltMetaDB in a scratch directory.
	Real bool `json:"real,omitempty"`
	// SnapshotEach (real mode): after every step copy the directory (the image a process
	// kill would leave: bolt between transactions) and fork: Open the copy, probe, read Keys.
	SnapshotEach bool  `json:"snapshotEach,omitempty"`
	Keys         []int `json:"keys,omitempty"`
	// LeftTmp (real mode): what a first Open that lost power inside the metadata initialisation may leave under
	// wal-meta.db.tmp: garbage | empty | valid (complete database) | short (its first bytes) | torn (full size,
	// the two bolt meta pages never written).
	LeftTmp string `json:"leftTmp,omitempty"`
}

// Out bundles the output streams.
type Out struct {
	Obs *bufio.Writer // observation trace (ndjson)
	IO  *bufio.Writer // I/O traces for crash expansion (ndjson)
	// statistics
	Runs, Forks, Events, MaterialiseErrors int
	SoftSkipped                            int
	Panics                                 int
	Notes                                  []string
}

func (o *Out) obs(m map[string]any) {
	b, err := json.Marshal(m)
	if err != nil {
		panic(err)
	}
	o.Obs.Write(b)
	o.Obs.WriteByte('\n')
	o.Events++
	if m["ev"] == "reset" {
		// what is on disk always names the run in progress: if a library goroutine takes the process down, the
		// checker knows which run it was (lib/walengine.py run_jobs)
		o.Obs.Flush()
	}
}

type stepInfo struct {
	inv, ret, lastMut int // log indexes
	markBefore        int // mark id holding the judge state before the step
	ev                map[string]any
	completed         bool
}

// run is one process lifetime chain on one sim world (until a crash).
type run struct {
	job        *Job
	out        *Out
	path       string
	init       *sim.Image
	rec        *sim.Recorder
	fs         *sim.FS
	meta       *sim.Meta
	w          *wal.WAL
	pool       *valpool.Pool
	mc         *metrics.AtomicCollector
	steps      []stepInfo
	lastFailed *Step // the StoreLogs call that failed last (a "retry" step submits its indexes again)
	// shared across the whole job tree
	sh *shared
	// nCreatesSeen: fs.Creates already reported
	nCreatesSeen int
	dead         bool // open failed / panic: no further steps
	forkNode     *Fork
	lastMark     int
	dir          string    // real mode: the directory
	held         []heldVal // values returned by Get, re-compared after every later step (C08: copy out of the txn)
	fmtSegs      map[string]*segRec
	lastBatchSeg string
	submitted    map[uint64][][]byte // index -> encodings ever submitted (format check, real mode)
	// index window ever used on this execution path (inherited by forks)
	minIdx, maxIdx uint64
}

type heldVal struct {
	key  int
	got  []byte
	snap []byte
}

type shared struct {
	nextMark int
	nextCid  int
}

func (r *run) noteIdx(i uint64) {
	if r.minIdx == 0 || i < r.minIdx {
		r.minIdx = i
	}
	if i > r.maxIdx {
		r.maxIdx = i
	}
}

func (r *run) mark() int {
	if len(r.forks()) == 0 && !r.job.SnapshotEach {
		return -1 // nobody will restore to a mark of this run
	}
	id := r.sh.nextMark
	r.sh.nextMark++
	r.out.obs(map[string]any{"ev": "mark", "id": id})
	return id
}

func (r *run) open() bool {
	defer r.guard("open")
	sf := segment.NewFiler("/sim", r.fs)
	var w *wal.WAL
	var err error
	lg := hclog.NewNullLogger()
	if r.job.Real {
		opts := []func(*wal.WAL){}
		_ = opts
		if r.job.Codec == "bin" {
			w, err = wal.Open(r.dir, wal.WithSegmentSize(r.job.SegSize), wal.WithLogger(lg), wal.WithMetricsCollector(r.mc))
		} else {
			w, err = wal.Open(r.dir, wal.WithSegmentSize(r.job.SegSize), wal.WithLogger(lg), wal.WithMetricsCollector(r.mc),
				wal.WithCodec(valpool.IdentCodec{}))
		}
	} else if r.job.Codec == "bin" {
		w, err = wal.Open("/sim", wal.WithSegmentFiler(sf), wal.WithMetaStore(r.meta),
			wal.WithSegmentSize(r.job.SegSize), wal.WithLogger(lg), wal.WithMetricsCollector(r.mc))
	} else {
		w, err = wal.Open("/sim", wal.WithSegmentFiler(sf), wal.WithMetaStore(r.meta),
			wal.WithSegmentSize(r.job.SegSize), wal.WithLogger(lg), wal.WithMetricsCollector(r.mc),
			wal.WithCodec(valpool.IdentCodec{}))
	}
	if err != nil {
		if !r.job.Real {
			r.reportCreates() // a Create that collided with an existing file is a C13 matter
		}
		r.out.obs(map[string]any{"ev": "open", "res": "err", "msg": err.Error(), "fault": r.faultFired()})
		r.dead = true
		return false
	}
	r.w = w
	r.rec.ResetInjectedIfCleared()
	r.out.obs(map[string]any{"ev": "open", "res": "ok", "fault": r.faultFired()})
	if !r.job.Real {
		r.reportCreates()
		r.reportDir("open")
	}
	return true
}

// retInfo is the cheap scalar state logged at the return of an API call for spec/WalImplTrace.tla: the call's result
// class and the log bounds the WAL reports right now (in-memory reads, no I/O).
func (r *run) retInfo(op string, ev map[string]any) string {
	info := map[string]any{"res": "", "first": -1, "last": -1}
	if op == "open" {
		if r.w != nil && !r.dead {
			info["res"] = "ok"
		} else {
			info["res"] = "err"
		}
	} else if ev != nil {
		if s, ok := ev["res"].(string); ok {
			info["res"] = s
		}
	}
	if r.w != nil && !r.dead && !r.rec.Frozen() {
		func() {
			defer func() { recover() }()
			f, e1 := r.w.FirstIndex()
			l, e2 := r.w.LastIndex()
			if e1 == nil && e2 == nil {
				info["first"], info["last"] = f, l
			}
		}()
	}
	b, _ := json.Marshal(info)
	return string(b)
}

func (r *run) guard(where string) {
	if p := recover(); p != nil {
		r.out.Panics++
		r.out.obs(map[string]any{"ev": "panic", "where": where, "msg": fmt.Sprint(p), "stack": firstLines(string(debug.Stack()), 12)})
		r.dead = true
	}
}

func firstLines(s string, n int) string {
	ls := strings.Split(s, "\n")
	if len(ls) > n {
		ls = ls[:n]
	}
	return strings.Join(ls, "\n")
}

// quiesce lets a pending background rotation run to completion.
func (r *run) quiesce() {
	if r.w == nil || r.dead {
		return
	}
	r.rec.AllowBackground(true)
	// A no-op DeleteRange beyond the log waits for a pending rotation.
	_ = r.w.DeleteRange(1<<62, 1<<62)
	r.rec.AllowBackground(false)
}

func (r *run) reportCreates() {
	cs := r.fs.Creates
	for _, n := range cs[r.nCreatesSeen:] {
		var base, id uint64
		fmt.Sscanf(n, "%020d-%016x.wal", &base, &id)
		res := "ok"
		if strings.HasPrefix(n, "!") {
			res = "exists"
			n = n[1:]
			fmt.Sscanf(n, "%020d-%016x.wal", &base, &id)
		}
		r.out.obs(map[string]any{"ev": "creat", "id": id, "base": base, "name": n, "res": res})
	}
	r.nCreatesSeen = len(cs)
}

func (r *run) reportDir(after string) {
	st, _ := r.meta.Current()
	segs := []string{}
	for _, s := range st.Segments {
		segs = append(segs, segment.FileName(s))
	}
	sort.Strings(segs)
	r.out.obs(map[string]any{"ev": "dir", "after": after, "files": r.fs.Names(), "segs": segs})
}

func errClass(err error) string {
	switch {
	case err == nil:
		return "ok"
	case errors.Is(err, raft.ErrLogNotFound):
		return "notfound"
	case errors.Is(err, wal.ErrClosed):
		return "closed"
	default:
		return "err"
	}
}

func (r *run) probe() {
	if r.w == nil || r.dead {
		return
	}
	defer r.guard("probe")
	f, err := r.w.FirstIndex()
	if err != nil {
		r.out.obs(map[string]any{"ev": "first", "val": 0, "res": errClass(err)})
	} else {
		r.out.obs(map[string]any{"ev": "first", "val": f, "res": "ok"})
	}
	l, err := r.w.LastIndex()
	if err != nil {
		r.out.obs(map[string]any{"ev": "last", "val": 0, "res": errClass(err)})
	} else {
		r.out.obs(map[string]any{"ev": "last", "val": l, "res": "ok"})
	}
	for _, i := range r.window(f, l) {
		r.get(i)
	}
}

func (r *run) window(f, l uint64) []uint64 {
	set := map[uint64]bool{0: true}
	lo, hi := r.minIdx, r.maxIdx
	if f > 0 && (lo == 0 || f < lo) {
		lo = f
	}
	if l > hi {
		hi = l
	}
	if hi > 0 {
		if lo > 1 {
			lo--
		}
		if lo > 2 {
			lo--
		}
		for i := lo; i <= hi+2; i++ {
			set[i] = true
		}
	}
	out := make([]uint64, 0, len(set))
	for i := range set {
		out = append(out, i)
	}
	sort.Slice(out, func(a, b int) bool { return out[a] < out[b] })
	return out
}

func (r *run) get(i uint64) {
	var lg raft.Log
	err := r.w.GetLog(i, &lg)
	cid := 0
	if err == nil {
		cid = r.pool.Identify(i, &lg)
	}
	m := map[string]any{"ev": "get", "idx": i, "res": errClass(err), "cid": cid, "nbytes": 0}
	if err == nil {
		m["nbytes"] = r.encodedLen(&lg)
	}
	if err != nil && errClass(err) == "err" {
		m["msg"] = err.Error()
	}
	r.out.obs(m)
}

// resolve turns a relative step into a concrete one.
func (r *run) resolve(s Step) Step {
	if !s.Rel {
		return s
	}
	first, _ := r.w.FirstIndex()
	last, _ := r.w.LastIndex()
	switch s.Op {
	case "store":
		n := s.N
		if n == 0 {
			n = len(s.Sz)
		}
		s.First = last + 1
		if last == 0 {
			s.First = r.maxIdx + 1
			if s.First == 0 {
				s.First = 1
			}
		}
		s.Cids = nil
		for j := 0; j < n; j++ {
			s.Cids = append(s.Cids, r.sh.nextCid)
			r.sh.nextCid++
		}
		if len(s.Sz) == 0 {
			for j := 0; j < n; j++ {
				s.Sz = append(s.Sz, 1)
			}
		}
	case "delete":
		switch s.RelDel {
		case "tail1":
			s.Min, s.Max = last, last
		case "head1":
			s.Min, s.Max = first, first
		case "all":
			s.Min, s.Max = first, last
		}
		if s.Min == 0 {
			s.Min, s.Max = 1, 0 // empty log: empty range (no-op)
		}
	}
	s.Rel = false
	return s
}

const hugeIdx = 1<<30 + math.MaxUint64%1000 // how MaxUint64 is written in scenarios and traces (TLC integers are 32 bit)

// doStep performs one scenario step and emits its observation event(s).
func (r *run) doStep(s Step) {
	if r.dead {
		return
	}
	if r.w == nil && s.Op != "open" {
		return
	}
	if s.Op == "reopen" {
		// a clean restart = Close followed by Open: two API calls (separate markers in the I/O trace)
		r.doStep(Step{Op: "close"})
		r.doStep(Step{Op: "open"})
		return
	}
	if s.Op == "retry" {
		// the caller's reaction to a failed append: the same indexes, the same sizes, submitted again (new contents)
		if r.lastFailed == nil {
			s = Step{Op: "store", Rel: true, N: 1, Sz: []int{1}}
		} else {
			f := *r.lastFailed
			s = Step{Op: "store", First: f.First, Idxs: f.Idxs, Sz: f.Sz, Look: f.Look, Bytes: f.Bytes}
			for range f.Cids {
				s.Cids = append(s.Cids, r.sh.nextCid)
				r.sh.nextCid++
			}
		}
	}
	wasRel := s.Rel
	s = r.resolve(s)
	si := stepInfo{markBefore: r.mark(), inv: r.rec.Len()}
	opDesc, _ := json.Marshal(s)
	r.rec.Mark("inv", string(opDesc), "")
	var ev map[string]any
	func() {
		defer r.guard(s.Op)
		switch s.Op {
		case "store":
			logs := make([]*raft.Log, len(s.Cids))
			idxs := make([]uint64, len(s.Cids))
			for j, c := range s.Cids {
				idxs[j] = s.First + uint64(j)
				if j < len(s.Idxs) {
					idxs[j] = s.Idxs[j]
				}
				e := valpool.Ent{Idx: idxs[j], Cid: c, Sz: 1}
				if j < len(s.Sz) {
					e.Sz = s.Sz[j]
				}
				if j < len(s.Look) {
					e.Look = s.Look[j]
				}
				if j < len(s.Bytes) {
					e.Bytes = s.Bytes[j]
				}
				logs[j] = r.pool.Log(e)
				r.noteIdx(e.Idx)
				if c >= r.sh.nextCid {
					r.sh.nextCid = c + 1
				}
			}
			nb := 0
			for _, lg := range logs {
				nb += r.encodedLen(lg)
			}
			err := r.w.StoreLogs(logs)
			if err != nil {
				sc := s
				r.lastFailed = &sc
			} else {
				r.lastFailed = nil
			}
			if r.job.CheckFormat {
				if r.submitted == nil {
					r.submitted = map[uint64][][]byte{}
				}
				for _, lg := range logs {
					r.submitted[lg.Index] = append(r.submitted[lg.Index], r.encode(lg))
				}
				if err == nil && !r.job.Real {
					r.noteBatch(logs)
				}
			}
			mayrej := false
			for _, lg := range logs {
				if r.encodedLen(lg) > 64*1024*1024 {
					mayrej = true // larger than the documented maximum: the WAL may (must, if it cannot read it back) refuse it
				}
			}
			// rel: the driver chose the index from the WAL's own LastIndex (an append the WAL cannot legitimately refuse)
			ev = map[string]any{"ev": "store", "idxs": idxs, "cids": s.Cids, "res": errClass(err), "nbytes": nb, "mayrej": mayrej, "rel": wasRel}
			if err != nil {
				ev["msg"] = err.Error()
			}
		case "delete":
			// spec/WalContract.tla's Huge stands for the largest index there is
			mn, mx := s.Min, s.Max
			if mn == hugeIdx {
				mn = math.MaxUint64
			}
			if mx == hugeIdx {
				mx = math.MaxUint64
			}
			err := r.w.DeleteRange(mn, mx)
			ev = map[string]any{"ev": "delete", "min": s.Min, "max": s.Max, "res": errClass(err)}
			if err != nil {
				ev["msg"] = err.Error()
			}
		case "set":
			var err error
			if s.U64 {
				err = r.w.SetUint64(keyBytes(s.Key), uint64(s.Val))
			} else {
				err = r.w.Set(keyBytes(s.Key), valBytes(s.Val))
			}
			cv := s.Val
			if !s.U64 && cv == 1 {
				cv = 0 // an empty value reads back like nil (the property allows nil/empty)
			}
			ev = map[string]any{"ev": "set", "key": s.Key, "val": cv, "u64": s.U64, "res": errClass(err)}
		case "getk":
			if s.U64 {
				v, err := r.w.GetUint64(keyBytes(s.Key))
				ev = map[string]any{"ev": "getk", "key": s.Key, "val": int(v), "u64": true, "res": errClass(err)}
			} else {
				v, err := r.w.Get(keyBytes(s.Key))
				ev = map[string]any{"ev": "getk", "key": s.Key, "val": valID(v), "u64": false, "res": errClass(err)}
				if err == nil && len(v) > 0 {
					r.held = append(r.held, heldVal{s.Key, v, append([]byte(nil), v...)})
				}
			}
		case "close":
			r.held = nil // memory handed out by a store must not be touched after Close
			err := r.w.Close()
			ev = map[string]any{"ev": "close", "res": errClass(err)}
			r.w = nil
		case "open":
			r.reopenWorld()
			ev = nil
			r.open()
		case "reopen":
			r.held = nil
			err := r.w.Close()
			r.out.obs(map[string]any{"ev": "close", "res": errClass(err)})
			r.w = nil
			r.reopenWorld()
			r.open()
		case "probe":
			r.probe()
		default:
			panic("unknown op " + s.Op)
		}
	}()
	if ev != nil {
		ev["fault"] = r.faultFired()
		r.out.obs(ev)
		si.ev = ev
	} else {
		si.ev = map[string]any{"ev": "none"}
	}
	si.lastMut = r.lastMutating(si.inv)
	si.ret = r.rec.Len()
	r.rec.Mark("ret", r.retInfo(s.Op, si.ev), "")
	si.completed = true
	r.steps = append(r.steps, si)
	if s.Op == "store" || s.Op == "delete" {
		r.quiesce()
		if !r.job.Real {
			r.reportCreates()
		}
		if r.job.CheckFormat && !r.job.Real && r.fmtSegs != nil {
			r.noteSeals(s.Op == "store")
		}
	}
	if r.job.CheckFormat && !r.dead && (s.Op == "store" || s.Op == "delete" || s.Op == "reopen") {
		r.checkFormat(s.Op)
	}
	if s.Op == "delete" && !r.job.Real {
		r.reportDir("delete")
	}
	if r.job.SnapshotEach && r.job.Real && !r.dead && r.forkNode == nil && s.Op != "probe" && s.Op != "getk" {
		r.snapshotFork()
	}
	if r.job.Metrics && r.w != nil {
		r.reportMetrics()
	}
	if len(r.held) > 0 && s.Op != "getk" && s.Op != "probe" {
		ok, msg := true, ""
		func() {
			// a slice that still points into the store's mmap may even have been unmapped by now
			old := debug.SetPanicOnFault(true)
			defer debug.SetPanicOnFault(old)
			defer func() {
				if p := recover(); p != nil {
					ok, msg = false, fmt.Sprintf("reading a value returned earlier by Get faults after a later %s: %v", s.Op, p)
				}
			}()
			for _, h := range r.held {
				if !bytes.Equal(h.got, h.snap) {
					ok, msg = false, fmt.Sprintf("value returned by Get(key %d) changed after a later %s", h.key, s.Op)
					break
				}
			}
		}()
		r.out.obs(map[string]any{"ev": "alias", "ok": ok, "msg": msg})
		if !ok {
			r.held = nil
		}
	}
}

func (r *run) faultFired() bool {
	return r.rec.InjectedCount() > 0
}

func (r *run) lastMutating(from int) int {
	log := r.rec.Snapshot()
	last := -1
	for i := from; i < len(log); i++ {
		if isMut(&log[i]) {
			last = i
		}
	}
	return last
}

func isMut(e *sim.Ev) bool {
	switch e.Call {
	case "create", "write", "sync", "dirsync", "unlink", "mcommit", "sset":
		return true
	}
	return false
}

// reopenWorld: a clean close/open keeps the same simulated world (same recorder
// and files); the metadata store object is re-created from its current content
// like a re-opened BoltDB would be.
func (r *run) reopenWorld() {
	if r.job.Real {
		return
	}
	st, stable := r.meta.Current()
	im := &sim.Image{Meta: st, HasMeta: true, Stable: stable}
	r.meta = sim.NewMeta(r.rec, im)
}

func (r *run) reportMetrics() {
	s := r.mc.Summary()
	m := map[string]any{"ev": "metrics"}
	for k, v := range s.Counters {
		if v > 1<<30 {
			v = 1<<30 + v%1000 // TLC integers are 32 bit
		}
		m[k] = v
	}
	// ground truth for rotations: metadata commits issued by the background rotation goroutine
	rot := 0
	for _, e := range r.rec.Snapshot() {
		if e.BG && e.Call == "mcommit" && e.Res == "ok" {
			rot++
		}
	}
	m["bg_rotations"] = rot
	r.out.obs(m)
}

// encodedLen is the size of the entry after encoding with the job's codec.
func (r *run) encodedLen(l *raft.Log) int {
	if r.job.Codec != "bin" {
		return len(l.Data)
	}
	var buf bytes.Buffer
	(&wal.BinaryCodec{}).Encode(l, &buf)
	return buf.Len()
}

// keyBytes: key 2 is the name under which the bolt store keeps the segment metadata in its own bucket ("m"):
// the stable map is isolated from the log's bookkeeping for every key, also one that collides with an internal name.
func keyBytes(k int) []byte {
	if k == 2 {
		return []byte("m")
	}
	return []byte(fmt.Sprintf("key-%d", k))
}
func valBytes(v int) []byte {
	if v == 0 {
		return nil
	}
	if v == 1 {
		return []byte{}
	}
	n := v % 7
	if v >= 100 {
		n = 1500 + v // large enough for bolt to move the bucket out of its inline form
	}
	return []byte(fmt.Sprintf("value-%d-%s", v, strings.Repeat("x", n)))
}
func valID(b []byte) int {
	if len(b) == 0 {
		return 0
	}
	var v int
	var pad string
	if n, _ := fmt.Sscanf(string(b), "value-%d-%s", &v, &pad); n >= 1 {
		if string(valBytes(v)) == string(b) {
			return v
		}
	}
	if n, _ := fmt.Sscanf(string(b), "value-%d-", &v); n == 1 && string(valBytes(v)) == string(b) {
		return v
	}
	return -1
}

func newRun(job *Job, out *Out, sh *shared, path string, init *sim.Image) *run {
	r := &run{job: job, out: out, sh: sh, path: path, init: init}
	r.rec = sim.NewRecorder()
	r.rec.Gate = true
	r.fs = sim.NewFS(r.rec, init)
	r.meta = sim.NewMeta(r.rec, init)
	r.pool = valpool.New(job.Seed, job.Codec == "bin")
	r.mc = metrics.NewAtomicCollector(wal.MetricDefinitions)
	if job.Real {
		r.rec.Gate = false
		d, err := os.MkdirTemp("", "verif-real-")
		if err != nil {
			panic(err)
		}
		r.dir = d
		if job.LeftTmp != "" {
			if err := plantTmp(d, job.LeftTmp); err != nil {
				panic(err)
			}
		}
	}
	return r
}

func plantTmp(dir, kind string) error {
	name := filepath.Join(dir, "wal-meta.db.tmp")
	switch kind {
	case "garbage":
		return os.WriteFile(name, []byte("not a database, just what a killed process left behind"), 0644)
	case "empty":
		return os.WriteFile(name, nil, 0644)
	}
	bb, err := bbolt.Open(name, 0644, nil)
	if err != nil {
		return err
	}
	err = bb.Update(func(tx *bbolt.Tx) error {
		for _, b := range []string{"wal-meta", "stable"} {
			if _, err := tx.CreateBucket([]byte(b)); err != nil {
				return err
			}
		}
		return nil
	})
	if cerr := bb.Close(); err == nil {
		err = cerr
	}
	if err != nil || kind == "valid" {
		return err
	}
	b, err := os.ReadFile(name)
	if err != nil {
		return err
	}
	switch kind {
	case "short":
		b = b[:100]
	case "torn":
		ps := os.Getpagesize()
		for i := 0; i < 2*ps && i < len(b); i++ {
			b[i] = 0
		}
	}
	return os.WriteFile(name, b, 0644)
}

// snapshotFork (real mode): copy the directory as it is now - what a kill of the
// process would leave - open the copy and check it against the judge's state.
func (r *run) snapshotFork() {
	m := r.mark()
	cp, err := os.MkdirTemp("", "verif-snap-")
	if err != nil {
		panic(err)
	}
	defer os.RemoveAll(cp)
	ents, _ := os.ReadDir(r.dir)
	for _, e := range ents {
		b, err := os.ReadFile(filepath.Join(r.dir, e.Name()))
		if err == nil {
			os.WriteFile(filepath.Join(cp, e.Name()), b, 0644)
		}
	}
	r.out.Forks++
	r.out.obs(map[string]any{"ev": "restore", "id": m})
	r.out.obs(map[string]any{"ev": "crash", "fork": fmt.Sprintf("%s/s%d", r.path, m), "at": -1, "op": map[string]any{"ev": "none"},
		"hash": fmt.Sprintf("snap-%s-%d", r.path, m), "trivial": false, "dirty": 0, "kept": 0})
	c := &run{job: r.job, out: r.out, sh: r.sh, path: fmt.Sprintf("%s/s%d", r.path, m), init: sim.EmptyImage()}
	c.rec = sim.NewRecorder()
	c.fs = sim.NewFS(c.rec, c.init)
	c.meta = sim.NewMeta(c.rec, c.init)
	c.pool = r.pool
	c.mc = metrics.NewAtomicCollector(wal.MetricDefinitions)
	c.dir = cp
	c.forkNode = &Fork{}
	c.minIdx, c.maxIdx = r.minIdx, r.maxIdx
	if c.open() {
		c.probe()
		for _, k := range r.job.Keys {
			c.doStep(Step{Op: "getk", Key: k})
		}
		func() {
			defer c.guard("close")
			c.w.Close()
		}()
	}
	// back to the live run
	r.out.obs(map[string]any{"ev": "restore", "id": m})
}

// RunJob executes a job and its fork tree.
func RunJob(job *Job, out *Out) {
	sh := &shared{nextCid: 1000}
	out.Runs++
	out.obs(map[string]any{"ev": "reset", "id": job.ID, "family": job.Family, "tag": job.Tag})
	r := newRun(job, out, sh, job.ID, sim.EmptyImage())
	for _, f := range job.Faults {
		r.rec.Faults[f.Call] = sim.Fault{Kind: f.Kind, Prefix: f.Prefix, SyncApplied: f.SyncApplied}
	}
	pool := r.pool
	// step 0: the initial Open
	r.doStep(Step{Op: "open"})
	if job.ProbeEach {
		r.probe()
	}
	for _, s := range job.Steps {
		r.doStep(s)
		if job.ProbeEach {
			r.probe()
		}
		if job.ReopenEach && !r.dead && r.w != nil {
			r.doStep(Step{Op: "reopen"})
			r.probe()
		}
	}
	if job.Family == "fault" {
		r.rec.ClearFaults()
		r.rec.Mark("cleared", "", "")
		r.out.obs(map[string]any{"ev": "faults_cleared"})
		if r.w != nil && !r.dead {
			r.probe()
			for _, s := range job.Cont {
				r.doStep(s)
			}
		}
		// clean restart of the process: the old WAL object is abandoned if it is unusable
		if r.w != nil && !r.dead {
			r.doStep(Step{Op: "reopen"})
		} else {
			if r.w != nil {
				func() {
					defer func() { recover() }()
					r.w.Close()
				}()
				r.w = nil
			}
			r.dead = false
			r.doStep(Step{Op: "open"})
		}
		r.probe()
		for _, s := range job.Cont {
			r.doStep(s)
		}
		r.probe()
	}
	r.finish(pool)
	if r.job.Real {
		if r.w != nil {
			func() {
				defer r.guard("close")
				r.w.Close()
			}()
		}
		if r.job.CheckFormat && !r.dead {
			r.checkFormatReal()
		}
		os.RemoveAll(r.dir)
	}
}

// finish writes the I/O trace (if requested) and runs the forks of this run.
func (r *run) finish(pool *valpool.Pool) {
	log := r.rec.Snapshot()
	r.lastMark = r.mark()
	if r.isExpand() {
		r.writeIO(log)
	}
	forks := r.forks()
	// Shut the process down: Close releases the rotation goroutine and the buffers (its I/O comes
	// after the snapshot taken above and is not part of the explored history), then stop the world.
	if r.w != nil && !r.job.Real {
		func() {
			defer func() { recover() }()
			r.rec.AllowBackground(true)
			r.w.Close()
		}()
		r.w = nil
	}
	r.rec.Freeze()
	for _, f := range forks {
		r.runFork(f, log, pool)
	}
}

func (r *run) isExpand() bool {
	if r.forkNode != nil {
		return r.forkNode.Expand
	}
	return r.job.Expand
}
func (r *run) forks() []*Fork {
	if r.forkNode != nil {
		return r.forkNode.Forks
	}
	return r.job.Forks
}

func (r *run) writeIO(log []sim.Ev) {
	w := r.out.IO
	if w == nil {
		return
	}
	enc := func(v any) {
		b, _ := json.Marshal(v)
		w.Write(b)
		w.WriteByte('\n')
	}
	enc(map[string]any{"ev": "reset", "path": r.path})
	for _, n := range r.init.SortedNames() {
		enc(map[string]any{"ev": "init", "name": n, "size": (len(r.init.Files[n]) + sim.Chunk - 1) / sim.Chunk})
	}
	for _, t := range sim.Project(log) {
		enc(t)
	}
}

func (r *run) runFork(f *Fork, log []sim.Ev, pool *valpool.Pool) {
	out := r.out
	im, info, err := sim.MaterialiseInfo(r.init, log, &f.Image)
	if err != nil {
		if r.job.Soft {
			out.SoftSkipped++
		} else {
			out.MaterialiseErrors++
		}
		out.Notes = append(out.Notes, fmt.Sprintf("%s/%s: %v", r.path, f.ID, err))
		return
	}
	out.Forks++
	// Which judge state to restore, and which operation was in flight?
	restore, inflight := r.crashContext(f.Image.At)
	out.obs(map[string]any{"ev": "restore", "id": restore})
	if inflight == nil {
		inflight = map[string]any{"ev": "none"}
	}
	out.obs(map[string]any{"ev": "crash", "fork": r.path + "/" + f.ID, "at": f.Image.At, "op": inflight,
		"hash": info.Hash, "trivial": info.Trivial(), "dirty": info.Dirty, "kept": info.Kept})
	c := newRun(r.job, out, r.sh, r.path+"/"+f.ID, im)
	c.pool = pool
	c.forkNode = f
	c.minIdx, c.maxIdx = r.minIdx, r.maxIdx
	firstMark := r.sh.nextMark
	c.doStep(Step{Op: "open"})
	c.probe()
	for _, s := range f.Cont {
		c.doStep(s)
	}
	if !c.dead && c.w != nil {
		c.probe()
		c.doStep(Step{Op: "reopen"})
		c.probe()
	}
	c.finish(pool)
	if r.sh.nextMark > firstMark {
		out.obs(map[string]any{"ev": "unmark", "from": firstMark})
	}
}

// crashContext returns the mark id holding the judge state before the
// in-flight operation (or after the last completed one) and the in-flight op.
func (r *run) crashContext(at int) (int, map[string]any) {
	for i, si := range r.steps {
		if at <= si.inv {
			// crash before this step started: state before it
			return si.markBefore, nil
		}
		done := at > si.ret || si.lastMut < 0 || at > si.lastMut
		if !done {
			return si.markBefore, si.ev
		}
		if i == len(r.steps)-1 {
			break
		}
	}
	// after the last step (includes background work after it)
	return r.endMarkID(), nil
}

func (r *run) endMarkID() int { return r.lastMark }

// LoadJobs reads ndjson jobs.
func LoadJobs(path string) ([]*Job, error) {
	f, err := os.Open(path)
	if err != nil {
		return nil, err
	}
	defer f.Close()
	var jobs []*Job
	rd := bufio.NewReaderSize(f, 1<<20)
	for {
		line, err := rd.ReadBytes('\n')
		if len(strings.TrimSpace(string(line))) > 0 {
			var j Job
			if e := json.Unmarshal(line, &j); e != nil {
				return nil, fmt.Errorf("bad job line: %v", e)
			}
			jobs = append(jobs, &j)
		}
		if err == io.EOF {
			break
		}
		if err != nil {
			return nil, err
		}
	}
	return jobs, nil
}

var _ = types.ErrCorrupt
