// Package valpool concretises the abstract content ids of the TLA+ specs into
// raft.Log values and maps bytes read back from the WAL to content ids again
// (-1 = never submitted: fabricated or damaged content).
package valpool

import (
	"bytes"
	"encoding/binary"
	"io"
	"sync"
	"time"

	"github.com/hashicorp/raft"
)

// Ent is what the driver remembers about a submitted entry.
type Ent struct {
	Idx  uint64
	Cid  int
	Sz   int    // payload size in 8-byte words (class), see Payload
	Look string // "", "ehdr", "chdr", "zero": what payload words 2.. look like
	Bytes int   // exact payload byte length override (0 = 8*Sz)
}

type Pool struct {
	mu     sync.Mutex
	Seed   int64
	byKey  map[[2]uint64]Ent // (idx,cid) -> Ent
	Binary bool              // BinaryCodec: all raft.Log fields populated
}

func New(seed int64, binaryCodec bool) *Pool {
	return &Pool{Seed: seed, byKey: map[[2]uint64]Ent{}, Binary: binaryCodec}
}

// Payload builds the Data bytes for an entry. Word 0 identifies (idx,cid); the
// other words are deterministic filler whose first byte can be made to look
// like a frame header ("for all batch contents": adversarial payloads).
func (p *Pool) Payload(e Ent) []byte {
	n := e.Sz * 8
	if e.Bytes > 0 {
		n = e.Bytes
	} else if e.Bytes < 0 {
		n = 0 // explicit zero-length payload
	}
	if n == 0 {
		return []byte{}
	}
	if n < 8 {
		// too short to carry (idx,cid): bytes derived from the cid; Identify compares candidates
		b := make([]byte, n)
		for i := range b {
			b[i] = byte(e.Cid*(i+3) + i + int(e.Idx))
		}
		return b
	}
	words := (n + 7) / 8
	b := make([]byte, words*8)
	// word 0: tag byte, idx (3 bytes), cid (4 bytes)
	b[0] = 0xE0
	b[1] = byte(e.Idx)
	b[2] = byte(e.Idx >> 8)
	b[3] = byte(e.Idx >> 16)
	binary.LittleEndian.PutUint32(b[4:8], uint32(e.Cid))
	for j := 1; j < words; j++ {
		w := b[j*8 : j*8+8]
		switch e.Look {
		case "ehdr": // looks like an entry frame header with an 8-byte payload
			w[0] = 1
			binary.LittleEndian.PutUint32(w[4:8], 8)
		case "chdr": // looks like a commit frame
			w[0] = 3
			binary.LittleEndian.PutUint32(w[4:8], uint32(e.Cid)*2654435761+uint32(j))
		case "zero":
		default:
			w[0] = 0xE0 + byte(j&0x0f)
			w[1] = byte(p.Seed)
			binary.LittleEndian.PutUint16(w[2:4], uint16(j))
			binary.LittleEndian.PutUint32(w[4:8], uint32(e.Cid)^0x5a5a5a5a)
		}
	}
	return b[:n]
}

var baseTime = time.Date(2024, 5, 6, 7, 8, 9, 123456789, time.UTC)

// Log builds the raft.Log submitted for an entry and remembers it.
func (p *Pool) Log(e Ent) *raft.Log {
	p.mu.Lock()
	p.byKey[[2]uint64{e.Idx, uint64(e.Cid)}] = e
	p.mu.Unlock()
	return p.build(e)
}

func (p *Pool) build(e Ent) *raft.Log {
	l := &raft.Log{Index: e.Idx, Data: p.Payload(e)}
	if p.Binary {
		l.Term = uint64(e.Cid%5 + 1)
		l.Type = raft.LogType(e.Cid % 3)
		if e.Cid%2 == 1 {
			l.Extensions = []byte{byte(e.Cid), 0xEE, byte(e.Idx)}
		}
		l.AppendedAt = baseTime.Add(time.Duration(e.Cid) * time.Second)
	}
	return l
}

// Identify maps a log read back at index idx to its content id, or -1.
func (p *Pool) Identify(idx uint64, l *raft.Log) int {
	d := l.Data
	if len(d) < 8 {
		// short payloads: compare with every entry ever submitted at this index (latest first)
		p.mu.Lock()
		defer p.mu.Unlock()
		best := -1
		for k, e := range p.byKey {
			if k[0] != idx {
				continue
			}
			w := p.build(e)
			if bytes.Equal(w.Data, d) && (len(w.Data) > 0 || len(d) == 0) && e.Cid > best {
				if !p.Binary || (l.Index == w.Index && l.Term == w.Term) {
					best = e.Cid
				}
			}
		}
		return best
	}
	gotIdx := uint64(d[1]) | uint64(d[2])<<8 | uint64(d[3])<<16
	cid := int(binary.LittleEndian.Uint32(d[4:8]))
	p.mu.Lock()
	e, ok := p.byKey[[2]uint64{gotIdx, uint64(cid)}]
	p.mu.Unlock()
	if !ok {
		return -1
	}
	want := p.build(e)
	if !bytes.Equal(want.Data, l.Data) {
		return -1
	}
	if p.Binary {
		if l.Index != want.Index || l.Term != want.Term || l.Type != want.Type ||
			!bytes.Equal(l.Extensions, want.Extensions) || !l.AppendedAt.Equal(want.AppendedAt) {
			return -1
		}
	}
	if gotIdx != idx&0xffffff {
		// content of a different index served at idx: report the cid found; the
		// judge will see that it was never submitted at idx.
		return cid
	}
	return cid
}

// IdentCodec is a wal.Codec storing only Data (8-byte aligned payloads make
// entry frames exactly 1+Sz words: the spec's word granularity).
type IdentCodec struct{}

func (IdentCodec) ID() uint64 { return 1<<16 + 77 }
func (IdentCodec) Encode(l *raft.Log, w io.Writer) error {
	_, err := w.Write(l.Data)
	return err
}
func (IdentCodec) Decode(b []byte, l *raft.Log) error {
	l.Data = append([]byte(nil), b...)
	return nil
}
