//go:build !verif

package main

func setHook(fn func(string)) {}
