//go:build verif

package main

import wal "github.com/hashicorp/raft-wal"

func setHook(fn func(string)) {
	if fn == nil {
		wal.SetVerifHook(func(string) {})
		return
	}
	wal.SetVerifHook(fn)
}
