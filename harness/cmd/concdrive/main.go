// concdrive runs concurrency scenarios against the real WAL (properties C06, C14):
//   - forced schedules exported by TLC from spec/WalConc.tla are replayed through the
//     verifPoint hooks (build tag verif) and the sim filesystem's Sync gate,
//   - free-running histories (N readers + writer + closer + stable client) are recorded
//     with interval bounds for every read,
// and writes an ndjson trace judged by spec/ConcJudge.tla.
package main

import (
	"encoding/binary"
	"bytes"
	"bufio"
	"encoding/json"
	"errors"
	"flag"
	"fmt"
	"math/rand"
	"os"
	"runtime"
	"strings"
	"sync"
	"sync/atomic"
	"time"

	"github.com/hashicorp/go-hclog"
	"github.com/hashicorp/raft"
	wal "github.com/hashicorp/raft-wal"
	"github.com/hashicorp/raft-wal/segment"
	"github.com/hashicorp/raft-wal/types"

	"verif/harness/sim"
	"verif/harness/valpool"
)

type Scenario struct {
	ID         string     `json:"id"`
	Mode       string     `json:"mode"` // forced | free
	World      string     `json:"world"` // sim | real
	Prog       []string   `json:"prog"`
	NReaders   int        `json:"nreaders"`
	ReadsEach  int        `json:"readsEach"`
	WithCloser bool       `json:"withCloser"`
	WithStable bool       `json:"withStable"`
	SegSize    int        `json:"segSize"`
	Sched      [][]any    `json:"sched"` // [[proc, site], ...]
	Seed       int64      `json:"seed"`
	Preload    int        `json:"preload"` // entries stored before the threads start (free mode)
	CloseAfter int        `json:"closeAfter"` // free mode: closer starts after this many writer ops
	// Solo (forced mode): once the schedule (a prefix) has been played out, this process alone keeps running -
	// everybody else stays at the next gate they reach - until it has finished or is blocked (no gate reached
	// for soloQuiet); then all run freely. Turns one co-location witness into the two "who moves first" orders.
	Solo string `json:"solo"`
	// HotReaders (free mode): goroutines that spin on GetLog(LastIndex()+1) / GetLog(LastIndex()) against the live
	// tail until the writer is done. Only anomalies are recorded (anything but "not found" or the right entry).
	HotReaders int `json:"hotReaders"`
	// StableClients (free mode, with WithStable): concurrent SetUint64/GetUint64 clients, one key each.
	StableClients int `json:"stableClients"`
	// Variant (bigread mode): which buffer-handoff schedule, see bigVariants.
	Variant int `json:"variant"`
	// stablesched mode (stablesched.go): client programs, the order in which clients take steps, uint64 API or []byte API
	Clients [][]stableCall `json:"clients"`
	Order   []int          `json:"order"`
	U64     bool           `json:"u64"`
}

var out *bufio.Writer
var outMu sync.Mutex

var deferred [][]byte // read / stable events: written after the writer's events of the scenario

func emit(m map[string]any) {
	b, _ := json.Marshal(m)
	outMu.Lock()
	defer outMu.Unlock()
	if ev := m["ev"]; ev == "read" || ev == "stable" {
		deferred = append(deferred, b)
		return
	}
	out.Write(b)
	out.WriteByte('\n')
}

func flushDeferred() {
	outMu.Lock()
	for _, b := range deferred {
		out.Write(b)
		out.WriteByte('\n')
	}
	deferred = nil
	outMu.Unlock()
}

func class(err error) string {
	switch {
	case err == nil:
		return "ok"
	case errors.Is(err, raft.ErrLogNotFound):
		return "notfound"
	case errors.Is(err, wal.ErrClosed):
		return "closed"
	default:
		return "err"
	}
}

// controller enforces a schedule of hook passages.
type controller struct {
	mu       sync.Mutex
	cond     *sync.Cond
	sched    [][2]string
	pos      int
	aborted  bool
	reason   string
	procs    map[int64]string // goroutine id -> process name
	lastProg time.Time
	passed   int
	// running: the process that passed a gate last and has not settled yet (reached its next
	// gate, finished, or stayed away for settleTime = it is blocked on a lock or channel).
	running  string
	runStart time.Time
	solo     string
	soloOver bool
	soloLast time.Time // last sign of progress of the solo process (or the end of the prefix)
	soloHeld int       // gate arrivals of other processes that were held back for the solo process
}

const settleTime = 3 * time.Millisecond
const soloQuiet = 15 * time.Millisecond
const soloMax = 400 * time.Millisecond

// finishedProc: the named process has made its last call.
func (c *controller) finishedProc(proc string) {
	c.mu.Lock()
	if proc == c.solo {
		c.soloOver = true
	}
	c.mu.Unlock()
}

func (c *controller) settled(proc string) {
	c.mu.Lock()
	if c.running == proc {
		c.running = ""
	}
	c.mu.Unlock()
}

var vocab = map[string]map[string]string{
	"w": {"call": "call", "StoreLogs.checked": "w.checked", "DeleteRange.checked": "w.checked", "awaitRotation.unlocked": "awaitRotation.unlocked",
		"sync": "sync", "StoreLogs.appended": "StoreLogs.appended", "mutate.committed": "mutate.committed", "mutate.stored": "mutate.stored"},
	"rot": {"rotate.received": "rotate.received", "rotate.exit": "rotate.exit", "rotate.done": "rotate.done",
		"mutate.committed": "mutate.committed", "mutate.stored": "mutate.stored"},
	"r":      {"call": "call", "GetLog.checked": "GetLog.checked", "acquireState.loaded": "acquireState.loaded"},
	"closer": {"call": "call", "Close.flagged": "Close.flagged", "Close.stored": "Close.stored"},
	"stable": {"call": "call", "Set.checked": "Set.checked", "sset": "sset"},
}

func kind(proc string) string {
	if strings.HasPrefix(proc, "r") && proc != "rot" {
		return "r"
	}
	return proc
}

func (c *controller) procName() string {
	g := sim.GID()
	c.mu.Lock()
	defer c.mu.Unlock()
	if p, ok := c.procs[g]; ok {
		return p
	}
	return "rot" // the only goroutine the harness did not start
}

func (c *controller) register(name string) {
	g := sim.GID()
	c.mu.Lock()
	c.procs[g] = name
	c.mu.Unlock()
}

func (c *controller) abort(why string) {
	if !c.aborted {
		c.aborted = true
		c.reason = why
	}
	c.cond.Broadcast()
}

// at is called from the hook: block until it is this passage's turn.
func (c *controller) at(site string) {
	proc := c.procName()
	c.settled(proc) // arriving anywhere means the previous stretch of this process is over
	ms, ok := vocab[kind(proc)][site]
	if c.solo != "" && proc == c.solo {
		c.mu.Lock()
		c.soloLast = time.Now()
		c.mu.Unlock()
	}
	if os.Getenv("CONC_DEBUG") != "" {
		fmt.Fprintf(os.Stderr, "arrive %s %s (%v)\n", proc, site, ok)
	}
	if !ok {
		return // a site the model does not distinguish
	}
	c.mu.Lock()
	defer c.mu.Unlock()
	deadline := time.Now().Add(1500 * time.Millisecond)
	for !c.aborted && c.pos < len(c.sched) {
		cur := c.sched[c.pos]
		stretchOver := c.running == "" || c.running == proc || time.Since(c.runStart) > settleTime
		if cur[0] == proc && cur[1] == ms && stretchOver {
			c.pos++
			c.passed++
			c.running = proc
			c.runStart = time.Now()
			if c.pos == len(c.sched) {
				c.soloLast = c.runStart
			}
			return
		}
		if !(cur[0] == proc && cur[1] == ms) {
			// is this process expected to pass this site at all (next, for it)?
			found, any := false, false
			for _, e := range c.sched[c.pos:] {
				if e[0] == proc {
					any = true
					found = e[1] == ms
					break
				}
			}
			if any && !found {
				c.abort(fmt.Sprintf("%s reached %s, schedule expects %v next", proc, ms, cur))
				return
			}
			// !any: the schedule (a prefix) says nothing more about this process: it waits here until
			// the schedule has been played out
		}
		if time.Now().After(deadline) {
			c.abort(fmt.Sprintf("%s waited too long at %s for %v", proc, ms, cur))
			return
		}
		c.mu.Unlock()
		time.Sleep(100 * time.Microsecond)
		c.mu.Lock()
	}
	if c.solo != "" && proc == c.solo && len(c.sched) > 0 && c.pos >= len(c.sched) {
		// the process that passed the last gate of the prefix first finishes its stretch (eager semantics)
		for !c.aborted && c.running != "" && c.running != proc && time.Since(c.runStart) <= settleTime {
			c.mu.Unlock()
			time.Sleep(50 * time.Microsecond)
			c.mu.Lock()
		}
		c.soloLast = time.Now()
	}
	if c.solo != "" && proc != c.solo && !c.aborted && !c.soloOver && len(c.sched) > 0 && c.pos >= len(c.sched) {
		c.soloHeld++
		start := time.Now()
		for !c.aborted && !c.soloOver {
			if time.Since(c.soloLast) > soloQuiet || time.Since(start) > soloMax {
				c.soloOver = true // the solo process is blocked (or slow): everybody runs
				break
			}
			c.mu.Unlock()
			time.Sleep(100 * time.Microsecond)
			c.mu.Lock()
		}
	}
}

type world struct {
	sc   *Scenario
	rec  *sim.Recorder
	fs   *sim.FS
	meta *sim.Meta
	dir  string
	w    *wal.WAL
	pool *valpool.Pool
}

func (wd *world) open() error {
	lg := hclog.NewNullLogger()
	var err error
	if wd.sc.World == "real" {
		wd.w, err = wal.Open(wd.dir, wal.WithSegmentSize(wd.sc.SegSize), wal.WithLogger(lg), wal.WithCodec(valpool.IdentCodec{}))
	} else {
		wd.w, err = wal.Open("/sim", wal.WithSegmentFiler(segment.NewFiler("/sim", wd.fs)), wal.WithMetaStore(wd.meta),
			wal.WithSegmentSize(wd.sc.SegSize), wal.WithLogger(lg), wal.WithCodec(valpool.IdentCodec{}))
	}
	return err
}

type absLog struct {
	first uint64
	cids  []int
}

func (a *absLog) last() uint64 {
	if len(a.cids) == 0 {
		return 0
	}
	return a.first + uint64(len(a.cids)) - 1
}

// segStress: the publication protocol of the tail's in-memory index (offsets, commit index) under many tight-looping
// readers: one goroutine appends len(Prog) entries to a segment.Writer over the sim fs, HotReaders goroutines spin on
// GetLog(LastIndex()+1) and GetLog(LastIndex()). A read returns "not found" or exactly the entry appended at that index;
// anything else (a panic, another error, foreign bytes) is recorded.
func segStress(sc *Scenario) {
	emit(map[string]any{"ev": "reset", "id": sc.ID, "mode": sc.Mode, "withCloser": false, "prog": []string{}})
	rec := sim.NewRecorder()
	fs := sim.NewFS(rec, sim.EmptyImage())
	filer := segment.NewFiler("d", fs)
	info := types.SegmentInfo{ID: 1, BaseIndex: 1, MinIndex: 1, SizeLimit: uint32(sc.SegSize), Codec: 1, CreateTime: time.Now()}
	w, err := filer.Create(info)
	if err != nil {
		emit(map[string]any{"ev": "harness_panic", "who": "segstress", "msg": err.Error(), "stack": ""})
		return
	}
	defer w.Close()
	payload := func(i uint64) []byte {
		b := make([]byte, 24)
		for k := 0; k < 3; k++ {
			binary.LittleEndian.PutUint64(b[8*k:], i*2654435761+uint64(k))
		}
		return b
	}
	var over int32
	var reads, anomalies int64
	var wg sync.WaitGroup
	for h := 0; h < sc.HotReaders; h++ {
		h := h
		wg.Add(1)
		go func() {
			defer wg.Done()
			defer func() {
				if p := recover(); p != nil {
					buf := make([]byte, 4096)
					n := runtime.Stack(buf, false)
					ev := "panic"
					if !strings.Contains(string(buf[:n]), "raft-wal/segment") {
						ev = "harness_panic"
					}
					emit(map[string]any{"ev": ev, "who": "segment tail reader", "msg": fmt.Sprint(p), "stack": string(buf[:n])})
				}
			}()
			var n int64
			defer func() { atomic.AddInt64(&reads, n) }()
			for atomic.LoadInt32(&over) == 0 {
				idx := w.LastIndex() + 1
				if h%4 == 3 && idx > 1 {
					idx--
				}
				pb, err := w.GetLog(idx)
				n++
				if err != nil {
					if errors.Is(err, types.ErrNotFound) {
						continue
					}
				} else {
					ok := bytes.Equal(pb.Bs, payload(idx))
					pb.Close()
					if ok {
						continue
					}
				}
				if atomic.AddInt64(&anomalies, 1) <= 5 {
					emit(map[string]any{"ev": "anomaly", "what": "tail read", "idx": idx, "msg": emsg(err)})
				}
			}
		}()
	}
	began := time.Now()
	appended := uint64(0)
	for i := uint64(1); i <= uint64(len(sc.Prog)); i++ {
		if err := w.Append([]types.LogEntry{{Index: i, Data: payload(i)}}); err != nil {
			break // segment full (sealed): the stress is over
		}
		appended = i
		if i%16 == 0 {
			runtime.Gosched()
			if time.Since(began) > 1500*time.Millisecond {
				break // a time budget, not a work budget: the readers outnumber the cores
			}
		}
	}
	atomic.StoreInt32(&over, 1)
	wg.Wait()
	emit(map[string]any{"ev": "note", "segReads": atomic.LoadInt64(&reads), "segAppends": appended})
	emit(map[string]any{"ev": "schedule", "len": 0, "passed": 0, "aborted": false, "reason": "", "solo": "", "soloHeld": 0})
}

// bigRead: reads hand pooled 64 KiB buffers around; entries larger than the buffer take two ReadAt calls. Reader A is parked
// (sim fs ReadHook / ReadDoneHook) at a chosen point of its GetLog - before or after its n-th ReadAt - while reader B
// completes several GetLog calls on the same P (GOMAXPROCS(1), so that the buffer pool hands B whatever was given back);
// then A continues. Before that, `prime` reads run alone (whatever they leave in the pool is what A and B will be handed).
// Every read must return exactly its entry. Entries 1-3 are larger than the buffer, 4-6 small.
//   variant 0: A = big entry parked before its 2nd ReadAt          (a buffer given back before its content was used)
//   variant 1: one big read first; A = small entry parked after its ReadAt, B reads two small ones
//   variant 2: two big reads first; A small parked after its ReadAt, B reads small and big
//   variant 3: A = big entry parked after its 2nd ReadAt
//   variant 4: one small read first; A = big entry parked after its 1st ReadAt
//   variant 5, 6: after a clean restart (sealed segments are then read through their on-disk index: one small ReadAt for
//                 the index entry, then the frame): A = small entry parked after / before its n-th ReadAt, B reads its
//                 neighbours in the same sealed segment
type bigVariant struct {
	reopen bool
	prime []uint64
	a     uint64
	post  bool // park after the ReadAt (ReadDoneHook) instead of before it
	nth   int32
	b     []uint64
}

var bigVariants = []bigVariant{
	{false, nil, 1, false, 2, []uint64{2, 3}},
	{false, []uint64{1}, 4, true, 1, []uint64{5, 6}},
	{false, []uint64{1, 2}, 5, true, 1, []uint64{4, 3, 6}},
	{false, nil, 2, true, 2, []uint64{1, 3}},
	{false, []uint64{4}, 1, true, 1, []uint64{5, 2}},
	{true, nil, 4, true, 1, []uint64{5, 6}},
	{true, []uint64{6}, 5, false, 2, []uint64{4, 6}},
	{true, nil, 2, true, 1, []uint64{1, 3}},
}

func metaImage(m *sim.Meta) *sim.Image {
	st, stable := m.Current()
	return &sim.Image{Meta: st, HasMeta: true, Stable: stable}
}

func bigRead(sc *Scenario) {
	emit(map[string]any{"ev": "reset", "id": sc.ID, "mode": sc.Mode, "withCloser": false, "prog": []string{}})
	v := bigVariants[sc.Variant%len(bigVariants)]
	wd := &world{sc: sc, pool: valpool.New(sc.Seed, false)}
	wd.rec = sim.NewRecorder()
	wd.fs = sim.NewFS(wd.rec, sim.EmptyImage())
	wd.meta = sim.NewMeta(wd.rec, sim.EmptyImage())
	setHook(nil)
	if err := wd.open(); err != nil {
		emit(map[string]any{"ev": "open", "res": "err", "msg": err.Error()})
		return
	}
	defer func() { wd.w.Close() }()
	for i := uint64(1); i <= 7; i++ { // (7 is large again: in the small geometry it seals the segment that holds 4-6)
		nb := 70000 + int(i)*8
		if i > 3 && i < 7 {
			nb = 40 + int(i)*8
		}
		l := wd.pool.Log(valpool.Ent{Idx: i, Cid: int(i), Sz: 1, Bytes: nb})
		err := wd.w.StoreLogs([]*raft.Log{l})
		emit(map[string]any{"ev": "wop", "op": "store", "idx": i, "cid": int(i), "res": class(err), "msg": emsg(err), "thr": 0})
		if err != nil {
			return
		}
	}
	waitNoRotator()
	if v.reopen {
		if err := wd.w.Close(); err != nil {
			emit(map[string]any{"ev": "close", "res": "err", "msg": err.Error()})
			return
		}
		wd.meta = sim.NewMeta(wd.rec, metaImage(wd.meta))
		if err := wd.open(); err != nil {
			emit(map[string]any{"ev": "open", "res": "err", "msg": err.Error()})
			return
		}
		waitNoRotator()
	}
	old := runtime.GOMAXPROCS(1)
	defer runtime.GOMAXPROCS(old)
	var aG int64
	var nA int32
	parked := make(chan struct{})
	gate := make(chan struct{})
	hook := func(name string, off int64, n int) {
		if sim.GID() == atomic.LoadInt64(&aG) && atomic.AddInt32(&nA, 1) == v.nth {
			close(parked)
			<-gate
		}
	}
	read := func(p int, idx uint64) {
		defer func() {
			if x := recover(); x != nil {
				emit(map[string]any{"ev": "panic", "who": "big reader", "msg": fmt.Sprint(x), "stack": ""})
			}
		}()
		var lg raft.Log
		err := wd.w.GetLog(idx, &lg)
		cid := 0
		if err == nil {
			cid = wd.pool.Identify(idx, &lg)
		}
		emit(map[string]any{"ev": "read", "p": p, "kind": "get", "idx": idx, "res": class(err), "val": cid, "from": 7, "to": 7,
			"cs": 0, "msg": emsg(err), "sd": int64(1 << 30)})
	}
	for _, i := range v.prime {
		read(3, i)
	}
	if v.post {
		wd.rec.ReadDoneHook = hook
	} else {
		wd.rec.ReadHook = hook
	}
	defer func() { wd.rec.ReadHook, wd.rec.ReadDoneHook = nil, nil }()
	doneA := make(chan struct{})
	go func() {
		defer close(doneA)
		atomic.StoreInt64(&aG, sim.GID())
		read(1, v.a)
	}()
	select {
	case <-parked:
	case <-doneA: // A never reached the parking point on this tree: nothing to interleave
	case <-time.After(3 * time.Second):
	}
	for _, i := range v.b {
		read(2, i)
	}
	close(gate)
	select {
	case <-doneA:
	case <-time.After(5 * time.Second):
		emit(map[string]any{"ev": "stuck", "dump": []string{"big reader A did not return"}})
	}
	flushDeferred()
	emit(map[string]any{"ev": "schedule", "len": 0, "passed": 0, "aborted": false, "reason": "", "solo": "", "soloHeld": 0})
}

func runtimeStack(buf []byte) int { return runtime.Stack(buf, true) }

func runScenario(sc *Scenario) {
	if sc.Mode == "segstress" {
		segStress(sc)
		return
	}
	if sc.Mode == "bigread" {
		bigRead(sc)
		return
	}
	if sc.Mode == "stablesched" {
		stableSched(sc)
		return
	}
	emit(map[string]any{"ev": "reset", "id": sc.ID, "mode": sc.Mode, "withCloser": sc.WithCloser, "prog": sc.Prog})
	wd := &world{sc: sc, pool: valpool.New(sc.Seed, false)}
	if sc.World == "real" {
		d, err := os.MkdirTemp("", "verif-conc-")
		if err != nil {
			panic(err)
		}
		wd.dir = d
		defer os.RemoveAll(d)
	} else {
		wd.rec = sim.NewRecorder()
		wd.fs = sim.NewFS(wd.rec, sim.EmptyImage())
		wd.meta = sim.NewMeta(wd.rec, sim.EmptyImage())
	}
	ctl := &controller{procs: map[int64]string{}, solo: sc.Solo}
	ctl.cond = sync.NewCond(&ctl.mu)
	for _, e := range sc.Sched {
		ctl.sched = append(ctl.sched, [2]string{procOf(e[0]), fmt.Sprint(e[1])})
	}
	if sc.Mode == "forced" {
		setHook(func(site string) { ctl.at(site) })
		if wd.rec != nil {
			wd.rec.SyncHook = func(string) { ctl.at("sync") }
			wd.meta.Hook = func(c string) { ctl.at(c) }
		}
	} else {
		setHook(nil)
	}
	if err := wd.open(); err != nil {
		emit(map[string]any{"ev": "open", "res": "err", "msg": err.Error()})
		return
	}
	// abstract log maintained by the writer driver
	var amu sync.Mutex
	abs := &absLog{}
	nextCid := 1
	var started, done int64 // writer op counters (interval bounds for reads)
	var closeStarted int32
	rng := rand.New(rand.NewSource(sc.Seed))
	_ = rng
	// preload (not scheduled)
	if sc.Preload > 0 {
		saved := ctl.sched
		ctl.mu.Lock()
		ctl.aborted = true
		ctl.mu.Unlock()
		for i := 0; i < sc.Preload; i++ {
			idx := abs.last() + 1
			if len(abs.cids) == 0 {
				idx = 1
				abs.first = 1
			}
			l := wd.pool.Log(valpool.Ent{Idx: idx, Cid: nextCid, Sz: 1})
			if err := wd.w.StoreLogs([]*raft.Log{l}); err != nil {
				emit(map[string]any{"ev": "preload", "res": "err", "msg": err.Error()})
				return
			}
			atomic.AddInt64(&started, 1)
			atomic.AddInt64(&done, 1)
			abs.cids = append(abs.cids, nextCid)
			emit(map[string]any{"ev": "wop", "op": "store", "idx": idx, "cid": nextCid, "res": "ok", "msg": "", "thr": 0})
			nextCid++
		}
		_ = wd.w.DeleteRange(1<<62, 1<<62)
		ctl.mu.Lock()
		ctl.aborted = false
		ctl.sched = saved
		ctl.mu.Unlock()
	}

	var wg sync.WaitGroup
	var panics int32
	guard := func(who string) {
		if p := recover(); p != nil {
			atomic.AddInt32(&panics, 1)
			buf := make([]byte, 4096)
			n := runtime.Stack(buf, false)
			ev := "panic"
			if !strings.Contains(string(buf[:n]), "hashicorp/raft-wal") {
				ev = "harness_panic" // a bug of the harness, not of the code under test
			}
			emit(map[string]any{"ev": ev, "who": who, "msg": fmt.Sprint(p), "stack": string(buf[:n])})
		}
	}
	finished := make(chan string, 64)
	spawn := func(name string, fn func()) {
		wg.Add(1)
		go func() {
			defer wg.Done()
			defer func() { finished <- name; ctl.settled(name); ctl.finishedProc(name) }()
			defer guard(name)
			ctl.register(name)
			fn()
		}()
	}
	// writer
	var hotReads int64
	var writerOver int32
	spawn("w", func() {
		defer atomic.StoreInt32(&writerOver, 1)
		for _, op := range sc.Prog {
			ctl.at("call")
			atomic.AddInt64(&started, 1)
			amu.Lock()
			first, last := abs.first, abs.last()
			empty := len(abs.cids) == 0
			amu.Unlock()
			switch op {
			case "store", "jump":
				idx := last + 1
				if empty {
					idx = 1
					if first > 0 {
						idx = first
					}
					if op == "jump" {
						idx += 5 // first append at an index other than the tail's base: empty-log base-index reset
					}
				}
				op = "store"
				cid := nextCid
				nextCid++
				l := wd.pool.Log(valpool.Ent{Idx: idx, Cid: cid, Sz: 1})
				thr := int64(-1)
				if wd.fs != nil {
					thr = atomic.LoadInt64(&wd.fs.SyncDone) + 1 // the batch is durable once this many syncs completed
				}
				err := wd.w.StoreLogs([]*raft.Log{l})
				amu.Lock()
				if err == nil {
					if len(abs.cids) == 0 {
						abs.first = idx
					}
					abs.cids = append(abs.cids, cid)
				}
				emit(map[string]any{"ev": "wop", "op": "store", "idx": idx, "cid": cid, "res": class(err), "msg": emsg(err), "thr": thr})
				amu.Unlock()
			case "delh", "delt":
				if empty {
					err := wd.w.DeleteRange(1<<61, 1<<61) // no-op call (the model's writer still makes the call)
					emit(map[string]any{"ev": "wop", "op": "noop", "idx": 0, "cid": 0, "res": class(err), "msg": emsg(err), "thr": 0})
					break
				}
				if op == "delt" && first == last {
					op = "delh" // DeleteRange(x,x) on a one-entry log is a head truncation for the WAL
				}
				x := first
				if op == "delt" {
					x = last
				}
				err := wd.w.DeleteRange(x, x)
				amu.Lock()
				if err == nil {
					if op == "delh" {
						abs.cids = abs.cids[1:]
						abs.first++
					} else {
						abs.cids = abs.cids[:len(abs.cids)-1]
					}
					if len(abs.cids) == 0 {
						abs.first = last + 1
						if op == "delt" {
							abs.first = last
						}
					}
				}
				emit(map[string]any{"ev": "wop", "op": op, "idx": x, "cid": 0, "res": class(err), "msg": emsg(err), "thr": 0})
				amu.Unlock()
			}
			atomic.AddInt64(&done, 1)
			if sc.Mode == "free" {
				runtime.Gosched()
			}
		}
	})
	// readers
	for r := 1; r <= sc.NReaders; r++ {
		r := r
		rr := rand.New(rand.NewSource(sc.Seed*131 + int64(r)))
		spawn(fmt.Sprintf("r%d", r), func() {
			for k := 0; k < sc.ReadsEach; k++ {
				ctl.at("call")
				from := atomic.LoadInt64(&done)
				cs0 := atomic.LoadInt32(&closeStarted)
				_ = cs0
				which := 0
				if sc.Mode == "free" {
					which = rr.Intn(4)
				}
				switch which {
				case 1:
					v, err := wd.w.FirstIndex()
					to := atomic.LoadInt64(&started)
					emit(map[string]any{"ev": "read", "p": r, "kind": "first", "idx": 0, "res": class(err), "val": v, "from": from, "to": to,
						"cs": atomic.LoadInt32(&closeStarted)})
				case 2:
					v, err := wd.w.LastIndex()
					to := atomic.LoadInt64(&started)
					emit(map[string]any{"ev": "read", "p": r, "kind": "last", "idx": 0, "res": class(err), "val": v, "from": from, "to": to,
						"cs": atomic.LoadInt32(&closeStarted)})
				default:
					amu.Lock()
					hi := abs.last() + 1
					lo := abs.first
					amu.Unlock()
					idx := uint64(1)
					if sc.Mode == "free" {
						if lo > 1 {
							lo--
						}
						if lo == 0 {
							lo = 1
						}
						if hi < lo {
							lo = hi
						}
						idx = lo + uint64(rr.Intn(int(hi-lo)+2))
					} else if hi > 1 {
						idx = hi - 1
					}
					var lg raft.Log
					err := wd.w.GetLog(idx, &lg)
					to := atomic.LoadInt64(&started)
					cid := 0
					if err == nil {
						cid = wd.pool.Identify(idx, &lg)
					}
					sd := int64(1 << 30)
					if wd.fs != nil {
						sd = atomic.LoadInt64(&wd.fs.SyncDone) // sampled after the read returned (sound: can only be too large)
					}
					emit(map[string]any{"ev": "read", "p": r, "kind": "get", "idx": idx, "res": class(err), "val": cid, "from": from, "to": to,
						"cs": atomic.LoadInt32(&closeStarted), "msg": emsg(err), "sd": sd})
				}
			}
			if sc.Mode != "forced" {
				return
			}
			// forced schedules: once its scheduled reads are done the reader looks at the END of the log through every
			// call there is - the entry being appended right now, LastIndex, FirstIndex, that entry again. Where the writer
			// is parked in the middle of a call (the co-location witnesses continued with this reader alone), these reads
			// see a half-published operation; each must be justified by a state of the log and, in this order, never by
			// an older state than the one before (ConcJudge!ReadsWentBack).
			for k := 0; k < 4; k++ {
				from := atomic.LoadInt64(&done)
				amu.Lock()
				hi := abs.last() + 1
				amu.Unlock()
				switch k {
				case 0, 3:
					var lg raft.Log
					err := wd.w.GetLog(hi, &lg)
					to := atomic.LoadInt64(&started)
					cid := 0
					if err == nil {
						cid = wd.pool.Identify(hi, &lg)
					}
					sd := int64(1 << 30)
					if wd.fs != nil {
						sd = atomic.LoadInt64(&wd.fs.SyncDone)
					}
					emit(map[string]any{"ev": "read", "p": r, "kind": "get", "idx": hi, "res": class(err), "val": cid, "from": from, "to": to,
						"cs": atomic.LoadInt32(&closeStarted), "msg": emsg(err), "sd": sd})
				case 1:
					v, err := wd.w.LastIndex()
					to := atomic.LoadInt64(&started)
					emit(map[string]any{"ev": "read", "p": r, "kind": "last", "idx": 0, "res": class(err), "val": v, "from": from, "to": to,
						"cs": atomic.LoadInt32(&closeStarted)})
				case 2:
					v, err := wd.w.FirstIndex()
					to := atomic.LoadInt64(&started)
					emit(map[string]any{"ev": "read", "p": r, "kind": "first", "idx": 0, "res": class(err), "val": v, "from": from, "to": to,
						"cs": atomic.LoadInt32(&closeStarted)})
				}
			}
		})
	}
	for h := 0; h < sc.HotReaders && sc.Mode == "free"; h++ {
		h := h
		spawn(fmt.Sprintf("hot%d", h), func() {
			var n int64
			defer func() { atomic.AddInt64(&hotReads, n) }()
			for atomic.LoadInt32(&writerOver) == 0 && atomic.LoadInt32(&closeStarted) == 0 {
				from := atomic.LoadInt64(&done)
				l, err := wd.w.LastIndex()
				if err != nil {
					runtime.Gosched()
					continue
				}
				idx := l + 1 // the index about to be appended
				if h%4 == 3 && l > 0 {
					idx = l // every fourth reader: the newest one
				}
				var lg raft.Log
				err = wd.w.GetLog(idx, &lg)
				n++
				if n%8 == 0 {
					runtime.Gosched() // the writer must keep moving: this is a stress on the tail, not a starvation test
				}
				if err != nil && (errors.Is(err, raft.ErrLogNotFound) || errors.Is(err, wal.ErrClosed)) {
					continue
				}
				cid := 0
				if err == nil {
					cid = wd.pool.Identify(idx, &lg)
					if cid != 0 {
						continue
					}
				}
				to := atomic.LoadInt64(&started)
				emit(map[string]any{"ev": "read", "p": 90 + h, "kind": "get", "idx": idx, "res": class(err), "val": cid, "from": from, "to": to,
					"cs": atomic.LoadInt32(&closeStarted), "msg": emsg(err), "sd": int64(1 << 30)})
			}
		})
	}
	if sc.WithStable {
		spawn("stable", func() {
			ctl.at("call")
			err := wd.w.Set([]byte("k"), []byte("v1"))
			emit(map[string]any{"ev": "stable", "op": "set", "res": class(err), "msg": emsg(err), "cs": atomic.LoadInt32(&closeStarted)})
			v, err := wd.w.Get([]byte("k"))
			emit(map[string]any{"ev": "stable", "op": "get", "res": class(err), "val": string(v), "want": "v1", "msg": emsg(err), "cs": atomic.LoadInt32(&closeStarted)})
		})
		// free mode: further StableStore clients, each the only writer of its own uint64 key, running concurrently with
		// each other, the log writer and Close: what a client reads back is what it wrote last
		for c := 0; c < sc.StableClients && sc.Mode == "free"; c++ {
			c := c
			spawn(fmt.Sprintf("stableu%d", c), func() {
				key := []byte(fmt.Sprintf("u%d", c))
				for it := 0; it < 40; it++ {
					want := uint64(c+1)<<40 + uint64(it)*7 + 1
					err := wd.w.SetUint64(key, want)
					if err != nil {
						emit(map[string]any{"ev": "stable", "op": "setu", "res": class(err), "msg": emsg(err), "cs": atomic.LoadInt32(&closeStarted)})
						if errors.Is(err, wal.ErrClosed) {
							return
						}
						continue
					}
					got, err := wd.w.GetUint64(key)
					if err != nil && errors.Is(err, wal.ErrClosed) {
						return
					}
					if err != nil || got != want || it == 0 {
						emit(map[string]any{"ev": "stable", "op": "getu", "res": class(err), "val": fmt.Sprint(got), "want": fmt.Sprint(want), "msg": emsg(err),
							"cs": atomic.LoadInt32(&closeStarted)})
					}
					runtime.Gosched()
				}
			})
		}
	}
	if sc.WithCloser {
		spawn("closer", func() {
			if sc.Mode == "free" {
				for atomic.LoadInt64(&started) < int64(sc.CloseAfter+sc.Preload) {
					runtime.Gosched()
				}
			}
			ctl.at("call")
			atomic.StoreInt32(&closeStarted, 1)
			err := wd.w.Close()
			emit(map[string]any{"ev": "close", "res": class(err), "msg": emsg(err)})
		})
	}
	// wait with a watchdog
	allDone := make(chan struct{})
	go func() { wg.Wait(); close(allDone) }()
	stuck := false
	select {
	case <-allDone:
	case <-time.After(time.Duration(10+50*min(1, sc.HotReaders)) * time.Second):
		stuck = true
		buf := make([]byte, 1<<16)
		n := runtime.Stack(buf, true)
		emit(map[string]any{"ev": "stuck", "dump": parked(string(buf[:n]))})
	}
	if !stuck {
		flushDeferred()
	} else {
		outMu.Lock()
		deferred = nil
		outMu.Unlock()
	}
	if sc.HotReaders > 0 {
		emit(map[string]any{"ev": "note", "hotReads": atomic.LoadInt64(&hotReads)})
	}
	ctl.mu.Lock()
	emit(map[string]any{"ev": "schedule", "len": len(ctl.sched), "passed": ctl.passed, "aborted": ctl.aborted, "reason": ctl.reason,
		"solo": ctl.solo, "soloHeld": ctl.soloHeld})
	ctl.aborted = true
	ctl.mu.Unlock()
	setHook(nil)
	if stuck {
		return
	}
	if sc.WithCloser {
		// after Close returned: everything is ErrClosed, Close is idempotent
		var lg raft.Log
		_, e1 := wd.w.FirstIndex()
		_, e2 := wd.w.LastIndex()
		e3 := wd.w.GetLog(1, &lg)
		e4 := wd.w.StoreLogs([]*raft.Log{{Index: 1}})
		e5 := wd.w.DeleteRange(1, 1)
		e6 := wd.w.Set([]byte("a"), []byte("b"))
		_, e7 := wd.w.Get([]byte("a"))
		_, e8 := wd.w.GetUint64([]byte("a"))
		e9 := wd.w.SetUint64([]byte("a"), 1)
		for i, e := range []error{e1, e2, e3, e4, e5, e6, e7, e8, e9} {
			emit(map[string]any{"ev": "postclose", "m": i, "res": class(e)})
		}
		emit(map[string]any{"ev": "close2", "res": class(wd.w.Close())})
		// the rotation goroutine must be gone (give it up to 2 s to be scheduled and return)
		buf := make([]byte, 1<<18)
		rotator := true
		for i := 0; i < 400 && rotator; i++ {
			n := runtime.Stack(buf, true)
			rotator = strings.Contains(string(buf[:n]), "runRotate")
			if rotator {
				time.Sleep(5 * time.Millisecond)
			}
		}
		emit(map[string]any{"ev": "goroutines", "rotator": rotator})
		if wd.fs != nil {
			emit(map[string]any{"ev": "handles", "n": atomic.LoadInt64(&wd.fs.Handles)})
			// C13 across Close: every call has returned, every reader has released its state - also the ones that pinned a
			// state over a truncation AND over Close: no file of a removed segment may be left (files the metadata lists
			// but that are missing - a rotation cut short by Close - are Open's business, not this clause's)
			st, _ := wd.meta.Current()
			listed := map[string]bool{}
			for _, sg := range st.Segments {
				listed[segment.FileName(sg)] = true
			}
			extra := []string{}
			for _, n := range wd.fs.Names() {
				if !listed[n] {
					extra = append(extra, n)
				}
			}
			emit(map[string]any{"ev": "dircheck", "extra": extra, "n": len(extra)})
		}
		// everything acknowledged before Close is there after the next Open
		if wd.rec != nil {
			st, stable := wd.meta.Current()
			im := &sim.Image{Meta: st, HasMeta: true, Stable: stable}
			wd.meta = sim.NewMeta(wd.rec, im)
		}
		if err := wd.open(); err != nil {
			emit(map[string]any{"ev": "reopen", "res": "err", "msg": err.Error()})
			return
		}
		f, _ := wd.w.FirstIndex()
		l, _ := wd.w.LastIndex()
		got := []int{}
		for i := f; i <= l && f > 0; i++ {
			var lg raft.Log
			if err := wd.w.GetLog(i, &lg); err != nil {
				got = append(got, -1)
			} else {
				got = append(got, wd.pool.Identify(i, &lg))
			}
		}
		amu.Lock()
		emit(map[string]any{"ev": "reopen", "res": "ok", "first": f, "last": l, "cids": got, "absfirst": abs.first, "abscids": append([]int{}, abs.cids...)})
		amu.Unlock()
		wd.w.Close()
		waitNoRotator()
		return
	} else {
		// C13 (with readers): once every call has returned and every reader has released its state, the
		// files of the segments removed by truncations must be gone: the directory is exactly what the
		// metadata lists.
		if wd.fs != nil {
			_ = wd.w.DeleteRange(1<<61, 1<<61) // wait for a pending rotation
			st, _ := wd.meta.Current()
			listed := map[string]bool{}
			for _, sg := range st.Segments {
				listed[segment.FileName(sg)] = true
			}
			extra := []string{}
			for _, n := range wd.fs.Names() {
				if !listed[n] {
					extra = append(extra, n)
				}
			}
			emit(map[string]any{"ev": "dircheck", "extra": extra, "n": len(extra)})
		}
		wd.w.Close()
	}
	waitNoRotator()
}

// waitNoRotator waits until no rotation goroutine of a finished scenario is left: it would be
// mistaken for the next scenario's rotator by the schedule controller.
func waitNoRotator() {
	buf := make([]byte, 1<<16)
	for i := 0; i < 400; i++ {
		n := runtime.Stack(buf, true)
		if !strings.Contains(string(buf[:n]), "runRotate") {
			return
		}
		time.Sleep(500 * time.Microsecond)
	}
}

func parked(dump string) []string {
	out := []string{}
	for _, g := range strings.Split(dump, "\n\n") {
		if strings.Contains(g, "raft-wal.(*WAL)") || strings.Contains(g, "raft-wal/segment") {
			ls := strings.Split(g, "\n")
			if len(ls) > 8 {
				ls = ls[:8]
			}
			out = append(out, strings.Join(ls, " | "))
		}
	}
	return out
}

func emsg(err error) string {
	if err == nil {
		return ""
	}
	return err.Error()
}

func procOf(v any) string {
	switch x := v.(type) {
	case float64:
		switch int(x) {
		case 10:
			return "w"
		case 20:
			return "rot"
		case 30:
			return "closer"
		case 40:
			return "stable"
		default:
			return fmt.Sprintf("r%d", int(x))
		}
	}
	return fmt.Sprint(v)
}

func main() {
	in := flag.String("scen", "", "ndjson scenarios")
	o := flag.String("out", "", "trace output")
	flag.Parse()
	f, err := os.Open(*in)
	if err != nil {
		fmt.Fprintln(os.Stderr, err)
		os.Exit(2)
	}
	of, err := os.Create(*o)
	if err != nil {
		fmt.Fprintln(os.Stderr, err)
		os.Exit(2)
	}
	out = bufio.NewWriterSize(of, 1<<20)
	sc := bufio.NewScanner(f)
	sc.Buffer(make([]byte, 1<<20), 1<<26)
	n := 0
	for sc.Scan() {
		if len(strings.TrimSpace(sc.Text())) == 0 {
			continue
		}
		var s Scenario
		if err := json.Unmarshal(sc.Bytes(), &s); err != nil {
			fmt.Fprintln(os.Stderr, "bad scenario:", err)
			os.Exit(2)
		}
		runScenario(&s)
		n++
	}
	out.Flush()
	of.Close()
	fmt.Printf("{\"scenarios\":%d}\n", n)
}
