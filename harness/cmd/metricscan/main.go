// metricscan: static half of property C20. Parses the emitting packages and checks that every
// string literal passed to IncrementCounter / SetGauge is declared in that package's
// MetricDefinitions (Counters for IncrementCounter, Gauges for SetGauge).
package main

import (
	"encoding/json"
	"fmt"
	"go/ast"
	"go/parser"
	"go/token"
	"os"
	"path/filepath"
	"strconv"
	"strings"
)

func scanPkg(dir string) (sites []string, undeclared []string) {
	fset := token.NewFileSet()
	pkgs, err := parser.ParseDir(fset, dir, func(fi os.FileInfo) bool { return !strings.HasSuffix(fi.Name(), "_test.go") }, 0)
	if err != nil {
		fmt.Fprintln(os.Stderr, err)
		os.Exit(2)
	}
	counters, gauges := map[string]bool{}, map[string]bool{}
	type site struct{ fn, name, pos string }
	var found []site
	for _, p := range pkgs {
		for _, f := range p.Files {
			ast.Inspect(f, func(n ast.Node) bool {
				switch x := n.(type) {
				case *ast.ValueSpec:
					for i, nm := range x.Names {
						if nm.Name == "MetricDefinitions" && i < len(x.Values) {
							collectDefs(x.Values[i], counters, gauges)
						}
					}
				case *ast.CallExpr:
					sel, ok := x.Fun.(*ast.SelectorExpr)
					if !ok || (sel.Sel.Name != "IncrementCounter" && sel.Sel.Name != "SetGauge") || len(x.Args) < 1 {
						return true
					}
					pos := fset.Position(x.Pos())
					where := fmt.Sprintf("%s:%d", filepath.Base(pos.Filename), pos.Line)
					if lit, ok := x.Args[0].(*ast.BasicLit); ok && lit.Kind == token.STRING {
						s, _ := strconv.Unquote(lit.Value)
						found = append(found, site{sel.Sel.Name, s, where})
					} else {
						found = append(found, site{sel.Sel.Name, "<non-literal>", where})
					}
				}
				return true
			})
		}
	}
	for _, s := range found {
		sites = append(sites, s.pos+" "+s.fn+"("+s.name+")")
		ok := (s.fn == "IncrementCounter" && counters[s.name]) || (s.fn == "SetGauge" && gauges[s.name])
		if !ok {
			undeclared = append(undeclared, s.pos+" "+s.fn+"("+s.name+") not in MetricDefinitions")
		}
	}
	return
}

func collectDefs(e ast.Expr, counters, gauges map[string]bool) {
	cl, ok := e.(*ast.CompositeLit)
	if !ok {
		return
	}
	for _, el := range cl.Elts {
		kv, ok := el.(*ast.KeyValueExpr)
		if !ok {
			continue
		}
		key, _ := kv.Key.(*ast.Ident)
		list, ok := kv.Value.(*ast.CompositeLit)
		if key == nil || !ok {
			continue
		}
		for _, d := range list.Elts {
			dl, ok := d.(*ast.CompositeLit)
			if !ok {
				continue
			}
			for _, f := range dl.Elts {
				fkv, ok := f.(*ast.KeyValueExpr)
				if !ok {
					continue
				}
				if id, _ := fkv.Key.(*ast.Ident); id != nil && id.Name == "Name" {
					if lit, ok := fkv.Value.(*ast.BasicLit); ok {
						s, _ := strconv.Unquote(lit.Value)
						if key.Name == "Counters" {
							counters[s] = true
						} else if key.Name == "Gauges" {
							gauges[s] = true
						}
					}
				}
			}
		}
	}
}

func main() {
	repo := os.Args[1]
	var sites, undeclared []string
	for _, d := range []string{repo, filepath.Join(repo, "verifier")} {
		s, u := scanPkg(d)
		sites = append(sites, s...)
		undeclared = append(undeclared, u...)
	}
	if undeclared == nil {
		undeclared = []string{}
	}
	b, _ := json.Marshal(map[string]any{"sites": sites, "undeclared": undeclared})
	fmt.Println(string(b))
	if len(undeclared) > 0 {
		os.Exit(1)
	}
}
