// codeccheck: property C12. Concretises the class tuples enumerated by TLC (spec/Plans.tla) into
// raft.Log values and checks (a) Decode(Encode(l)) == l, (b) StoreLogs/GetLog through the real WAL
// returns equal logs, also after reopen, (c) logs returned by GetLog stay unchanged while later
// reads reuse the pooled buffers, (d) codec ID handling across reopen.
package main

import (
	"bufio"
	"bytes"
	"encoding/json"
	"flag"
	"fmt"
	"io"
	"math"
	"os"
	"strings"
	"time"

	"github.com/hashicorp/go-hclog"
	"github.com/hashicorp/raft"
	wal "github.com/hashicorp/raft-wal"
)

type Case struct {
	Idx  int `json:"idx"`
	Term int `json:"term"`
	Typ  int `json:"typ"`
	Data int `json:"data"`
	Ext  int `json:"ext"`
	Time int `json:"time"`
}

// value classes -----------------------------------------------------------
func u64Class(c int) uint64 {
	// 0: 0 ; 1: 1 ; 2..19: 2^(7k)-1 and 2^(7k) for k=1..9 ; 20: MaxUint64 ; 21: MaxUint64-1
	switch {
	case c == 0:
		return 0
	case c == 1:
		return 1
	case c >= 2 && c <= 19:
		k := uint((c-2)/2 + 1)
		if (c-2)%2 == 0 {
			return 1<<(7*k) - 1
		}
		return 1 << (7 * k)
	case c == 20:
		return math.MaxUint64
	default:
		return math.MaxUint64 - 1
	}
}

func bytesClass(c int, salt byte) []byte {
	mk := func(n int) []byte {
		b := make([]byte, n)
		for i := range b {
			b[i] = byte(i*31) + salt
		}
		return b
	}
	switch c {
	case 0:
		return nil
	case 1:
		return []byte{}
	case 2:
		return []byte{salt}
	case 3:
		return mk(127)
	case 4:
		return mk(128)
	case 5:
		return mk(64*1024 - 16)
	case 6:
		return mk(64 * 1024)
	case 7:
		return mk(64*1024 + 16)
	case 8:
		return mk(64*1024 - 40) // encoded entry lands within a few bytes of the 64 KiB read buffer
	default:
		return mk(300)
	}
}

func timeClass(c int) time.Time {
	switch c {
	case 0:
		return time.Time{}
	case 1:
		return time.Date(2024, 2, 29, 23, 59, 59, 999999999, time.UTC)
	case 2:
		return time.Date(1999, 12, 31, 1, 2, 3, 4, time.FixedZone("x", -(3*3600+30*60)))
	case 3:
		return time.Now() // carries a monotonic clock reading
	case 4:
		return time.Date(2038, 1, 19, 3, 14, 8, 0, time.FixedZone("y", 14*3600))
	case 6:
		return time.Date(1936, 5, 1, 12, 0, 0, 5, time.FixedZone("AMT", 19*60+32)) // offset with a seconds part: 16-byte binary form
	case 7:
		return time.Date(1971, 1, 6, 7, 8, 9, 10, time.FixedZone("MMT", -(44*60+30))) // negative, seconds part
	default:
		return time.Unix(0, 0).UTC()
	}
}

func build(c Case) *raft.Log {
	return &raft.Log{Index: u64Class(c.Idx), Term: u64Class(c.Term), Type: raft.LogType(c.Typ), Data: bytesClass(c.Data, 1),
		Extensions: bytesClass(c.Ext, 2), AppendedAt: timeClass(c.Time)}
}

func equalLog(a, b *raft.Log) string {
	switch {
	case a.Index != b.Index:
		return fmt.Sprintf("Index %d != %d", a.Index, b.Index)
	case a.Term != b.Term:
		return fmt.Sprintf("Term %d != %d", a.Term, b.Term)
	case a.Type != b.Type:
		return "Type differs"
	case !bytes.Equal(a.Data, b.Data):
		return fmt.Sprintf("Data differs (len %d vs %d)", len(a.Data), len(b.Data))
	case !bytes.Equal(a.Extensions, b.Extensions):
		return "Extensions differ"
	case !a.AppendedAt.Equal(b.AppendedAt):
		return "AppendedAt instant differs"
	}
	// The zone: the documented codec stores time.Time.MarshalBinary; what that form cannot carry is not the WAL's to
	// keep (Go's binary form does not round-trip a negative offset with a seconds part, and applying it twice moves the
	// offset again). `a` may be an original or an already decoded log, so both its own offset and the offset the
	// standard library's form makes of it are acceptable.
	_, ao := a.AppendedAt.Zone()
	ro := ao
	if enc, err := a.AppendedAt.MarshalBinary(); err == nil {
		var rt time.Time
		if rt.UnmarshalBinary(enc) == nil {
			_, ro = rt.Zone()
		}
	}
	_, bo := b.AppendedAt.Zone()
	if bo != ao && bo != ro {
		return "AppendedAt zone offset differs"
	}
	return ""
}

func clone(l *raft.Log) *raft.Log {
	c := *l
	c.Data = append([]byte(nil), l.Data...)
	c.Extensions = append([]byte(nil), l.Extensions...)
	return &c
}

var out *bufio.Writer

func emit(kind, id string, ok bool, detail string) {
	b, _ := json.Marshal(map[string]any{"kind": kind, "case": id, "ok": ok, "detail": detail})
	out.Write(b)
	out.WriteByte('\n')
}

func guard(kind, id string) {
	if p := recover(); p != nil {
		emit(kind, id, false, fmt.Sprintf("panic: %v", p))
	}
}

type custom struct{ id uint64 }

func (c custom) ID() uint64 { return c.id }
func (c custom) Encode(l *raft.Log, w io.Writer) error {
	return (&wal.BinaryCodec{}).Encode(l, w)
}
func (c custom) Decode(b []byte, l *raft.Log) error { return (&wal.BinaryCodec{}).Decode(b, l) }

func main() {
	in := flag.String("cases", "", "ndjson class tuples")
	o := flag.String("out", "", "ndjson results")
	walEvery := flag.Int("wal-every", 7, "send every n-th case also through the WAL")
	flag.Parse()
	f, err := os.Open(*in)
	if err != nil {
		fmt.Fprintln(os.Stderr, err)
		os.Exit(2)
	}
	of, _ := os.Create(*o)
	out = bufio.NewWriterSize(of, 1<<20)
	defer func() { out.Flush(); of.Close() }()
	var cases []Case
	sc := bufio.NewScanner(f)
	for sc.Scan() {
		if strings.TrimSpace(sc.Text()) == "" {
			continue
		}
		var c Case
		if err := json.Unmarshal(sc.Bytes(), &c); err != nil {
			fmt.Fprintln(os.Stderr, err)
			os.Exit(2)
		}
		cases = append(cases, c)
	}
	codec := &wal.BinaryCodec{}
	// (a) codec round trip
	for _, c := range cases {
		id := fmt.Sprintf("%+v", c)
		func() {
			defer guard("roundtrip", id)
			l := build(c)
			var buf bytes.Buffer
			if err := codec.Encode(l, &buf); err != nil {
				emit("roundtrip", id, false, "Encode: "+err.Error())
				return
			}
			enc := append([]byte(nil), buf.Bytes()...)
			var got raft.Log
			if err := codec.Decode(buf.Bytes(), &got); err != nil {
				emit("roundtrip", id, false, "Decode: "+err.Error())
				return
			}
			if d := equalLog(l, &got); d != "" {
				emit("roundtrip", id, false, d)
				return
			}
			// the decoded log must not alias the input buffer
			snap := clone(&got)
			for i := range buf.Bytes() {
				buf.Bytes()[i] ^= 0xff
			}
			if d := equalLog(snap, &got); d != "" {
				emit("roundtrip", id, false, "decoded log aliases the input buffer: "+d)
				return
			}
			// decoding into a log that already holds something else overwrites every field
			dirty := raft.Log{Index: 99, Term: 98, Type: raft.LogType(3), Data: []byte("stale-data"), Extensions: []byte("stale-ext"),
				AppendedAt: time.Unix(12345, 6789)}
			if err := codec.Decode(enc, &dirty); err != nil {
				emit("roundtrip", id, false, "Decode into a used log: "+err.Error())
				return
			}
			if d := equalLog(l, &dirty); d != "" {
				emit("roundtrip", id, false, "decoding into a log that held other values: "+d)
				return
			}
			emit("roundtrip", id, true, "")
		}()
	}
	// (b') batch shapes: every (Data class, Extensions class) pair at every position of a three-entry StoreLogs call, between
	// small neighbours and between neighbours that carry extensions themselves; read back at once and after a restart
	func() {
		id := "wal-batchpos"
		defer guard("wal", id)
		dir, _ := os.MkdirTemp("", "verif-codec-")
		defer os.RemoveAll(dir)
		lg := hclog.NewNullLogger()
		w, err := wal.Open(dir, wal.WithSegmentSize(4*1024*1024), wal.WithLogger(lg))
		if err != nil {
			emit("wal", id, false, "Open: "+err.Error())
			return
		}
		defer func() { w.Close() }()
		var all []*raft.Log
		idx := uint64(1)
		for dc := 0; dc <= 9; dc++ {
			for ec := 0; ec <= 9; ec++ {
				for pos := 0; pos < 3; pos++ {
					nbExt := 0
					if (dc+ec+pos)%2 == 1 {
						nbExt = 3
					}
					batch := make([]*raft.Log, 3)
					for j := range batch {
						c := Case{Idx: 0, Term: 1, Typ: 0, Data: 2, Ext: nbExt, Time: 1}
						if j == pos {
							c = Case{Idx: 0, Term: 2, Typ: 1, Data: dc, Ext: ec, Time: 2}
						}
						batch[j] = build(c)
						batch[j].Index = idx
						idx++
					}
					if err := w.StoreLogs(batch); err != nil {
						emit("wal", id, false, fmt.Sprintf("StoreLogs of a batch (data class %d, ext class %d at position %d): %v", dc, ec, pos, err))
						return
					}
					all = append(all, batch...)
					for _, l := range batch {
						got := new(raft.Log)
						if err := w.GetLog(l.Index, got); err != nil {
							emit("wal", id, false, fmt.Sprintf("batch (data class %d, ext class %d at position %d): GetLog(%d): %v", dc, ec, pos, l.Index, err))
							return
						}
						if d := equalLog(l, got); d != "" {
							emit("wal", id, false, fmt.Sprintf("batch (data class %d, ext class %d at position %d): entry %d: %s", dc, ec, pos, l.Index, d))
							return
						}
					}
				}
			}
		}
		if err := w.Close(); err != nil {
			emit("wal", id, false, "Close: "+err.Error())
			return
		}
		if w, err = wal.Open(dir, wal.WithSegmentSize(4*1024*1024), wal.WithLogger(lg)); err != nil {
			emit("wal", id, false, "reopen: "+err.Error())
			return
		}
		for _, l := range all {
			got := new(raft.Log)
			if err := w.GetLog(l.Index, got); err != nil {
				emit("wal", id, false, fmt.Sprintf("after reopen: GetLog(%d): %v", l.Index, err))
				return
			}
			if d := equalLog(l, got); d != "" {
				emit("wal", id, false, fmt.Sprintf("after reopen: entry %d: %s", l.Index, d))
				return
			}
		}
		emit("wal", id, true, "")
	}()
	// (b)+(c) through the WAL: consecutive indexes starting just below varint boundaries
	lg := hclog.NewNullLogger()
	for _, start := range []uint64{1, 1<<7 - 2, 1<<14 - 2, 1<<35 - 3, 1<<56 - 2, math.MaxUint64 - 40} {
		id := fmt.Sprintf("wal-start-%d", start)
		func() {
			defer guard("wal", id)
			dir, _ := os.MkdirTemp("", "verif-codec-")
			defer os.RemoveAll(dir)
			w, err := wal.Open(dir, wal.WithSegmentSize(256*1024), wal.WithLogger(lg))
			if err != nil {
				emit("wal", id, false, "Open: "+err.Error())
				return
			}
			var want []*raft.Log
			idx := start
			for k, c := range cases {
				if k%*walEvery != 0 || len(want) >= 36 {
					continue
				}
				l := build(c)
				l.Index = idx
				idx++
				want = append(want, l)
			}
			// batches of 1..3
			for i := 0; i < len(want); {
				n := 1 + i%3
				if i+n > len(want) {
					n = len(want) - i
				}
				if err := w.StoreLogs(want[i : i+n]); err != nil {
					emit("wal", id, false, fmt.Sprintf("StoreLogs at %d: %v", want[i].Index, err))
					w.Close()
					return
				}
				i += n
			}
			check := func(tag string) bool {
				var held []*raft.Log
				var snaps []*raft.Log
				for _, l := range want {
					got := new(raft.Log)
					if err := w.GetLog(l.Index, got); err != nil {
						emit("wal", id, false, fmt.Sprintf("%s: GetLog(%d): %v", tag, l.Index, err))
						return false
					}
					if d := equalLog(l, got); d != "" {
						emit("wal", id, false, fmt.Sprintf("%s: entry %d: %s", tag, l.Index, d))
						return false
					}
					held = append(held, got)
					snaps = append(snaps, clone(got))
					// every earlier result must still be what it was (pooled buffer reuse)
					for j := range held {
						if d := equalLog(snaps[j], held[j]); d != "" {
							emit("alias", id, false, fmt.Sprintf("%s: log %d returned earlier changed after reading %d: %s", tag, held[j].Index, l.Index, d))
							return false
						}
					}
				}
				return true
			}
			if !check("live") {
				w.Close()
				return
			}
			// one raft.Log value reused for every read (what a caller iterating over the log does)
			var reuse raft.Log
			for _, l := range want {
				if err := w.GetLog(l.Index, &reuse); err != nil {
					emit("wal", id, false, fmt.Sprintf("reused log: GetLog(%d): %v", l.Index, err))
					w.Close()
					return
				}
				if d := equalLog(l, &reuse); d != "" {
					emit("wal", id, false, fmt.Sprintf("GetLog(%d) into a log value that held the previous entry: %s", l.Index, d))
					w.Close()
					return
				}
			}
			w.Close()
			w, err = wal.Open(dir, wal.WithSegmentSize(256*1024), wal.WithLogger(lg))
			if err != nil {
				emit("wal", id, false, "reopen: "+err.Error())
				return
			}
			ok := check("reopened")
			w.Close()
			if ok {
				emit("wal", id, true, fmt.Sprintf("%d entries", len(want)))
				emit("alias", id, true, "")
			}
		}()
	}
	// (d) codec IDs: the first external ID itself, one in the middle, the largest
	for _, cid := range []uint64{wal.FirstExternalCodecID, wal.FirstExternalCodecID + 1234, math.MaxUint64} {
		cid := cid
		func() {
			defer guard("codecid", "custom-reopen")
			dir, _ := os.MkdirTemp("", "verif-codec-")
			defer os.RemoveAll(dir)
			cc := custom{id: cid}
			w, err := wal.Open(dir, wal.WithCodec(cc), wal.WithSegmentSize(4096), wal.WithLogger(lg))
			if err != nil {
				emit("codecid", "custom-open", false, err.Error())
				return
			}
			l := build(Case{Idx: 1, Term: 3, Typ: 1, Data: 3, Ext: 2, Time: 1})
			l.Index = 1
			if err := w.StoreLogs([]*raft.Log{l}); err != nil {
				emit("codecid", "custom-store", false, err.Error())
				return
			}
			w.Close()
			w, err = wal.Open(dir, wal.WithCodec(cc), wal.WithSegmentSize(4096), wal.WithLogger(lg))
			if err != nil {
				emit("codecid", "custom-reopen", false, "a WAL created with a custom codec does not reopen with it: "+err.Error())
			} else {
				var got raft.Log
				if err := w.GetLog(1, &got); err != nil {
					emit("codecid", "custom-reopen", false, "GetLog after reopen: "+err.Error())
				} else if d := equalLog(l, &got); d != "" {
					emit("codecid", "custom-reopen", false, d)
				} else {
					emit("codecid", "custom-reopen", true, "")
				}
				w.Close()
			}
			// a different codec ID must be refused
			w, err = wal.Open(dir, wal.WithCodec(custom{id: cid ^ 0x40}), wal.WithSegmentSize(4096), wal.WithLogger(lg))
			if err == nil {
				emit("codecid", "other-codec-refused", false, "a directory written with codec A opened with codec B")
				w.Close()
			} else {
				emit("codecid", "other-codec-refused", true, "")
			}
			w, err = wal.Open(dir, wal.WithSegmentSize(4096), wal.WithLogger(lg))
			if err == nil {
				emit("codecid", "default-codec-refused", false, "a directory written with a custom codec opened with the default codec")
				w.Close()
			} else {
				emit("codecid", "default-codec-refused", true, "")
			}
		}()
	}
	for _, rid := range []uint64{0, 1, wal.FirstExternalCodecID - 1} {
		func() {
			id := fmt.Sprintf("reserved-%d", rid)
			defer guard("codecid", id)
			dir, _ := os.MkdirTemp("", "verif-codec-")
			defer os.RemoveAll(dir)
			w, err := wal.Open(dir, wal.WithCodec(custom{id: rid}), wal.WithLogger(lg))
			if err == nil {
				emit("codecid", id, false, "reserved codec ID accepted")
				w.Close()
			} else {
				emit("codecid", id, true, "")
			}
		}()
	}
}
