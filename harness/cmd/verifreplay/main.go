// verifreplay executes verifier scenarios (TLC behaviours of spec/Verifier.tla) against
// real verifier.LogStore instances and records the trace judged by spec/VerifierTrace.tla.
//
//	verifreplay -scen scenarios.ndjson -trace trace.ndjson
//
// Exit codes: 0 all scenarios executed, 2 usage / I/O problem, 3 harness-level failure
// (a watchdog expired or the driver lost track of the verifier goroutine): inconclusive.
package main

import (
	"bufio"
	"encoding/json"
	"flag"
	"fmt"
	"os"
	"time"

	"verif/harness/vdrive"
)

func main() {
	scen := flag.String("scen", "", "ndjson file of scenarios")
	trace := flag.String("trace", "", "trace output (ndjson)")
	flag.Parse()
	scs, err := vdrive.LoadScenarios(*scen)
	if err != nil {
		fmt.Fprintln(os.Stderr, "verifreplay:", err)
		os.Exit(2)
	}
	f, err := os.Create(*trace)
	if err != nil {
		fmt.Fprintln(os.Stderr, "verifreplay:", err)
		os.Exit(2)
	}
	out := &vdrive.Out{W: bufio.NewWriterSize(f, 1<<20)}
	done := make(chan struct{})
	go func() {
		select {
		case <-done:
		case <-time.After(25 * time.Minute):
			fmt.Fprintln(os.Stderr, "verifreplay: watchdog expired")
			os.Exit(3)
		}
	}()
	st := time.Now()
	var failures []string
	for _, sc := range scs {
		if err := vdrive.RunScenario(sc, out); err != nil {
			failures = append(failures, err.Error())
			if len(failures) > 20 {
				break
			}
		}
	}
	close(done)
	out.W.Flush()
	f.Close()
	stats := map[string]any{"scenarios": out.Scenarios, "events": out.Events, "reports": out.Reports, "skips": out.Skips,
		"hangs": out.Hangs, "failures": failures, "errors": out.Errors, "wall_s": time.Since(st).Seconds()}
	b, _ := json.Marshal(stats)
	fmt.Println(string(b))
	if len(failures) > 0 || len(out.Errors) > 0 {
		os.Exit(3)
	}
}
