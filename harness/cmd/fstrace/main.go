// fstrace runs workloads through the production raft-wal stack (wal.Open with
// the default fs.FS and metadb.BoltMetaDB) in real directories. It is meant to
// be run under
//
//	strace -f -y -s 512 -e trace=openat,fallocate,pwrite64,write,fsync,...
//
// and marks API boundaries with recognisable no-op system calls
// (faccessat of paths below /VERIF, which does not exist):
//
//	/VERIF/reset/<k>/<segSize>           a new workload starts in <dir>/w<k>
//	/VERIF/inv/<op>/<n>                  API call n is about to be invoked
//	/VERIF/ack/<op>/<n>/<ok|err>         API call n has returned
//	/VERIF/obs/<file>/<size>/<nz>        a segment file seen for the first time:
//	                                     its size and the end offset of its last
//	                                     non-zero byte (0 = the file is all zero)
//	/VERIF/end/<k>                       the workload is over
//
// Nothing in /repo is hooked: what reaches the kernel is the evidence
// (DESIGN.md 4.4). op "harness" brackets file operations of the driver itself
// (planting an orphan segment file), op "barrier" is a no-op DeleteRange that
// waits for a pending background rotation.
//
//	fstrace -scen scen.ndjson -dir <scratch dir> [-summary out.json]
package main

import (
	"bufio"
	"encoding/json"
	"flag"
	"fmt"
	"os"
	"path/filepath"
	"runtime"
	"sort"
	"strings"
	"syscall"
	"time"

	"github.com/hashicorp/go-hclog"
	"github.com/hashicorp/raft"
	wal "github.com/hashicorp/raft-wal"
	walfs "github.com/hashicorp/raft-wal/fs"
	"github.com/hashicorp/raft-wal/segment"
	"github.com/hashicorp/raft-wal/types"

	"verif/harness/valpool"

	"go.etcd.io/bbolt"
)

type step struct {
	Op     string `json:"op"` // store delete reopen set
	First  uint64 `json:"first,omitempty"`
	Cids   []int  `json:"cids,omitempty"`
	Sz     []int  `json:"sz,omitempty"`
	Min    uint64 `json:"min,omitempty"`
	Max    uint64 `json:"max,omitempty"`
	Orphan bool   `json:"orphan,omitempty"` // reopen: plant an unlisted segment file while closed
	Key    int    `json:"key,omitempty"`
	Val    int    `json:"val,omitempty"`
}

type scenario struct {
	ID      string `json:"id"`
	SegSize int    `json:"segSize"`
	Codec   string `json:"codec"` // ident | bin
	Steps   []step `json:"steps"`
	LeftTmp string `json:"leftTmp,omitempty"` // plant a leftover wal-meta.db.tmp before the first Open: valid | garbage
}

// killedVFS is the production fs.FS as a process sees it that is killed between the pwrite of a commit and its fsync: every
// call reaches the kernel except Sync, which fails without doing anything (the call "never happened"). What such a process
// wrote sits in the page cache - visible to the next process, durable for nobody.
type killedVFS struct{ types.VFS }

type killedFile struct{ types.WritableFile }

var errKilled = fmt.Errorf("fstrace: the process is killed before this fsync")

func (f killedFile) Sync() error { return errKilled }

func (v killedVFS) Create(dir, name string, size uint64) (types.WritableFile, error) {
	f, err := v.VFS.Create(dir, name, size)
	if err != nil {
		return nil, err
	}
	return killedFile{f}, nil
}

func (v killedVFS) OpenWriter(dir, name string) (types.WritableFile, error) {
	f, err := v.VFS.OpenWriter(dir, name)
	if err != nil {
		return nil, err
	}
	return killedFile{f}, nil
}

type runner struct {
	killed bool // the next Open runs on killedVFS
	dir    string
	sc     scenario
	w      *wal.WAL
	pool   *valpool.Pool
	seen   map[string]bool
	calls  map[string]int
	errs   map[string]int
	notes  []string
}

var ncall int

const atFdcwd = -100

func marker(format string, a ...any) {
	p := "/VERIF/" + fmt.Sprintf(format, a...)
	// F_OK on a path that does not exist: no side effect, visible to strace.
	_ = syscall.Faccessat(atFdcwd, p, 0, 0)
}

func res(err error) string {
	if err == nil {
		return "ok"
	}
	return "err"
}

// call brackets one API call with markers.
func (r *runner) call(op string, f func() error) error {
	ncall++
	n := ncall
	marker("inv/%s/%d", op, n)
	returned := false
	defer func() {
		if !returned { // f panicked: close the window, let run() recover
			marker("ack/%s/%d/panic", op, n)
		}
	}()
	err := f()
	returned = true
	marker("ack/%s/%d/%s", op, n, res(err))
	r.calls[op]++
	if err != nil {
		r.errs[op]++
		if len(r.notes) < 20 {
			r.notes = append(r.notes, fmt.Sprintf("%s #%d: %v", op, n, err))
		}
	}
	return err
}

func (r *runner) open() error {
	return r.call("open", func() error {
		var w *wal.WAL
		var err error
		lg := hclog.NewNullLogger()
		// default segment filer (fs.New()) and default meta store (BoltMetaDB)
		if r.killed {
			sf := segment.NewFiler(r.dir, killedVFS{walfs.New()})
			if r.sc.Codec == "bin" {
				w, err = wal.Open(r.dir, wal.WithSegmentSize(r.sc.SegSize), wal.WithLogger(lg), wal.WithSegmentFiler(sf))
			} else {
				w, err = wal.Open(r.dir, wal.WithSegmentSize(r.sc.SegSize), wal.WithLogger(lg), wal.WithSegmentFiler(sf),
					wal.WithCodec(valpool.IdentCodec{}))
			}
		} else if r.sc.Codec == "bin" {
			w, err = wal.Open(r.dir, wal.WithSegmentSize(r.sc.SegSize), wal.WithLogger(lg))
		} else {
			w, err = wal.Open(r.dir, wal.WithSegmentSize(r.sc.SegSize), wal.WithLogger(lg),
				wal.WithCodec(valpool.IdentCodec{}))
		}
		if err == nil {
			r.w = w
		}
		return err
	})
}

// barrier: a no-op DeleteRange beyond the log waits for a pending rotation.
func (r *runner) barrier() {
	if r.w == nil {
		return
	}
	_ = r.call("barrier", func() error { return r.w.DeleteRange(1<<62, 1<<62) })
}

// observe reports every segment file not seen before: size and all-zero-ness
// (nz = end offset of the last non-zero byte).
func (r *runner) observe() {
	ents, err := os.ReadDir(r.dir)
	if err != nil {
		return
	}
	names := []string{}
	for _, e := range ents {
		if strings.HasSuffix(e.Name(), ".wal") && !r.seen[e.Name()] {
			names = append(names, e.Name())
		}
	}
	sort.Strings(names)
	for _, n := range names {
		r.seen[n] = true
		b, err := os.ReadFile(filepath.Join(r.dir, n))
		if err != nil {
			continue
		}
		nz := 0
		for i := len(b) - 1; i >= 0; i-- {
			if b[i] != 0 {
				nz = i + 1
				break
			}
		}
		marker("obs/%s/%d/%d", n, len(b), nz)
	}
}

func (r *runner) closeWAL() {
	if r.w == nil {
		return
	}
	w := r.w
	r.w = nil
	_ = r.call("close", func() error { return w.Close() })
}

// plantOrphan creates a well-named segment file that the metadata does not list.
func (r *runner) plantOrphan() {
	_ = r.call("harness", func() error {
		name := fmt.Sprintf("%020d-%016x.wal", 77, 0xfff0+ncall)
		r.seen[name] = true
		return os.WriteFile(filepath.Join(r.dir, name), make([]byte, r.sc.SegSize), 0644)
	})
}

// plantTmp leaves a wal-meta.db.tmp behind, as an initialisation that was killed before its rename would:
// "valid" = a complete bolt database holding the two empty buckets, "garbage" = arbitrary bytes.
func (r *runner) plantTmp(kind string) {
	_ = r.call("harness", func() error {
		name := filepath.Join(r.dir, "wal-meta.db.tmp")
		if kind != "valid" {
			return os.WriteFile(name, []byte("not a database, just what a killed process left behind"), 0644)
		}
		bb, err := bbolt.Open(name, 0644, nil)
		if err != nil {
			return err
		}
		err = bb.Update(func(tx *bbolt.Tx) error {
			for _, b := range []string{"wal-meta", "stable"} {
				if _, err := tx.CreateBucket([]byte(b)); err != nil {
					return err
				}
			}
			return nil
		})
		if cerr := bb.Close(); err == nil {
			err = cerr
		}
		return err
	})
}

func (r *runner) run() {
	defer func() {
		if p := recover(); p != nil {
			r.notes = append(r.notes, fmt.Sprint("panic: ", p))
		}
	}()
	if r.sc.LeftTmp != "" {
		r.plantTmp(r.sc.LeftTmp)
	}
	if r.open() != nil {
		return
	}
	r.observe()
	for _, s := range r.sc.Steps {
		switch s.Op {
		case "store":
			logs := make([]*raft.Log, len(s.Cids))
			for j, c := range s.Cids {
				sz := 1
				if j < len(s.Sz) {
					sz = s.Sz[j]
				}
				logs[j] = r.pool.Log(valpool.Ent{Idx: s.First + uint64(j), Cid: c, Sz: sz})
			}
			_ = r.call("store", func() error { return r.w.StoreLogs(logs) })
			r.barrier()
		case "delete":
			_ = r.call("delete", func() error { return r.w.DeleteRange(s.Min, s.Max) })
			r.barrier()
		case "set":
			_ = r.call("set", func() error { return r.w.Set([]byte{byte('k'), byte(s.Key)}, []byte{byte(s.Val)}) })
		case "killstore":
			// the process that makes this append is killed between the pwrite and the fsync: restart on a stack whose
			// fsync never happens, append (fails, is not acknowledged), abandon it, restart on the production stack
			r.closeWAL()
			r.killed = true
			err := r.open()
			r.killed = false
			if err != nil {
				return
			}
			logs := make([]*raft.Log, len(s.Cids))
			for j, c := range s.Cids {
				logs[j] = r.pool.Log(valpool.Ent{Idx: s.First + uint64(j), Cid: c, Sz: 1})
			}
			_ = r.call("store", func() error { return r.w.StoreLogs(logs) })
			r.closeWAL()
			if r.open() != nil {
				return
			}
		case "reopen":
			r.closeWAL()
			if s.Orphan {
				r.plantOrphan()
			}
			if r.open() != nil {
				return
			}
		default:
			continue
		}
		r.observe()
	}
	r.closeWAL()
}

// runConc: the production fs.FS used by two goroutines at once, as the WAL does (the writer commits into a fresh tail -
// its first Sync also fsyncs the directory - while a reader that drops the last reference of an old state deletes
// segment files). Every call is bracketed by its own markers (cinv / cack); spec/FsConcTrace.tla judges the syscalls.
func runConc(dir string, iters int) {
	vfs := walfs.New()
	d := filepath.Join(dir, "w0")
	if err := os.MkdirAll(d, 0755); err != nil {
		fmt.Fprintln(os.Stderr, err)
		os.Exit(2)
	}
	seg := func(base, id int) string { return fmt.Sprintf("%020d-%016x.wal", base, id) }
	marker("reset/0/4096")
	for j := 0; j < iters; j++ { // files to delete, durable before the race starts
		f, err := vfs.Create(d, seg(1000+j, j), 4096)
		if err != nil {
			fmt.Fprintln(os.Stderr, err)
			os.Exit(2)
		}
		f.WriteAt([]byte{1, 2, 3, 4, 5, 6, 7, 8}, 0)
		f.Sync()
		f.Close()
	}
	done := make(chan struct{}, 2)
	go func() {
		for i := 0; i < iters; i++ {
			name := seg(5000+i, 5000+i)
			marker("cinv/sync/%s", name)
			f, err := vfs.Create(d, name, 4096)
			if err == nil {
				_, err = f.WriteAt([]byte{9, 9, 9, 9, 9, 9, 9, 9}, 0)
				if err == nil {
					err = f.Sync()
				}
			}
			marker("cack/sync/%s/%s", name, res(err))
			if f != nil {
				f.Close()
			}
		}
		done <- struct{}{}
	}()
	go func() {
		for j := 0; j < iters; j++ {
			name := seg(1000+j, j)
			marker("cinv/delete/%s", name)
			err := vfs.Delete(d, name)
			marker("cack/delete/%s/%s", name, res(err))
		}
		done <- struct{}{}
	}()
	<-done
	<-done
	marker("end/0")
	fmt.Printf("{\"ncalls\": %d}\n", 2*iters)
}

func main() {
	lock := flag.Bool("lock", false, "keep the driver on the process's main thread (system-call fault injection by strace counts per thread)")
	conc := flag.Int("conc", 0, "run the concurrent fs.FS workload with this many iterations per goroutine instead of scenarios")
	scenPath := flag.String("scen", "", "ndjson file of scenarios")
	dir := flag.String("dir", "", "scratch directory (one sub directory per scenario)")
	summary := flag.String("summary", "", "summary output (json)")
	flag.Parse()
	if *lock {
		runtime.LockOSThread()
	}
	if *conc > 0 {
		dirFlag := flag.Lookup("dir")
		runConc(dirFlag.Value.String(), *conc)
		return
	}
	f, err := os.Open(*scenPath)
	if err != nil {
		fmt.Fprintln(os.Stderr, "fstrace:", err)
		os.Exit(2)
	}
	var scs []scenario
	dec := json.NewDecoder(bufio.NewReaderSize(f, 1<<20))
	for dec.More() {
		var s scenario
		if err := dec.Decode(&s); err != nil {
			fmt.Fprintln(os.Stderr, "fstrace: bad scenario:", err)
			os.Exit(2)
		}
		scs = append(scs, s)
	}
	f.Close()
	done := make(chan struct{})
	go func() {
		select {
		case <-done:
		case <-time.After(15 * time.Minute):
			fmt.Fprintln(os.Stderr, "fstrace: watchdog expired")
			os.Exit(3)
		}
	}()
	tot := map[string]int{}
	toterr := map[string]int{}
	var notes []string
	for k, sc := range scs {
		r := &runner{dir: filepath.Join(*dir, fmt.Sprintf("w%d", k)), sc: sc, seen: map[string]bool{},
			calls: map[string]int{}, errs: map[string]int{}, pool: valpool.New(int64(k), sc.Codec == "bin")}
		if err := os.Mkdir(r.dir, 0755); err != nil {
			fmt.Fprintln(os.Stderr, "fstrace:", err)
			os.Exit(2)
		}
		marker("reset/%d/%d", k, sc.SegSize)
		r.run()
		marker("end/%d", k)
		for op, n := range r.calls {
			tot[op] += n
		}
		for op, n := range r.errs {
			toterr[op] += n
		}
		for _, n := range r.notes {
			if len(notes) < 50 {
				notes = append(notes, sc.ID+": "+n)
			}
		}
	}
	close(done)
	b, _ := json.Marshal(map[string]any{"scenarios": len(scs), "calls": tot, "errors": toterr, "ncalls": ncall, "notes": notes})
	if *summary != "" {
		os.WriteFile(*summary, b, 0644)
	}
	fmt.Println(string(b))
}
