// walreplay executes scenario jobs against the real raft-wal code.
//
//	walreplay -jobs jobs.ndjson -obs obs.ndjson [-io io.ndjson] [-stats stats.json]
package main

import (
	"bufio"
	"encoding/json"
	"flag"
	"fmt"
	"os"
	"time"

	"verif/harness/drive"
)

func main() {
	jobsPath := flag.String("jobs", "", "ndjson file of jobs")
	obsPath := flag.String("obs", "", "observation trace output")
	ioPath := flag.String("io", "", "I/O trace output (for crash expansion)")
	statsPath := flag.String("stats", "", "statistics output (json)")
	flag.Parse()
	jobs, err := drive.LoadJobs(*jobsPath)
	if err != nil {
		fmt.Fprintln(os.Stderr, "walreplay:", err)
		os.Exit(2)
	}
	of, err := os.Create(*obsPath)
	if err != nil {
		fmt.Fprintln(os.Stderr, "walreplay:", err)
		os.Exit(2)
	}
	out := &drive.Out{Obs: bufio.NewWriterSize(of, 1<<20)}
	var iof *os.File
	if *ioPath != "" {
		iof, err = os.Create(*ioPath)
		if err != nil {
			fmt.Fprintln(os.Stderr, "walreplay:", err)
			os.Exit(2)
		}
		out.IO = bufio.NewWriterSize(iof, 1<<20)
	}
	// watchdog: a sequential scenario that does not finish is inconclusive
	done := make(chan struct{})
	go func() {
		select {
		case <-done:
		case <-time.After(20 * time.Minute):
			fmt.Fprintln(os.Stderr, "walreplay: watchdog expired")
			os.Exit(3)
		}
	}()
	st := time.Now()
	for _, j := range jobs {
		drive.RunJob(j, out)
	}
	close(done)
	out.Obs.Flush()
	of.Close()
	if out.IO != nil {
		out.IO.Flush()
		iof.Close()
	}
	stats := map[string]any{"jobs": len(jobs), "runs": out.Runs, "forks": out.Forks, "events": out.Events,
		"materialise_errors": out.MaterialiseErrors, "soft_skipped": out.SoftSkipped, "panics": out.Panics, "notes": out.Notes, "wall_s": time.Since(st).Seconds()}
	b, _ := json.Marshal(stats)
	if *statsPath != "" {
		os.WriteFile(*statsPath, b, 0644)
	}
	fmt.Println(string(b))
	if out.MaterialiseErrors > 0 {
		os.Exit(2)
	}
}
