// corruptreplay is the C11 harness: structured damage of a real raft-wal directory.
//
//	corruptreplay build -dir D                      build a pristine directory with the REAL wal, print its shape (JSON)
//	corruptreplay run   -pristine D -cases F -out T -detail X -work W [-seed S] [-par P] ...
//	corruptreplay child ...                         (internal) executes a slice of the cases
//
// build runs the real WAL (real fs, real bolt, BinaryCodec, 128-byte segments) until the
// directory holds two sealed segments (s0, s1) and a tail with two commits, and dissects the
// files with harness/readmefmt (README-derived, independent of the segment package) into the
// 8-byte words the TLA+ model spec/Corrupt.tla works with.
//
// run maps every abstract case of spec/Corrupt.tla (a list of mutation ops) to byte edits of
// a private copy of that directory (or of the bolt record), then probes the real code in CHILD
// processes (ulimit -v, debug.SetMemoryLimit, a watchdog per probe): Decode for payload cases,
// segment.Filer DumpLogs/DumpSegment, wal.Open, FirstIndex/LastIndex/GetLog, Close, and, when
// Open failed, a second Open of the restored directory in the same process. One ndjson line per
// case goes to the trace that spec/CorruptTrace.tla validates; bulky details (messages, stacks)
// go to a side file.
package main

import (
	"bufio"
	"bytes"
	"encoding/binary"
	"encoding/json"
	"errors"
	"flag"
	"fmt"
	"math/rand"
	"os"
	"os/exec"
	"path/filepath"
	"regexp"
	"runtime"
	"runtime/debug"
	"runtime/metrics"
	"runtime/pprof"
	"sort"
	"strconv"
	"strings"
	"sync"
	"syscall"
	"time"

	"github.com/hashicorp/go-hclog"
	"github.com/hashicorp/raft"
	wal "github.com/hashicorp/raft-wal"
	"github.com/hashicorp/raft-wal/fs"
	"github.com/hashicorp/raft-wal/segment"
	"github.com/hashicorp/raft-wal/types"
	"go.etcd.io/bbolt"

	"verif/harness/readmefmt"
)

const (
	segSize    = 128
	metaFile   = "wal-meta.db"
	metaBucket = "wal-meta"
	metaKey    = "m"
	slack      = 64 << 20
)

var fileKeys = []string{"s0", "s1", "tail"}

// ---------------------------------------------------------------- shape

type FileShape struct {
	Name       string   `json:"name"`
	Size       int      `json:"size"`
	Cls        []string `json:"cls"`
	Cid        []int    `json:"cid"`
	Base       uint64   `json:"base"`
	Min        uint64   `json:"min"`
	Max        uint64   `json:"max"`
	ID         uint64   `json:"id"`
	IndexStart uint64   `json:"indexStart"`
	NIdx       int      `json:"nidx"`
	Sealed     bool     `json:"sealed"`
	Commits    []int    `json:"commits"` // word positions of commit frames
	IndexFrame int      `json:"indexFrame"`
}

type Shape struct {
	SegSize int                  `json:"segSize"`
	Files   map[string]FileShape `json:"files"`
	First   int                  `json:"first"`
	Last    int                  `json:"last"`
	Payload int                  `json:"payloadLen"`
	Meta    json.RawMessage      `json:"meta"`
}

type Op struct {
	K string `json:"k"`
	F string `json:"f"`
	G string `json:"g"`
	A int    `json:"a"`
	B int    `json:"b"`
	C int    `json:"c"`
	V string `json:"v"`
}

type Case struct {
	ID  int  `json:"id"`
	Ops []Op `json:"ops"`
}

// Result is one line of the trace validated by spec/CorruptTrace.tla: fixed fields, fixed types.
type Result struct {
	ID       int    `json:"id"`
	Ops      []Op   `json:"ops"`
	Decode   string `json:"decode"`
	DumpLogs string `json:"dumplogs"`
	DumpSeg  string `json:"dumpseg"`
	Open     string `json:"open"`
	First    int    `json:"first"`
	Last     int    `json:"last"`
	FirstR   string `json:"firstr"`
	LastR    string `json:"lastr"`
	Get      string `json:"get"`
	NF       []int  `json:"nf"`
	RD       []int  `json:"rd"`
	ER       []int  `json:"er"`
	Close    string `json:"close"`
	LockHeld bool   `json:"lockheld"`
	FdLeft   int    `json:"fdleft"`
	Reopen   string `json:"reopen"`
}

// Detail is the side record (not read by TLC).
type Detail struct {
	ID      int               `json:"id"`
	Msg     map[string]string `json:"msg,omitempty"`   // probe -> error / panic message
	Stack   map[string]string `json:"stack,omitempty"` // probe -> stack (panic) or goroutine dump (hang)
	Site    map[string]string `json:"site,omitempty"`  // probe -> first raft-wal function on the panic stack
	Alloc   map[string]uint64 `json:"alloc,omitempty"` // probe -> largest TotalAlloc delta of one call
	Bound   uint64            `json:"bound"`
	Via     string            `json:"via,omitempty"` // how "blocked" was established: open | lockprobe
	Fds     []string          `json:"fds,omitempty"` // what was left open after the failed Open
	DumpN   int               `json:"dumpn"`         // entries DumpLogs delivered
	Skipped string            `json:"skipped,omitempty"`
	Ms      float64           `json:"ms"`
}

func die(code int, a ...any) {
	fmt.Fprintln(os.Stderr, append([]any{"corruptreplay:"}, a...)...)
	os.Exit(code)
}

func quietLogger() hclog.Logger { return hclog.NewNullLogger() }

func fixedTime() time.Time { return time.Unix(1700000000, 0).UTC() }

func mkLog(i uint64) *raft.Log {
	return &raft.Log{Index: i, Term: 1, Type: raft.LogCommand, Data: []byte{byte('a' + i), 'x', 'y', 'z'}, AppendedAt: fixedTime()}
}

// ---------------------------------------------------------------- build

func readMetaRecord(dbPath string) ([]byte, error) {
	db, err := bbolt.Open(dbPath, 0644, &bbolt.Options{Timeout: 2 * time.Second, ReadOnly: true})
	if err != nil {
		return nil, err
	}
	defer db.Close()
	var out []byte
	err = db.View(func(tx *bbolt.Tx) error {
		b := tx.Bucket([]byte(metaBucket))
		if b == nil {
			return errors.New("no bucket " + metaBucket)
		}
		v := b.Get([]byte(metaKey))
		if v == nil {
			return errors.New("no record")
		}
		out = append([]byte(nil), v...)
		return nil
	})
	return out, err
}

func writeMetaRecord(dbPath string, rec []byte) error {
	db, err := bbolt.Open(dbPath, 0644, &bbolt.Options{Timeout: 2 * time.Second, NoSync: true})
	if err != nil {
		return err
	}
	err = db.Update(func(tx *bbolt.Tx) error {
		b := tx.Bucket([]byte(metaBucket))
		if b == nil {
			return errors.New("no bucket " + metaBucket)
		}
		return b.Put([]byte(metaKey), rec)
	})
	cerr := db.Close()
	if err != nil {
		return err
	}
	return cerr
}

func buildPristine(dir string) (*Shape, error) {
	if err := os.MkdirAll(dir, 0755); err != nil {
		return nil, err
	}
	w, err := wal.Open(dir, wal.WithSegmentSize(segSize), wal.WithLogger(quietLogger()))
	if err != nil {
		return nil, err
	}
	batches := [][]uint64{{1, 2}, {3}, {4, 5}, {6}, {7}, {8}}
	for _, b := range batches {
		var logs []*raft.Log
		for _, i := range b {
			logs = append(logs, mkLog(i))
		}
		if err := w.StoreLogs(logs); err != nil {
			return nil, fmt.Errorf("StoreLogs %v: %w", b, err)
		}
		// barrier: a no-op truncation waits for a pending background rotation
		if err := w.DeleteRange(1000, 1001); err != nil {
			return nil, fmt.Errorf("barrier: %w", err)
		}
	}
	if err := w.Close(); err != nil {
		return nil, err
	}
	return dissect(dir)
}

type metaSeg struct {
	ID         uint64
	BaseIndex  uint64
	MinIndex   uint64
	MaxIndex   uint64
	Codec      uint64
	IndexStart uint64
	SealTime   time.Time
}

func dissect(dir string) (*Shape, error) {
	rec, err := readMetaRecord(filepath.Join(dir, metaFile))
	if err != nil {
		return nil, err
	}
	var ps struct {
		NextSegmentID uint64
		Segments      []metaSeg
	}
	if err := json.Unmarshal(rec, &ps); err != nil {
		return nil, err
	}
	if len(ps.Segments) != 3 || ps.Segments[0].SealTime.IsZero() || ps.Segments[1].SealTime.IsZero() || !ps.Segments[2].SealTime.IsZero() {
		return nil, fmt.Errorf("unexpected pristine metadata (want sealed, sealed, tail): %s", rec)
	}
	sh := &Shape{SegSize: segSize, Files: map[string]FileShape{}, Meta: rec}
	cids := map[[8]byte]int{{}: 0}
	for i, key := range fileKeys {
		ms := ps.Segments[i]
		name := readmefmt.FileName(ms.BaseIndex, ms.ID)
		b, err := os.ReadFile(filepath.Join(dir, name))
		if err != nil {
			return nil, err
		}
		if len(b)%8 != 0 {
			return nil, fmt.Errorf("%s: length %d not a multiple of 8", name, len(b))
		}
		f, err := readmefmt.Decode(b)
		if err != nil {
			return nil, err
		}
		if err := readmefmt.CheckCRCs(b, f); err != nil {
			return nil, err
		}
		fsh := FileShape{Name: name, Size: len(b), Base: ms.BaseIndex, Min: ms.MinIndex, Max: ms.MaxIndex, ID: ms.ID,
			IndexStart: ms.IndexStart, Sealed: !ms.SealTime.IsZero(), IndexFrame: -1, Commits: []int{}}
		cls := make([]string, len(b)/8)
		copy(cls, []string{"H0", "H1", "H2", "H3"})
		n := 0
		for _, fr := range f.Frames {
			p := fr.Offset / 8
			switch fr.Type {
			case readmefmt.TypeEntry:
				cls[p] = "FE"
				n++
				for k := 1; k <= (int(fr.Len)+7)/8; k++ {
					cls[p+k] = "PL"
				}
			case readmefmt.TypeIndex:
				cls[p] = "FI"
				fsh.IndexFrame = p
				fsh.NIdx = len(fr.Index)
				for k := 1; k <= (int(fr.Len)+7)/8; k++ {
					cls[p+k] = "IX"
				}
			case readmefmt.TypeCommit:
				cls[p] = "FC"
				fsh.Commits = append(fsh.Commits, p)
			}
		}
		for p := range cls {
			if cls[p] == "" {
				cls[p] = "Z"
			}
		}
		if !fsh.Sealed {
			fsh.Max = ms.BaseIndex + uint64(n) - 1
		} else if fsh.IndexFrame < 0 || uint64(fsh.IndexFrame*8+8) != ms.IndexStart {
			return nil, fmt.Errorf("%s: sealed but index frame/IndexStart disagree (%d vs %d)", name, fsh.IndexFrame, ms.IndexStart)
		}
		fsh.Cls = cls
		for p := 0; p < len(b); p += 8 {
			var k [8]byte
			copy(k[:], b[p:p+8])
			id, ok := cids[k]
			if !ok {
				id = len(cids)
				cids[k] = id
			}
			fsh.Cid = append(fsh.Cid, id)
		}
		sh.Files[key] = fsh
	}
	sh.First = int(sh.Files["s0"].Min)
	sh.Last = int(sh.Files["tail"].Max)
	var buf bytes.Buffer
	if err := (&wal.BinaryCodec{}).Encode(payloadLog(), &buf); err != nil {
		return nil, err
	}
	sh.Payload = buf.Len()
	return sh, nil
}

func payloadLog() *raft.Log {
	return &raft.Log{Index: 5, Term: 2, Type: raft.LogCommand, Data: []byte("abcd"), Extensions: []byte("xy"), AppendedAt: fixedTime()}
}

// ---------------------------------------------------------------- applying ops to bytes

type dirState struct {
	files   map[string][]byte // key -> content, absent = removed
	meta    []byte            // JSON record
	metaMod bool
	payload []byte
	hasPay  bool
}

type pristine struct {
	dir   string
	shape *Shape
	files map[string][]byte // by key
	db    []byte            // wal-meta.db bytes
	pay   []byte
}

func loadPristine(dir string) (*pristine, error) {
	sh, err := dissect(dir)
	if err != nil {
		return nil, err
	}
	p := &pristine{dir: dir, shape: sh, files: map[string][]byte{}}
	for _, k := range fileKeys {
		b, err := os.ReadFile(filepath.Join(dir, sh.Files[k].Name))
		if err != nil {
			return nil, err
		}
		p.files[k] = b
	}
	if p.db, err = os.ReadFile(filepath.Join(dir, metaFile)); err != nil {
		return nil, err
	}
	var buf bytes.Buffer
	if err := (&wal.BinaryCodec{}).Encode(payloadLog(), &buf); err != nil {
		return nil, err
	}
	p.pay = buf.Bytes()
	return p, nil
}

func (p *pristine) fresh() *dirState {
	st := &dirState{files: map[string][]byte{}, meta: append([]byte(nil), p.shape.Meta...)}
	for k, b := range p.files {
		st.files[k] = append([]byte(nil), b...)
	}
	return st
}

func rngFor(seed int64, op Op, extra int) *rand.Rand {
	h := uint64(seed)*0x9e3779b97f4a7c15 + uint64(op.A)*1000003 + uint64(op.B)*10007 + uint64(op.C)*101 + uint64(extra)
	for _, c := range op.F + op.K + op.V {
		h = h*131 + uint64(c)
	}
	return rand.New(rand.NewSource(int64(h)))
}

func uvarint(v uint64) []byte {
	var b [10]byte
	n := binary.PutUvarint(b[:], v)
	return b[:n]
}

var overflow = []byte{0xff, 0xff, 0xff, 0xff, 0xff, 0xff, 0xff, 0xff, 0xff, 0xff, 0x7f}

// payload fields of the BinaryCodec encoding of payloadLog(): the byte ranges are recomputed
// from the encoding rules of the README/codec (uvarint fields, length-prefixed byte strings,
// 15-byte time).
func payloadFields(b []byte) ([][2]int, error) {
	var out [][2]int
	off := 0
	rd := func() (uint64, error) {
		v, n := binary.Uvarint(b[off:])
		if n <= 0 {
			return 0, errors.New("bad pristine payload")
		}
		out = append(out, [2]int{off, off + n})
		off += n
		return v, nil
	}
	for i := 0; i < 3; i++ {
		if _, err := rd(); err != nil {
			return nil, err
		}
	}
	for i := 0; i < 2; i++ {
		n, err := rd()
		if err != nil {
			return nil, err
		}
		off += int(n)
	}
	out = append(out, [2]int{off, len(b)})
	return out, nil
}

func (p *pristine) apply(st *dirState, op Op, seed int64) error {
	sh := p.shape
	file := func(k string) ([]byte, error) {
		b, ok := st.files[k]
		if !ok {
			return nil, fmt.Errorf("op %s on removed file %s", op.K, k)
		}
		return b, nil
	}
	need := func(b []byte, end int) error {
		if end > len(b) {
			return fmt.Errorf("op %+v beyond the end of the file (%d > %d)", op, end, len(b))
		}
		return nil
	}
	switch op.K {
	case "FlipType":
		b, err := file(op.F)
		if err != nil {
			return err
		}
		if err := need(b, 8*op.A+8); err != nil {
			return err
		}
		v, _ := strconv.Atoi(op.V)
		b[8*op.A] = byte(v)
	case "SetLen":
		b, err := file(op.F)
		if err != nil {
			return err
		}
		if err := need(b, 8*op.A+8); err != nil {
			return err
		}
		cur := binary.LittleEndian.Uint32(b[8*op.A+4:])
		var nv uint32
		switch op.V {
		case "0":
			nv = 0
		case "1":
			nv = 1
		case "len-1":
			nv = cur - 1
		case "len+1":
			nv = cur + 1
		case "beyond":
			nv = uint32(len(b))
		case "maxentry":
			nv = segment.MaxEntrySize
		case "maxentry+1":
			nv = segment.MaxEntrySize + 1
		case "u32max":
			nv = 0xffffffff
		case "u32wrap8":
			nv = 0xfffffff8 // offset + 8 + len (+ padding) wraps to the same frame in 32-bit arithmetic
		case "u32wrap16":
			nv = 0xfffffff0
		case "i32max":
			nv = 0x7fffffff
		case "i32min":
			nv = 0x80000000
		default:
			return fmt.Errorf("SetLen: unknown value %q", op.V)
		}
		if nv == cur {
			nv ^= 0x10
		}
		binary.LittleEndian.PutUint32(b[8*op.A+4:], nv)
	case "TypeLen": // op.G = the new type byte, op.V = the new length (as SetLen)
		b, err := file(op.F)
		if err != nil {
			return err
		}
		if err := need(b, 8*op.A+8); err != nil {
			return err
		}
		cur := binary.LittleEndian.Uint32(b[8*op.A+4:])
		var nv uint32
		switch op.V {
		case "0":
			nv = 0
		case "1":
			nv = 1
		case "len-1":
			nv = cur - 1
		case "len+1":
			nv = cur + 1
		case "beyond":
			nv = uint32(len(b))
		case "maxentry":
			nv = segment.MaxEntrySize
		case "maxentry+1":
			nv = segment.MaxEntrySize + 1
		case "u32max":
			nv = 0xffffffff
		case "u32wrap8":
			nv = 0xfffffff8 // offset + 8 + len (+ padding) wraps to the same frame in 32-bit arithmetic
		case "u32wrap16":
			nv = 0xfffffff0
		case "i32max":
			nv = 0x7fffffff
		case "i32min":
			nv = 0x80000000
		default:
			return fmt.Errorf("TypeLen: unknown value %q", op.V)
		}
		if nv == cur {
			nv ^= 0x10
		}
		binary.LittleEndian.PutUint32(b[8*op.A+4:], nv)
		tv, _ := strconv.Atoi(op.G)
		b[8*op.A] = byte(tv)
	case "ZeroRun":
		b, err := file(op.F)
		if err != nil {
			return err
		}
		if err := need(b, 8*op.B); err != nil {
			return err
		}
		for i := 8 * op.A; i < 8*op.B; i++ {
			b[i] = 0
		}
	case "TruncateAt":
		b, err := file(op.F)
		if err != nil {
			return err
		}
		if err := need(b, 8*op.A+op.C); err != nil {
			return err
		}
		st.files[op.F] = b[:8*op.A+op.C]
	case "Splice":
		b, err := file(op.F)
		if err != nil {
			return err
		}
		src, err := file(op.G)
		if err != nil {
			return err
		}
		if err := need(src, 8*op.B); err != nil {
			return err
		}
		if err := need(b, 8*(op.C+op.B-op.A)); err != nil {
			return err
		}
		tmp := append([]byte(nil), src[8*op.A:8*op.B]...)
		copy(b[8*op.C:], tmp)
	case "HeaderField":
		b, err := file(op.F)
		if err != nil {
			return err
		}
		if err := need(b, 32); err != nil {
			return err
		}
		other := map[string]string{"s0": "s1", "s1": "s0", "tail": "s1"}[op.F]
		switch op.G {
		case "magic":
			switch op.V {
			case "zero":
				copy(b[0:4], []byte{0, 0, 0, 0})
			case "plus1":
				b[0]++
			default:
				b[3] ^= 0x80
			}
		case "version":
			v, _ := strconv.Atoi(op.V)
			b[7] = byte(v)
		case "reserved":
			b[5] = 0x01
		case "base", "id", "codec":
			off := map[string]int{"base": 8, "id": 16, "codec": 24}[op.G]
			cur := binary.LittleEndian.Uint64(b[off:])
			var nv uint64
			switch op.V {
			case "zero":
				nv = 0
			case "plus1":
				nv = cur + 1
			case "other":
				nv = binary.LittleEndian.Uint64(p.files[other][off:])
			case "ext":
				nv = 1 << 16
			case "max":
				nv = ^uint64(0)
			default:
				return fmt.Errorf("HeaderField: unknown value %q", op.V)
			}
			if nv == cur {
				nv = cur + 77
			}
			binary.LittleEndian.PutUint64(b[off:], nv)
		default:
			return fmt.Errorf("HeaderField: unknown field %q", op.G)
		}
	case "IndexEntry":
		b, err := file(op.F)
		if err != nil {
			return err
		}
		fs := sh.Files[op.F]
		off := int(fs.IndexStart) + 4*op.A
		if err := need(b, off+4); err != nil {
			return err
		}
		cur := binary.LittleEndian.Uint32(b[off:])
		var nv uint32
		switch op.V {
		case "zero":
			nv = 0
		case "inhdr":
			nv = 8
		case "beyond":
			nv = uint32(fs.Size + 64)
		case "misaligned":
			nv = cur + 3
		case "commit":
			nv = uint32(8 * fs.Commits[0])
		case "self":
			nv = uint32(8 * fs.IndexFrame)
		case "next":
			nv = binary.LittleEndian.Uint32(b[int(fs.IndexStart)+4*((op.A+1)%fs.NIdx):])
		case "u32max":
			nv = 0xffffffff
		default:
			return fmt.Errorf("IndexEntry: unknown value %q", op.V)
		}
		binary.LittleEndian.PutUint32(b[off:], nv)
	case "IndexStartInMeta":
		return p.editMeta(st, func(m map[string]any) error {
			segs := m["Segments"].([]any)
			i := map[string]int{"s0": 0, "s1": 1}[op.F]
			if i >= len(segs) {
				return nil
			}
			fs := sh.Files[op.F]
			var nv uint64
			switch op.V {
			case "zero":
				nv = 0
			case "inhdr":
				nv = 8
			case "beyond":
				nv = uint64(fs.Size + 64)
			case "misaligned":
				nv = fs.IndexStart + 1
			case "minus8":
				nv = fs.IndexStart - 8
			case "plus4":
				nv = fs.IndexStart + 4
			case "eof-2":
				nv = uint64(fs.Size - 2)
			case "u64max":
				nv = ^uint64(0)
			case "i63":
				nv = 1 << 63
			default:
				return fmt.Errorf("IndexStartInMeta: unknown value %q", op.V)
			}
			segs[i].(map[string]any)["IndexStart"] = json.Number(strconv.FormatUint(nv, 10))
			return nil
		})
	case "RemoveFile":
		if _, err := file(op.F); err != nil {
			return err
		}
		delete(st.files, op.F)
	case "SwapFiles":
		a, err := file(op.F)
		if err != nil {
			return err
		}
		b, err := file(op.G)
		if err != nil {
			return err
		}
		if op.V == "both" {
			st.files[op.F], st.files[op.G] = b, a
		} else {
			st.files[op.F] = append([]byte(nil), b...)
		}
	case "Garbage":
		b, err := file(op.F)
		if err != nil {
			return err
		}
		if err := need(b, 8*(op.A+op.B)); err != nil {
			return err
		}
		r := rngFor(seed, op, 0)
		for w := op.A; w < op.A+op.B; w++ {
			var g [8]byte
			r.Read(g[:])
			if bytes.Equal(g[:], b[8*w:8*w+8]) {
				g[0] ^= 1
			}
			copy(b[8*w:], g[:])
		}
	case "MetaJSON":
		switch op.V {
		case "truncated":
			st.meta = st.meta[:len(st.meta)/2]
			st.metaMod = true
		case "garbage":
			r := rngFor(seed, op, 1)
			g := make([]byte, 40)
			r.Read(g)
			st.meta = g
			st.metaMod = true
		case "empty":
			st.meta = []byte("{}")
			st.metaMod = true
		default:
			return p.editMeta(st, func(m map[string]any) error {
				segs, _ := m["Segments"].([]any)
				switch op.V {
				case "wrongtype":
					m["Segments"] = "not-a-list"
				case "wrongtype2":
					if len(segs) > 0 {
						segs[0].(map[string]any)["BaseIndex"] = "one"
					}
				case "negative":
					if len(segs) > 0 {
						segs[0].(map[string]any)["MinIndex"] = json.Number("-1")
					}
				case "hugenext":
					m["NextSegmentID"] = json.Number("18446744073709551615")
				case "overflownext":
					m["NextSegmentID"] = json.Number("18446744073709551616")
				case "unsorted":
					if len(segs) >= 2 {
						segs[0], segs[1] = segs[1], segs[0]
					}
				case "twotails":
					if len(segs) >= 2 {
						segs[1].(map[string]any)["SealTime"] = "0001-01-01T00:00:00Z"
					}
				case "sealedaftertail":
					if len(segs) >= 3 {
						segs[1], segs[2] = segs[2], segs[1]
					}
				case "allsealed":
					if len(segs) >= 3 {
						segs[2].(map[string]any)["SealTime"] = segs[1].(map[string]any)["SealTime"]
					}
				case "nosegments":
					m["Segments"] = []any{}
				case "dupsegment":
					if len(segs) >= 2 {
						segs[1] = segs[0]
					}
				case "tailminlow", "sealedminlow", "maxbelowmin":
					// index bounds that contradict each other: MinIndex below BaseIndex (tail / first sealed segment),
					// MaxIndex below MinIndex
					if len(segs) >= 1 {
						sg := segs[len(segs)-1].(map[string]any)
						if op.V != "tailminlow" {
							sg = segs[0].(map[string]any)
						}
						num := func(k string) uint64 {
							n, _ := strconv.ParseUint(fmt.Sprint(sg[k]), 10, 64)
							return n
						}
						if op.V == "maxbelowmin" {
							if m := num("MinIndex"); m > 0 {
								sg["MaxIndex"] = json.Number(strconv.FormatUint(m-1, 10))
							}
						} else if b := num("BaseIndex"); b > 1 {
							low := uint64(1)
							if b > 3 {
								low = b - 3
							}
							sg["MinIndex"] = json.Number(strconv.FormatUint(low, 10))
						}
					}
				case "hugerange":
					if len(segs) >= 1 {
						segs[0].(map[string]any)["MaxIndex"] = json.Number("9223372036854775808")
					}
				default:
					return fmt.Errorf("MetaJSON: unknown kind %q", op.V)
				}
				return nil
			})
		}
	case "Payload":
		base := append([]byte(nil), p.pay...)
		flds, err := payloadFields(base)
		if err != nil {
			return err
		}
		st.hasPay = true
		switch op.V {
		case "orig":
			st.payload = base
		case "varint-overflow":
			// field op.A (1..5): index, term, type, data length, extensions length
			f := flds[op.A-1]
			st.payload = append(append(append([]byte(nil), base[:f[0]]...), overflow...), base[f[1]:]...)
		case "len-gt-rest":
			f := flds[op.A-1] // 4 = data length, 5 = extensions length
			rest := len(base) - f[1]
			st.payload = append(append(append([]byte(nil), base[:f[0]]...), uvarint(uint64(rest+1))...), base[f[1]:]...)
		case "len-huge":
			f := flds[op.A-1]
			st.payload = append(append(append([]byte(nil), base[:f[0]]...), uvarint(1<<62)...), base[f[1]:]...)
		case "len-top":
			f := flds[op.A-1]
			v := uint64(1) << 63
			if op.C == 2 {
				v = ^uint64(0)
			}
			st.payload = append(append(append([]byte(nil), base[:f[0]]...), uvarint(v)...), base[f[1]:]...)
		case "trunc-time":
			st.payload = base[:len(base)-op.A]
		case "trailing":
			st.payload = append(base, make([]byte, op.A)...)
		case "empty":
			st.payload = []byte{}
		case "trunc-varint":
			st.payload = []byte{0x80}
		case "random":
			r := rngFor(seed, op, 2)
			n := 1 + r.Intn(48)
			g := make([]byte, n)
			r.Read(g)
			st.payload = g
		default:
			return fmt.Errorf("Payload: unknown kind %q", op.V)
		}
	case "SelfPanic", "SelfHang", "SelfAlloc", "SelfOOM", "SelfFatal":
		// self-test ops: interpreted by the prober
	default:
		return fmt.Errorf("unknown op kind %q", op.K)
	}
	return nil
}

func (p *pristine) editMeta(st *dirState, f func(m map[string]any) error) error {
	dec := json.NewDecoder(bytes.NewReader(st.meta))
	dec.UseNumber()
	var m map[string]any
	if err := dec.Decode(&m); err != nil {
		// an earlier op made the record unparsable: a structural edit has nothing to act on
		return nil
	}
	if err := f(m); err != nil {
		return err
	}
	b, err := json.Marshal(m)
	if err != nil {
		return err
	}
	st.meta = b
	st.metaMod = true
	return nil
}

// materialise writes the state into dir (which is emptied first).
func (p *pristine) materialise(st *dirState, dir string) error {
	if err := os.RemoveAll(dir); err != nil {
		return err
	}
	if err := os.MkdirAll(dir, 0755); err != nil {
		return err
	}
	for k, b := range st.files {
		if err := os.WriteFile(filepath.Join(dir, p.shape.Files[k].Name), b, 0644); err != nil {
			return err
		}
	}
	if err := os.WriteFile(filepath.Join(dir, metaFile), p.db, 0644); err != nil {
		return err
	}
	if st.metaMod {
		return writeMetaRecord(filepath.Join(dir, metaFile), st.meta)
	}
	return nil
}

// restore makes dir equal to the pristine directory again, IN PLACE (same inodes: a lock that
// a failed Open left on wal-meta.db stays where it is).
func (p *pristine) restore(dir string) error {
	want := map[string][]byte{metaFile: p.db}
	for k, b := range p.files {
		want[p.shape.Files[k].Name] = b
	}
	ents, err := os.ReadDir(dir)
	if err != nil {
		return err
	}
	for _, e := range ents {
		if _, ok := want[e.Name()]; !ok {
			if err := os.RemoveAll(filepath.Join(dir, e.Name())); err != nil {
				return err
			}
		}
	}
	for name, b := range want {
		f, err := os.OpenFile(filepath.Join(dir, name), os.O_WRONLY|os.O_CREATE, 0644)
		if err != nil {
			return err
		}
		if err := f.Truncate(int64(len(b))); err != nil {
			f.Close()
			return err
		}
		if _, err := f.WriteAt(b, 0); err != nil {
			f.Close()
			return err
		}
		if err := f.Close(); err != nil {
			return err
		}
	}
	return nil
}

// ---------------------------------------------------------------- probing

type prober struct {
	p        *pristine
	seed     int64
	work     string
	watchdog time.Duration
	rewatch  time.Duration
	marker   *os.File // progress record for the parent
	curIdx   int
	curID    int
	calFile  string // calibration marker shared by the children of one run
	confirm  int    // lock held => second Open blocked (observed for real)
	refute   int
}

type outcome struct {
	cls   string
	err   error
	msg   string
	stack string
	site  string
	alloc uint64
}

var siteRe = regexp.MustCompile(`(?m)^(github\.com/hashicorp/raft-wal[^\n]*)\([^()\n]*\)\s*$`)

func siteOf(stack string) string {
	// first raft-wal function below the panic machinery
	for _, m := range siteRe.FindAllStringSubmatch(stack, -1) {
		return strings.TrimPrefix(m[1], "github.com/hashicorp/raft-wal")
	}
	return ""
}

func allStacks() string {
	buf := make([]byte, 1<<20)
	n := runtime.Stack(buf, true)
	return string(buf[:n])
}

// allocated is runtime.MemStats.TotalAlloc (cumulative bytes allocated for heap objects) read
// through runtime/metrics, which does not stop the world.
func allocated() uint64 {
	s := []metrics.Sample{{Name: "/gc/heap/allocs:bytes"}}
	metrics.Read(s)
	if s[0].Value.Kind() != metrics.KindUint64 {
		var m runtime.MemStats
		runtime.ReadMemStats(&m)
		return m.TotalAlloc
	}
	return s[0].Value.Uint64()
}

// call runs f under recover(), a watchdog and an allocation meter.
var phaseTime = map[string]time.Duration{}

func phase(name string, st time.Time) { phaseTime[name] += time.Since(st) }

func (pr *prober) call(name string, limit time.Duration, bound uint64, f func() error) outcome {
	defer phase("call:"+name, time.Now())
	pr.progress("run", name)
	type res struct {
		err   error
		pan   any
		stack string
	}
	ch := make(chan res, 1)
	a0 := allocated()
	go func() {
		defer func() {
			if r := recover(); r != nil {
				ch <- res{pan: r, stack: string(debug.Stack())}
			}
		}()
		ch <- res{err: f()}
	}()
	t := time.NewTimer(limit)
	defer t.Stop()
	select {
	case r := <-ch:
		o := outcome{alloc: allocated() - a0}
		switch {
		case r.pan != nil:
			o.cls, o.msg, o.stack, o.site = "panic", fmt.Sprint(r.pan), r.stack, siteOf(r.stack)
		case o.alloc > bound:
			o.cls = "alloc"
			o.msg = fmt.Sprintf("allocated %d bytes in one call, bound %d", o.alloc, bound)
		case r.err != nil:
			o.cls, o.msg, o.err = "err", r.err.Error(), r.err
		default:
			o.cls = "ok"
		}
		return o
	case <-t.C:
		return outcome{cls: "hang", msg: fmt.Sprintf("no return within %s", limit), stack: allStacks()}
	}
}

var rank = map[string]int{"none": 0, "ok": 1, "err": 2, "alloc": 3, "panic": 4, "hang": 5}

func worse(a, b string) string {
	if rank[b] > rank[a] {
		return b
	}
	return a
}

func clampIdx(v uint64) int {
	if v > 1000000000 {
		return 1000000000
	}
	return int(v)
}

func selfOp(c Case) string {
	for _, o := range c.Ops {
		if strings.HasPrefix(o.K, "Self") {
			return o.K
		}
	}
	return ""
}

var sink [][]byte

func selfFault(kind string) {
	switch kind {
	case "SelfPanic":
		var m map[string]int
		m["x"] = 1
	case "SelfHang":
		select {}
	case "SelfAlloc":
		for i := 0; i < 6; i++ {
			sink = append(sink, make([]byte, 64<<20))
		}
		sink = nil
	case "SelfOOM":
		for {
			sink = append(sink, make([]byte, 512<<20)) // address space runs out at ulimit -v
		}
	case "SelfFatal":
		go func() { panic("deliberate panic outside the probe goroutine") }()
		time.Sleep(2 * time.Second)
	}
}

// openFds is the set of descriptor numbers open right now.
func openFds() map[string]bool {
	out := map[string]bool{}
	f, err := os.Open("/proc/self/fd")
	if err != nil {
		return out
	}
	names, _ := f.Readdirnames(-1)
	self := strconv.Itoa(int(f.Fd())) // the listing's own descriptor is free again in a moment
	f.Close()
	for _, n := range names {
		if n != self {
			out[n] = true
		}
	}
	return out
}

// newFdsInto lists the descriptors opened since the snapshot that point into dir.
func newFdsInto(before map[string]bool, dir string) []string {
	var out []string
	for n := range openFds() {
		if before[n] {
			continue
		}
		t, err := os.Readlink("/proc/self/fd/" + n)
		if err == nil && strings.HasPrefix(t, dir+"/") {
			out = append(out, filepath.Base(t))
		}
	}
	sort.Strings(out)
	return out
}

func lockHeld(path string) bool {
	f, err := os.OpenFile(path, os.O_RDONLY, 0)
	if err != nil {
		return false
	}
	defer f.Close()
	err = syscall.Flock(int(f.Fd()), syscall.LOCK_EX|syscall.LOCK_NB)
	if err == nil {
		syscall.Flock(int(f.Fd()), syscall.LOCK_UN)
		return false
	}
	return err == syscall.EWOULDBLOCK
}

// Calibration of the lock probe, shared by the children of one run through marker files:
// "the flock on wal-meta.db is still held after the failed Open" was followed by "the second
// Open did not return within its watchdog" at least twice, and never by a second Open that
// returned. Only then is the probe alone taken as "blocked".
// progress overwrites the fixed-size progress record the parent reads if this process dies:
// position and id of the current case, its state (run | done) and the current probe.
func (pr *prober) progress(state, probe string) {
	if pr.marker == nil {
		return
	}
	rec := fmt.Sprintf("%d %d %s %s", pr.curIdx, pr.curID, state, probe)
	pr.marker.WriteAt([]byte(fmt.Sprintf("%-63s\n", rec)), 0)
}

func (pr *prober) calibrated() bool {
	if pr.calFile == "" {
		return pr.confirm >= 2 && pr.refute == 0
	}
	ents, _ := os.ReadDir(pr.calFile)
	c, r := 0, 0
	for _, e := range ents {
		if strings.HasPrefix(e.Name(), "confirm.") {
			c++
		} else if strings.HasPrefix(e.Name(), "refute.") {
			r++
		}
	}
	return c >= 2 && r == 0
}

func (pr *prober) calNote(kind string) {
	if kind == "confirm" {
		pr.confirm++
	} else {
		pr.refute++
	}
	if pr.calFile != "" {
		os.MkdirAll(pr.calFile, 0755)
		os.WriteFile(filepath.Join(pr.calFile, fmt.Sprintf("%s.%d.%d", kind, os.Getpid(), pr.confirm+pr.refute)), nil, 0644)
	}
}

func (pr *prober) runCase(c Case) (Result, Detail, bool) {
	st0 := time.Now()
	r, d, f := pr.runCase1(c)
	d.Ms = float64(time.Since(st0).Microseconds()) / 1000
	return r, d, f
}

func (pr *prober) runCase1(c Case) (Result, Detail, bool) {
	res := Result{ID: c.ID, Ops: c.Ops, Decode: "none", DumpLogs: "none", DumpSeg: "none", Open: "none", First: -1, Last: -1,
		FirstR: "none", LastR: "none", Get: "none", NF: []int{}, RD: []int{}, ER: []int{}, Close: "none", Reopen: "none"}
	if res.Ops == nil {
		res.Ops = []Op{}
	}
	det := Detail{ID: c.ID, Msg: map[string]string{}, Stack: map[string]string{}, Site: map[string]string{}, Alloc: map[string]uint64{}}
	fatal := false // a hang: the child must be restarted
	note := func(probe string, o outcome) {
		if o.alloc > det.Alloc[probe] {
			det.Alloc[probe] = o.alloc
		}
		if o.cls != "ok" && det.Msg[probe] == "" {
			det.Msg[probe] = o.msg
		}
		if o.stack != "" && det.Stack[probe] == "" {
			det.Stack[probe] = o.stack
			det.Site[probe] = o.site
		}
		if o.cls == "hang" {
			fatal = true
		}
	}

	st := pr.p.fresh()
	for _, op := range c.Ops {
		if err := pr.p.apply(st, op, pr.seed); err != nil {
			det.Skipped = err.Error()
			return res, det, false
		}
	}
	self := selfOp(c)

	total := uint64(len(pr.p.db))
	for _, b := range st.files {
		total += uint64(len(b))
	}
	bound := total + segment.MaxEntrySize + slack
	det.Bound = bound

	// ---- Decode (payload cases)
	if st.hasPay {
		o := pr.call("decode", pr.watchdog, bound, func() error {
			var l raft.Log
			err := (&wal.BinaryCodec{}).Decode(st.payload, &l)
			if err == nil && len(c.Ops) == 1 && c.Ops[0].V == "orig" {
				want := payloadLog()
				if l.Index != want.Index || l.Term != want.Term || !bytes.Equal(l.Data, want.Data) || !bytes.Equal(l.Extensions, want.Extensions) || !l.AppendedAt.Equal(want.AppendedAt) {
					return fmt.Errorf("pristine payload does not round-trip: %+v", l)
				}
			}
			return err
		})
		res.Decode = o.cls
		note("decode", o)
		return res, det, fatal
	}

	dir := filepath.Join(pr.work, fmt.Sprintf("c%d", c.ID))
	tm := time.Now()
	err := pr.p.materialise(st, dir)
	phase("materialise", tm)
	if err != nil {
		det.Skipped = "materialise: " + err.Error()
		return res, det, false
	}
	defer func() { defer phase("removeall", time.Now()); os.RemoveAll(dir) }()

	// ---- dump utilities (read-only, on the damaged files)
	filer := segment.NewFiler(dir, fs.New())
	dumped := 0
	count := func(_ types.SegmentInfo, e types.LogEntry) (bool, error) { dumped++; return true, nil }
	o := pr.call("dumplogs", pr.watchdog, bound, func() error { return filer.DumpLogs(0, 0, count) })
	det.DumpN = dumped
	res.DumpLogs = o.cls
	note("dumplogs", o)
	if fatal {
		return res, det, true
	}
	for _, k := range fileKeys {
		if _, ok := st.files[k]; !ok {
			continue
		}
		fsh := pr.p.shape.Files[k]
		o := pr.call("dumpseg", pr.watchdog, bound, func() error { return filer.DumpSegment(fsh.Base, fsh.ID, 0, 0, count) })
		res.DumpSeg = worse(res.DumpSeg, o.cls)
		note("dumpseg", o)
		if fatal {
			return res, det, true
		}
	}

	// ---- Open. The child runs with the garbage collector off (see childMain): whether a
	// handle leaked by a failed Open is released must not depend on when a finalizer happens
	// to run between the failed Open and the second Open.
	before := openFds()
	var w *wal.WAL
	o = pr.call("open", pr.watchdog, bound, func() error {
		if self != "" {
			selfFault(self)
		}
		var err error
		w, err = wal.Open(dir, wal.WithSegmentSize(segSize), wal.WithLogger(quietLogger()))
		return err
	})
	res.Open = o.cls
	note("open", o)
	if fatal {
		return res, det, true
	}
	if o.cls == "ok" && w != nil {
		var first, last uint64
		o = pr.call("first", pr.watchdog, bound, func() error { var err error; first, err = w.FirstIndex(); return err })
		res.FirstR = o.cls
		note("first", o)
		if fatal {
			return res, det, true
		}
		o = pr.call("last", pr.watchdog, bound, func() error { var err error; last, err = w.LastIndex(); return err })
		res.LastR = o.cls
		note("last", o)
		if fatal {
			return res, det, true
		}
		if res.FirstR == "ok" {
			res.First = clampIdx(first)
		}
		if res.LastR == "ok" {
			res.Last = clampIdx(last)
		}
		// GetLog over the pristine range +-2 and around what the WAL reports now
		idx := map[uint64]bool{}
		lo := pr.p.shape.First - 2
		if lo < 0 {
			lo = 0
		}
		for i := lo; i <= pr.p.shape.Last+2; i++ {
			idx[uint64(i)] = true
		}
		for _, v := range []uint64{first, last} {
			for d := uint64(0); d <= 2; d++ {
				idx[v+d] = true
				idx[v-d] = true
			}
		}
		var order []uint64
		for i := range idx {
			order = append(order, i)
		}
		sort.Slice(order, func(a, b int) bool { return order[a] < order[b] })
		for _, i := range order {
			var l raft.Log
			o = pr.call("get", pr.watchdog, bound, func() error {
				err := w.GetLog(i, &l)
				if err == nil && l.Index != i && i <= uint64(pr.p.shape.Last+2) {
					// a different valid-looking entry: not judged by C11, reported as a read error class
					return fmt.Errorf("GetLog(%d) returned an entry with Index %d", i, l.Index)
				}
				return err
			})
			cls := o.cls
			if cls == "err" && errors.Is(o.err, wal.ErrNotFound) {
				cls = "ok" // not-found is a regular reply; which indexes are missing is recorded below
				if i >= uint64(pr.p.shape.First) && i <= uint64(pr.p.shape.Last) {
					res.NF = append(res.NF, int(i))
				}
			} else if i >= uint64(pr.p.shape.First) && i <= uint64(pr.p.shape.Last) {
				if cls == "ok" {
					res.RD = append(res.RD, int(i))
				} else {
					res.ER = append(res.ER, int(i))
				}
			}
			res.Get = worse(res.Get, cls)
			if o.cls != "ok" && !(o.cls == "err" && errors.Is(o.err, wal.ErrNotFound)) {
				note("get", o)
			} else if o.alloc > det.Alloc["get"] {
				det.Alloc["get"] = o.alloc
			}
			if fatal {
				return res, det, true
			}
		}
		o = pr.call("close", pr.watchdog, bound, func() error { return w.Close() })
		res.Close = o.cls
		note("close", o)
		return res, det, fatal
	}
	if res.Open != "err" {
		return res, det, fatal
	}

	// ---- Open failed: what did it leave behind, and does a second Open proceed?
	det.Fds = newFdsInto(before, dir)
	res.FdLeft = len(det.Fds)
	res.LockHeld = lockHeld(filepath.Join(dir, metaFile))
	if err := pr.p.restore(dir); err != nil {
		det.Skipped = "restore: " + err.Error()
		return res, det, false
	}
	if res.LockHeld && pr.calibrated() {
		// Established in this run by real second Opens: while the failed Open's descriptor
		// holds the flock, bolt's Open spins forever. Do not spend another 10 s on each case.
		res.Reopen = "blocked"
		det.Via = "lockprobe"
		return res, det, false
	}
	var w2 *wal.WAL
	o = pr.call("reopen", pr.rewatch, bound, func() error {
		var err error
		w2, err = wal.Open(dir, wal.WithSegmentSize(segSize), wal.WithLogger(quietLogger()))
		return err
	})
	det.Via = "open"
	switch o.cls {
	case "hang":
		res.Reopen = "blocked"
		o.cls = "blocked"
		det.Msg["reopen"] = o.msg
		det.Stack["reopen"] = o.stack
		if res.LockHeld {
			pr.calNote("confirm")
		}
	default:
		res.Reopen = o.cls
		note("reopen", o)
		fatal = false
		if res.LockHeld {
			pr.calNote("refute")
		}
		if o.cls == "ok" && w2 != nil {
			oc := pr.call("close", pr.watchdog, bound, func() error { return w2.Close() })
			res.Close = oc.cls
			note("close", oc)
		}
	}
	return res, det, fatal
}

// ---------------------------------------------------------------- child / parent

func readCases(path string) ([]Case, error) {
	f, err := os.Open(path)
	if err != nil {
		return nil, err
	}
	defer f.Close()
	var out []Case
	sc := bufio.NewScanner(f)
	sc.Buffer(make([]byte, 1<<20), 1<<24)
	for sc.Scan() {
		ln := bytes.TrimSpace(sc.Bytes())
		if len(ln) == 0 {
			continue
		}
		var c Case
		if err := json.Unmarshal(ln, &c); err != nil {
			return nil, err
		}
		out = append(out, c)
	}
	return out, sc.Err()
}

type runFlags struct {
	pristine, cases, out, detail, work, calFile, progress string
	seed                                                  int64
	par, skip                                             int
	watchdog, rewatch                                     time.Duration
	vlimitKB, memLimitMB                                  int64
}

func childMain(fl runFlags) {
	if pf := os.Getenv("C11_CPUPROFILE"); pf != "" {
		f, _ := os.Create(pf)
		pprof.StartCPUProfile(f)
		defer pprof.StopCPUProfile()
	}
	// No automatic collections (the memory limit stays as a backstop); collect between cases.
	debug.SetMemoryLimit(fl.memLimitMB << 20)
	debug.SetGCPercent(-1)
	p, err := loadPristine(fl.pristine)
	if err != nil {
		die(2, "pristine:", err)
	}
	cases, err := readCases(fl.cases)
	if err != nil {
		die(2, "cases:", err)
	}
	of, err := os.OpenFile(fl.out, os.O_APPEND|os.O_CREATE|os.O_WRONLY, 0644)
	if err != nil {
		die(2, err)
	}
	df, err := os.OpenFile(fl.detail, os.O_APPEND|os.O_CREATE|os.O_WRONLY, 0644)
	if err != nil {
		die(2, err)
	}
	pr := &prober{p: p, seed: fl.seed, work: fl.work, watchdog: fl.watchdog, rewatch: fl.rewatch, calFile: fl.calFile}
	if fl.progress != "" {
		if pr.marker, err = os.OpenFile(fl.progress, os.O_CREATE|os.O_WRONLY|os.O_TRUNC, 0644); err != nil {
			die(2, err)
		}
	}
	for i := fl.skip; i < len(cases); i++ {
		pr.curIdx, pr.curID = i, cases[i].ID
		pr.progress("run", "start")
		r, d, fatal := pr.runCase(cases[i])
		big := false
		for _, a := range d.Alloc {
			big = big || a > 16<<20
		}
		if big || i%16 == 15 {
			runtime.GC() // also finalizes the descriptors DumpSegment and failed Opens left behind
		}
		rb, _ := json.Marshal(r)
		db, _ := json.Marshal(d)
		of.Write(append(rb, '\n'))
		df.Write(append(db, '\n'))
		pr.progress("done", "-")
		if fatal {
			// a probe is stuck in this process: do not trust it any further
			os.Exit(3)
		}
	}
	pprof.StopCPUProfile()
	if os.Getenv("C11_PHASES") != "" {
		for k, v := range phaseTime {
			fmt.Fprintf(os.Stderr, "phase %-16s %v\n", k, v)
		}
	}
	os.Exit(0)
}

// worker runs children over one slice of the cases until all of them have a result line.
func worker(k int, fl runFlags, cases []Case, exe string) (restarts int, err error) {
	cf := filepath.Join(fl.work, fmt.Sprintf("cases.%d.ndjson", k))
	f, err := os.Create(cf)
	if err != nil {
		return 0, err
	}
	bw := bufio.NewWriter(f)
	for _, c := range cases {
		b, _ := json.Marshal(c)
		bw.Write(append(b, '\n'))
	}
	bw.Flush()
	f.Close()
	out := filepath.Join(fl.work, fmt.Sprintf("out.%d.ndjson", k))
	det := filepath.Join(fl.work, fmt.Sprintf("detail.%d.ndjson", k))
	wdir := filepath.Join(fl.work, fmt.Sprintf("w%d", k))
	os.MkdirAll(wdir, 0755)
	prog := filepath.Join(fl.work, fmt.Sprintf("progress.%d", k))
	skip := 0
	for skip < len(cases) {
		args := []string{"child", "-pristine", fl.pristine, "-cases", cf, "-out", out, "-detail", det, "-work", wdir,
			"-seed", strconv.FormatInt(fl.seed, 10), "-skip", strconv.Itoa(skip), "-watchdog", fl.watchdog.String(),
			"-rewatch", fl.rewatch.String(), "-memlimit", strconv.FormatInt(fl.memLimitMB, 10), "-cal", fl.calFile, "-progress", prog}
		sh := fmt.Sprintf("ulimit -v %d; exec \"$0\" \"$@\"", fl.vlimitKB)
		cmd := exec.Command("/bin/sh", append([]string{"-c", sh, exe}, args...)...)
		stderr := &tailBuf{max: 256 << 10}
		cmd.Stderr = stderr
		cmd.Env = append(os.Environ(), "GOTRACEBACK=all")
		runErr := cmd.Run()
		es := stderr.String()
		code := 0
		if runErr != nil {
			code = -1
			if ee, ok := runErr.(*exec.ExitError); ok {
				code = ee.ExitCode()
			}
		}
		if code == 0 {
			break
		}
		restarts++
		var cur, curID int
		var state, probe string
		pb, _ := os.ReadFile(prog)
		if n, _ := fmt.Sscanf(string(pb), "%d %d %s %s", &cur, &curID, &state, &probe); n != 4 || cur < skip || cur >= len(cases) || cases[cur].ID != curID {
			return restarts, fmt.Errorf("child %d died before its first case (exit %d, progress %q): %s", k, code, strings.TrimSpace(string(pb)), tail(es, 2000))
		}
		if state == "done" {
			// the case was completed (exit 3 after a hang, or death between cases)
			skip = cur + 1
			if code != 3 {
				return restarts, fmt.Errorf("child %d died between cases (exit %d): %s", k, code, tail(es, 2000))
			}
			continue
		}
		// the child died inside case cur, in the probe it recorded last
		if probe == "start" {
			probe = "open"
		}
		cls := "panic"
		low := es
		if strings.Contains(low, "out of memory") || strings.Contains(low, "cannot allocate memory") {
			cls = "alloc"
		}
		c := cases[cur]
		r := Result{ID: c.ID, Ops: c.Ops, Decode: "none", DumpLogs: "none", DumpSeg: "none", Open: "none", First: -1, Last: -1,
			FirstR: "none", LastR: "none", Get: "none", NF: []int{}, RD: []int{}, ER: []int{}, Close: "none", Reopen: "none"}
		if r.Ops == nil {
			r.Ops = []Op{}
		}
		switch probe {
		case "decode":
			r.Decode = cls
		case "dumplogs":
			r.DumpLogs = cls
		case "dumpseg":
			r.DumpSeg = cls
		case "first":
			r.Open, r.FirstR = "ok", cls
		case "last":
			r.Open, r.LastR = "ok", cls
		case "get":
			r.Open, r.Get = "ok", cls
		case "close":
			r.Close = cls
		case "reopen":
			r.Open, r.Reopen = "err", cls
		default:
			r.Open = cls
		}
		d := Detail{ID: c.ID, Msg: map[string]string{probe: fmt.Sprintf("child process died (exit %d) inside this probe", code)},
			Stack: map[string]string{probe: tail(low, 6000)}, Site: map[string]string{probe: siteOf(low)}}
		appendLine(out, r)
		appendLine(det, d)
		os.RemoveAll(filepath.Join(wdir, fmt.Sprintf("c%d", c.ID)))
		skip = cur + 1
	}
	return restarts, nil
}

// tailBuf keeps the last max bytes written to it.
type tailBuf struct {
	b   []byte
	max int
}

func (t *tailBuf) Write(p []byte) (int, error) {
	t.b = append(t.b, p...)
	if len(t.b) > 2*t.max {
		t.b = append([]byte(nil), t.b[len(t.b)-t.max:]...)
	}
	return len(p), nil
}

func (t *tailBuf) String() string { return string(t.b) }

func tail(s string, n int) string {
	if len(s) > n {
		return s[len(s)-n:]
	}
	return s
}

func appendLine(path string, v any) {
	f, err := os.OpenFile(path, os.O_APPEND|os.O_CREATE|os.O_WRONLY, 0644)
	if err != nil {
		return
	}
	b, _ := json.Marshal(v)
	f.Write(append(b, '\n'))
	f.Close()
}

func parentMain(fl runFlags) {
	exe, err := os.Executable()
	if err != nil {
		die(2, err)
	}
	cases, err := readCases(fl.cases)
	if err != nil {
		die(2, "cases:", err)
	}
	if err := os.MkdirAll(fl.work, 0755); err != nil {
		die(2, err)
	}
	fl.calFile = filepath.Join(fl.work, "calibrated")
	par := fl.par
	if par > len(cases) {
		par = len(cases)
	}
	if par < 1 {
		par = 1
	}
	slices := make([][]Case, par)
	for i, c := range cases {
		slices[i%par] = append(slices[i%par], c)
	}
	st := time.Now()
	var wg sync.WaitGroup
	errs := make([]error, par)
	restarts := make([]int, par)
	for k := 0; k < par; k++ {
		wg.Add(1)
		go func(k int) {
			defer wg.Done()
			restarts[k], errs[k] = worker(k, fl, slices[k], exe)
		}(k)
	}
	wg.Wait()
	for _, e := range errs {
		if e != nil {
			die(2, e)
		}
	}
	// merge, ordered by case id
	merge := func(pattern, dst string) int {
		type line struct {
			id int
			b  []byte
		}
		var ls []line
		for k := 0; k < par; k++ {
			b, err := os.ReadFile(filepath.Join(fl.work, fmt.Sprintf(pattern, k)))
			if err != nil {
				continue
			}
			for _, ln := range bytes.Split(b, []byte("\n")) {
				if len(bytes.TrimSpace(ln)) == 0 {
					continue
				}
				var x struct {
					ID int `json:"id"`
				}
				if json.Unmarshal(ln, &x) != nil {
					die(2, "bad line in", pattern, k)
				}
				ls = append(ls, line{x.ID, append([]byte(nil), ln...)})
			}
		}
		sort.SliceStable(ls, func(a, b int) bool { return ls[a].id < ls[b].id })
		f, err := os.Create(dst)
		if err != nil {
			die(2, err)
		}
		bw := bufio.NewWriter(f)
		for _, l := range ls {
			bw.Write(l.b)
			bw.WriteByte('\n')
		}
		bw.Flush()
		f.Close()
		return len(ls)
	}
	n := merge("out.%d.ndjson", fl.out)
	merge("detail.%d.ndjson", fl.detail)
	tot := 0
	for _, r := range restarts {
		tot += r
	}
	stats := map[string]any{"cases": len(cases), "results": n, "children": par, "restarts": tot, "wall_s": time.Since(st).Seconds()}
	b, _ := json.Marshal(stats)
	fmt.Println(string(b))
	if n != len(cases) {
		die(2, fmt.Sprintf("%d cases but %d result lines", len(cases), n))
	}
}

func main() {
	if len(os.Args) < 2 {
		die(2, "usage: corruptreplay build|run|child ...")
	}
	switch os.Args[1] {
	case "build":
		fs := flag.NewFlagSet("build", flag.ExitOnError)
		dir := fs.String("dir", "", "directory to create")
		fs.Parse(os.Args[2:])
		sh, err := buildPristine(*dir)
		if err != nil {
			die(2, "build:", err)
		}
		b, _ := json.Marshal(sh)
		fmt.Println(string(b))
	case "run", "child":
		fs := flag.NewFlagSet(os.Args[1], flag.ExitOnError)
		var fl runFlags
		fs.StringVar(&fl.pristine, "pristine", "", "pristine directory")
		fs.StringVar(&fl.cases, "cases", "", "cases ndjson")
		fs.StringVar(&fl.out, "out", "", "trace output")
		fs.StringVar(&fl.detail, "detail", "", "detail output")
		fs.StringVar(&fl.work, "work", "", "scratch directory")
		fs.StringVar(&fl.calFile, "cal", "", "calibration marker (internal)")
		fs.StringVar(&fl.progress, "progress", "", "(child) progress record")
		fs.Int64Var(&fl.seed, "seed", 1, "seed for Garbage / random payloads")
		fs.IntVar(&fl.par, "par", runtime.NumCPU(), "child processes")
		fs.IntVar(&fl.skip, "skip", 0, "(child) first case to execute")
		fs.DurationVar(&fl.watchdog, "watchdog", 20*time.Second, "per-probe watchdog")
		fs.DurationVar(&fl.rewatch, "rewatch", 10*time.Second, "watchdog of the second Open")
		fs.Int64Var(&fl.vlimitKB, "vlimit", 6<<20, "ulimit -v of the children, KiB")
		fs.Int64Var(&fl.memLimitMB, "memlimit", 1024, "debug.SetMemoryLimit of the children, MiB")
		fs.Parse(os.Args[2:])
		if os.Args[1] == "child" {
			childMain(fl)
		} else {
			parentMain(fl)
		}
	default:
		die(2, "unknown subcommand", os.Args[1])
	}
}
