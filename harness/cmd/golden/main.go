// golden: fixtures for property C09 ("directories written by the pinned version open with
// identical contents").
//
//	golden gen <outdir>      (built against the PINNED tree) writes fixture directories
//	golden verify <dir>      (built against the tree under test) opens copies of them and compares
package main

import (
	"bytes"
	"encoding/json"
	"fmt"
	"os"
	"path/filepath"
	"time"

	"github.com/hashicorp/raft"
	wal "github.com/hashicorp/raft-wal"
)

type Entry struct {
	Index      uint64
	Term       uint64
	Type       uint8
	Data       []byte
	Extensions []byte
	AppendedAt time.Time
}

type Expect struct {
	SegSize int
	First   uint64
	Last    uint64
	Entries []Entry
	Stable  map[string][]byte
	U64     map[string]uint64
}

func mk(i uint64, gen int) *raft.Log {
	n := int(i*37+uint64(gen)*11) % 90
	d := make([]byte, n)
	for k := range d {
		d[k] = byte(int(i)*7 + k + gen)
	}
	l := &raft.Log{Index: i, Term: i/3 + uint64(gen), Type: raft.LogType(i % 4), Data: d,
		AppendedAt: time.Date(2023, 1, 2, 3, 4, int(i%60), int(i)*1000, time.UTC)}
	if i%3 == 0 {
		l.Extensions = []byte{byte(i), byte(gen), 0xEE}
	}
	return l
}

type fixture struct {
	name string
	seg  int
	run  func(w *wal.WAL, model map[uint64]*raft.Log) error
}

func appendRange(w *wal.WAL, model map[uint64]*raft.Log, from, to uint64, gen int, batch int) error {
	for i := from; i <= to; {
		var b []*raft.Log
		for k := 0; k < batch && i <= to; k++ {
			l := mk(i, gen)
			b = append(b, l)
			model[i] = l
			i++
		}
		if err := w.StoreLogs(b); err != nil {
			return err
		}
	}
	return nil
}

func del(w *wal.WAL, model map[uint64]*raft.Log, a, b uint64) error {
	if err := w.DeleteRange(a, b); err != nil {
		return err
	}
	for i := a; i <= b; i++ {
		delete(model, i)
	}
	return nil
}

var fixtures = []fixture{
	{"rotations", 512, func(w *wal.WAL, m map[uint64]*raft.Log) error { return appendRange(w, m, 1, 40, 0, 3) }},
	{"high-start-head-trunc", 512, func(w *wal.WAL, m map[uint64]*raft.Log) error {
		if err := appendRange(w, m, 100, 140, 1, 2); err != nil {
			return err
		}
		if err := del(w, m, 100, 104); err != nil {
			return err
		}
		return del(w, m, 0, 121)
	}},
	{"tail-trunc-reappend", 512, func(w *wal.WAL, m map[uint64]*raft.Log) error {
		if err := appendRange(w, m, 1, 25, 2, 1); err != nil {
			return err
		}
		if err := del(w, m, 20, 25); err != nil {
			return err
		}
		if err := appendRange(w, m, 20, 33, 3, 4); err != nil {
			return err
		}
		if err := del(w, m, 31, 1000); err != nil {
			return err
		}
		return appendRange(w, m, 31, 36, 4, 2)
	}},
	{"truncate-all-restart", 1024, func(w *wal.WAL, m map[uint64]*raft.Log) error {
		if err := appendRange(w, m, 1, 12, 5, 5); err != nil {
			return err
		}
		if err := del(w, m, 1, 12); err != nil {
			return err
		}
		if err := w.Set([]byte("LastVoteCand"), []byte("node-a")); err != nil {
			return err
		}
		if err := w.SetUint64([]byte("CurrentTerm"), 42); err != nil {
			return err
		}
		return appendRange(w, m, 500, 520, 6, 3)
	}},
	{"empty-with-stable", 4096, func(w *wal.WAL, m map[uint64]*raft.Log) error {
		if err := w.Set([]byte("k1"), []byte("v1")); err != nil {
			return err
		}
		return w.SetUint64([]byte("CurrentTerm"), 7)
	}},
	{"single-large-segment", 1 << 20, func(w *wal.WAL, m map[uint64]*raft.Log) error { return appendRange(w, m, 7, 60, 7, 10) }},
}

func gen(out string) error {
	for _, f := range fixtures {
		dir := filepath.Join(out, f.name)
		os.RemoveAll(dir)
		if err := os.MkdirAll(dir, 0755); err != nil {
			return err
		}
		w, err := wal.Open(dir, wal.WithSegmentSize(f.seg))
		if err != nil {
			return err
		}
		model := map[uint64]*raft.Log{}
		if err := f.run(w, model); err != nil {
			return fmt.Errorf("%s: %v", f.name, err)
		}
		// let a pending rotation finish, then close cleanly
		w.DeleteRange(1<<62, 1<<62)
		exp := Expect{SegSize: f.seg, Stable: map[string][]byte{}, U64: map[string]uint64{}}
		exp.First, _ = w.FirstIndex()
		exp.Last, _ = w.LastIndex()
		for i := exp.First; i <= exp.Last && exp.First > 0; i++ {
			l := model[i]
			exp.Entries = append(exp.Entries, Entry{l.Index, l.Term, uint8(l.Type), l.Data, l.Extensions, l.AppendedAt})
		}
		for _, k := range []string{"LastVoteCand", "k1"} {
			if v, _ := w.Get([]byte(k)); len(v) > 0 {
				exp.Stable[k] = v
			}
		}
		if v, _ := w.GetUint64([]byte("CurrentTerm")); v > 0 {
			exp.U64["CurrentTerm"] = v
		}
		if err := w.Close(); err != nil {
			return err
		}
		b, _ := json.MarshalIndent(exp, "", " ")
		if err := os.WriteFile(filepath.Join(dir, "expect.json"), b, 0644); err != nil {
			return err
		}
	}
	return nil
}

func copyDir(src, dst string) error {
	ents, err := os.ReadDir(src)
	if err != nil {
		return err
	}
	for _, e := range ents {
		if e.Name() == "expect.json" {
			continue
		}
		b, err := os.ReadFile(filepath.Join(src, e.Name()))
		if err != nil {
			return err
		}
		if err := os.WriteFile(filepath.Join(dst, e.Name()), b, 0644); err != nil {
			return err
		}
	}
	return nil
}

func verifyOne(dir string) (problems []string) {
	defer func() {
		if p := recover(); p != nil {
			problems = append(problems, fmt.Sprintf("panic: %v", p))
		}
	}()
	var exp Expect
	b, err := os.ReadFile(filepath.Join(dir, "expect.json"))
	if err != nil {
		return []string{err.Error()}
	}
	if err := json.Unmarshal(b, &exp); err != nil {
		return []string{err.Error()}
	}
	tmp, err := os.MkdirTemp("", "verif-golden-")
	if err != nil {
		return []string{err.Error()}
	}
	defer os.RemoveAll(tmp)
	if err := copyDir(dir, tmp); err != nil {
		return []string{err.Error()}
	}
	check := func(w *wal.WAL, tag string) {
		f, _ := w.FirstIndex()
		l, _ := w.LastIndex()
		if f != exp.First || l != exp.Last {
			problems = append(problems, fmt.Sprintf("%s: first/last %d/%d, fixture has %d/%d", tag, f, l, exp.First, exp.Last))
		}
		for _, e := range exp.Entries {
			var lg raft.Log
			if err := w.GetLog(e.Index, &lg); err != nil {
				problems = append(problems, fmt.Sprintf("%s: GetLog(%d): %v", tag, e.Index, err))
				continue
			}
			if lg.Index != e.Index || lg.Term != e.Term || uint8(lg.Type) != e.Type || !bytes.Equal(lg.Data, e.Data) ||
				!bytes.Equal(lg.Extensions, e.Extensions) || !lg.AppendedAt.Equal(e.AppendedAt) {
				problems = append(problems, fmt.Sprintf("%s: entry %d differs from the fixture", tag, e.Index))
			}
		}
		var lg raft.Log
		if exp.First > 1 {
			if err := w.GetLog(exp.First-1, &lg); err != raft.ErrLogNotFound {
				problems = append(problems, fmt.Sprintf("%s: GetLog(first-1) = %v", tag, err))
			}
		}
		if err := w.GetLog(exp.Last+1, &lg); err != raft.ErrLogNotFound {
			problems = append(problems, fmt.Sprintf("%s: GetLog(last+1) = %v", tag, err))
		}
		for k, v := range exp.Stable {
			got, err := w.Get([]byte(k))
			if err != nil || !bytes.Equal(got, v) {
				problems = append(problems, fmt.Sprintf("%s: stable key %s = %q (%v)", tag, k, got, err))
			}
		}
		for k, v := range exp.U64 {
			got, err := w.GetUint64([]byte(k))
			if err != nil || got != v {
				problems = append(problems, fmt.Sprintf("%s: stable uint64 key %s = %d (%v)", tag, k, got, err))
			}
		}
	}
	w, err := wal.Open(tmp, wal.WithSegmentSize(exp.SegSize))
	if err != nil {
		return []string{"Open of the fixture failed: " + err.Error()}
	}
	check(w, "open")
	// still usable: append, reopen, compare again
	next := exp.Last + 1
	if exp.Last == 0 {
		next = 1
	}
	nl := mk(next, 9)
	if err := w.StoreLogs([]*raft.Log{nl}); err != nil {
		problems = append(problems, "append to the fixture failed: "+err.Error())
	}
	if err := w.Close(); err != nil {
		problems = append(problems, "close: "+err.Error())
	}
	w, err = wal.Open(tmp, wal.WithSegmentSize(exp.SegSize))
	if err != nil {
		return append(problems, "second Open failed: "+err.Error())
	}
	var lg raft.Log
	if err := w.GetLog(next, &lg); err != nil || !bytes.Equal(lg.Data, nl.Data) {
		problems = append(problems, fmt.Sprintf("appended entry %d not read back after reopen: %v", next, err))
	}
	if err := w.DeleteRange(next, next); err != nil {
		problems = append(problems, "DeleteRange on the fixture failed: "+err.Error())
	}
	check(w, "reopen")
	w.Close()
	return problems
}

func main() {
	switch os.Args[1] {
	case "gen":
		if err := gen(os.Args[2]); err != nil {
			fmt.Fprintln(os.Stderr, err)
			os.Exit(2)
		}
	case "verify":
		ents, err := os.ReadDir(os.Args[2])
		if err != nil {
			fmt.Fprintln(os.Stderr, err)
			os.Exit(2)
		}
		res := map[string][]string{}
		for _, e := range ents {
			if e.IsDir() {
				p := verifyOne(filepath.Join(os.Args[2], e.Name()))
				if p == nil {
					p = []string{}
				}
				res[e.Name()] = p
			}
		}
		b, _ := json.Marshal(res)
		fmt.Println(string(b))
	}
}
