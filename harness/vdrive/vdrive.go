// Package vdrive executes TLC-generated scenarios (spec/Verifier.tla) against N real
// verifier.LogStore instances and records what the real code did and reported as an
// ndjson trace that spec/VerifierTrace.tla judges (DESIGN.md 5, C16/C17/C18).
//
// Per node the stack is
//
//	verifier.LogStore -> hook (records what the middleware hands to its store, parks the
//	verifier goroutine at verify()'s first store access, injects StoreLogs failures)
//	-> rot (at-rest corruption: GetLog returns an altered entry) -> contiguous-log guard
//	-> raft.InmemStore | the real WAL in a scratch directory
//
// and a twin store (same stack without the middleware and the hook) receives the same
// calls directly (pass-through equivalence).  ReportFn is a gate under harness control:
// every delivery parks the verifier goroutine until the scenario releases it, so the
// schedule of the asynchronous verifier is deterministic.
package vdrive

import (
	"bufio"
	"bytes"
	"encoding/binary"
	"encoding/hex"
	"encoding/json"
	"errors"
	"fmt"
	"io"
	"math/rand"
	"os"
	"path/filepath"
	"runtime"
	"strings"
	"sync"
	"sync/atomic"
	"time"

	"github.com/hashicorp/raft"
	wal "github.com/hashicorp/raft-wal"
	"github.com/hashicorp/raft-wal/metrics"
	"github.com/hashicorp/raft-wal/verifier"
)

// Step is one scenario step; the fields mirror the `hist` records of spec/Verifier.tla.
type Step struct {
	Op        string   `json:"op"`
	N         int      `json:"n,omitempty"`
	From      int      `json:"from,omitempty"`
	First     uint64   `json:"first,omitempty"`
	Term      uint64   `json:"term,omitempty"`
	Kinds     []string `json:"kinds,omitempty"`
	Fail      bool     `json:"fail,omitempty"`
	K         int      `json:"k,omitempty"`
	Cp        int      `json:"cp,omitempty"`        // position in the batch hit by in-flight corruption (0 = none)
	FailAfter bool     `json:"failafter,omitempty"` // trunctail / trunchead: the store removes the range, then reports an error
	Cf        string   `json:"cf,omitempty"`
	Cm        string   `json:"cm,omitempty"`
	Min       uint64   `json:"min,omitempty"`
	Max       uint64   `json:"max,omitempty"`
	To        uint64   `json:"to,omitempty"`
	Last      uint64   `json:"last,omitempty"`
	I         uint64   `json:"i,omitempty"`
	F         string   `json:"f,omitempty"`
	M         string   `json:"m,omitempty"`
	Ok        bool     `json:"ok,omitempty"` // what the model expected (diagnostic only)
}

// Scenario is a list of steps plus how to concretise it.
type Scenario struct {
	ID      string `json:"id"`
	Backend string `json:"backend"` // inmem | wal
	Nodes   int    `json:"nodes"`
	Seed    int64  `json:"seed"`
	Auto    bool   `json:"auto"` // run every verification to completion right after it was triggered
	Steps   []Step `json:"steps"`
	// Doctor (self-test of the judge only): rewrite the error class of every recorded
	// report to this value.  Scenarios with this field never contribute to a verdict.
	Doctor string `json:"doctor,omitempty"`
}

// Out collects the trace and counters.
type Out struct {
	W         *bufio.Writer
	Events    int
	Reports   int
	Scenarios int
	Skips     int
	Hangs     int
	Errors    []string
}

func (o *Out) emit(ev map[string]any) {
	b, err := json.Marshal(ev)
	if err != nil {
		panic(err)
	}
	o.W.Write(b)
	o.W.WriteByte('\n')
	o.Events++
}

const watchdog = 10 * time.Second

// ---------------------------------------------------------------------------
// entries

func cloneLog(l *raft.Log) *raft.Log {
	c := *l
	if l.Data != nil {
		c.Data = append([]byte{}, l.Data...)
	}
	if l.Extensions != nil {
		c.Extensions = append([]byte{}, l.Extensions...)
	}
	return &c
}

func isCheckpoint(l *raft.Log) (bool, error) {
	return l.Type == raft.LogCommand && bytes.HasPrefix(l.Data, []byte("CP")), nil
}

func isMeta(ext []byte) bool {
	return len(ext) >= 24 && binary.LittleEndian.Uint64(ext[0:8]) == verifier.ExtensionMagicPrefix
}

func sameLog(a, b *raft.Log) bool {
	return a.Index == b.Index && a.Term == b.Term && a.Type == b.Type && bytes.Equal(a.Data, b.Data) &&
		bytes.Equal(a.Extensions, b.Extensions)
}

// interner maps byte strings to small integers (0 = empty) for the judge.
type interner struct {
	data map[string]int
	ext  map[string]int
	big  map[uint64]int
}

func newInterner() *interner {
	return &interner{data: map[string]int{}, ext: map[string]int{}, big: map[uint64]int{}}
}

func (in *interner) id(m map[string]int, b []byte) int {
	if len(b) == 0 {
		return 0
	}
	if v, ok := m[string(b)]; ok {
		return v
	}
	v := len(m) + 1
	m[string(b)] = v
	return v
}

func (in *interner) num(v uint64) int {
	if v < 1<<30 {
		return int(v)
	}
	if x, ok := in.big[v]; ok {
		return x
	}
	x := 1<<30 + len(in.big) + 1
	in.big[v] = x
	return x
}

// abs is the abstract view of an entry: [idx, term, type, data id, ext id, ext-is-verifier-meta, is-checkpoint]
func (in *interner) abs(l *raft.Log) []int {
	m, c := 0, 0
	if isMeta(l.Extensions) {
		m = 1
	}
	if ok, _ := isCheckpoint(l); ok {
		c = 1
	}
	return []int{in.num(l.Index), in.num(l.Term), int(l.Type), in.id(in.data, l.Data), in.id(in.ext, l.Extensions), m, c}
}

var missing = []int{-1, 0, 0, 0, 0, 0, 0}

// ---------------------------------------------------------------------------
// single-field alterations (spec/Verifier.tla Alter), concretised as bit flips,
// truncation / extension, replacement

// laneCount spreads the bit flips of the integer fields over all eight bytes of the value deterministically (every lane,
// bit 63 included, is hit within eight alterations): "any single-field mutation", not the bits a random draw favours.
var laneCount uint32

func laneBit(rng *rand.Rand) uint {
	lane := uint(atomic.AddUint32(&laneCount, 1)-1) % 8
	return lane*8 + uint(rng.Intn(8))
}

func alter(l *raft.Log, f, m string, rng *rand.Rand) *raft.Log {
	c := cloneLog(l)
	if strings.HasPrefix(m, "lane") && len(m) == 5 && (f == "i" || f == "t") {
		// harness-only variants of alt2: one bit of a chosen byte of the value (lane 7 = the most significant byte)
		bit := uint(m[4]-'0')*8 + uint(rng.Intn(8))
		if f == "t" {
			c.Term ^= 1 << bit
		} else {
			if bit == 0 {
				bit = 1
			}
			c.Index ^= 1 << bit
		}
		return c
	}
	switch f {
	case "i":
		if m == "alt1" {
			if c.Index == 1 {
				c.Index = 2
			} else {
				c.Index = 1
			}
		} else if m == "alt2" {
			c.Index++
		} else { // alt3 (harness only): wild values
			if rng.Intn(2) == 0 {
				c.Index ^= 1 << (1 + laneBit(rng)%63)
			} else {
				c.Index += 2 + uint64(rng.Intn(5))
			}
		}
	case "t":
		if m == "alt1" {
			c.Term = 0
		} else {
			if rng.Intn(4) == 0 {
				c.Term++
			} else {
				c.Term ^= 1 << laneBit(rng)
			}
		}
	case "y":
		if rng.Intn(3) == 0 {
			c.Type ^= raft.LogType(1 << uint(2+rng.Intn(6))) // a value that is no known log type
		} else if c.Type == raft.LogCommand {
			c.Type = raft.LogConfiguration
		} else {
			c.Type = raft.LogCommand
		}
	case "d":
		cp, _ := isCheckpoint(c)
		switch {
		case cp && m == "alt1": // no longer a checkpoint: one bit of the marker
			c.Data[rng.Intn(2)] ^= 1 << uint(rng.Intn(8))
		case cp: // still a checkpoint, other payload
			if len(c.Data) > 2 && rng.Intn(2) == 0 {
				c.Data[2+rng.Intn(len(c.Data)-2)] ^= 1 << uint(rng.Intn(8))
			} else {
				c.Data = append(c.Data, byte(rng.Intn(256)))
			}
		case m == "alt2": // an ordinary entry that now looks like a checkpoint
			c.Data = append([]byte("CP!"), c.Data...)
		default:
			c.Data = mutateBytes(c.Data, rng, func(b []byte) bool { return !bytes.HasPrefix(b, []byte("CP")) })
		}
	case "e":
		switch {
		case len(c.Extensions) == 0:
			c.Extensions = foreignExt(rng)
		case !isMeta(c.Extensions):
			c.Extensions = nil
		case m == "alt1": // destroy the magic prefix
			c.Extensions[rng.Intn(8)] ^= 1 << uint(rng.Intn(8))
		default: // alter the recorded sum
			c.Extensions[16+rng.Intn(8)] ^= 1 << uint(rng.Intn(8))
		}
	}
	return c
}

func mutateBytes(b []byte, rng *rand.Rand, ok func([]byte) bool) []byte {
	for try := 0; ; try++ {
		c := append([]byte{}, b...)
		k := rng.Intn(4)
		switch {
		case len(c) == 0 || k == 0: // extension
			c = append(c, byte(rng.Intn(256)))
		case k == 1: // truncation
			c = c[:len(c)-1]
		case k == 2: // bit flip
			c[rng.Intn(len(c))] ^= 1 << uint(rng.Intn(8))
		default: // prepend
			c = append([]byte{byte(rng.Intn(256))}, c...)
		}
		if !bytes.Equal(c, b) && ok(c) {
			return c
		}
		if try > 50 {
			return append(append([]byte{}, b...), 'x')
		}
	}
}

func foreignExt(rng *rand.Rand) []byte {
	n := []int{1, 7, 23, 24, 25, 40}[rng.Intn(6)]
	b := make([]byte, n)
	rng.Read(b)
	if isMeta(b) {
		b[0] ^= 0xff
	}
	if b[0] == 0 { // keep it non-empty looking
		b[0] = 0x0a
	}
	return b
}

// ---------------------------------------------------------------------------
// store wrappers

// contig makes raft.InmemStore a contiguous log (the contract of the WAL).
type contig struct{ raft.LogStore }

func (c *contig) StoreLogs(logs []*raft.Log) error {
	last, err := c.LogStore.LastIndex()
	if err != nil {
		return err
	}
	for k, l := range logs {
		if k == 0 && last != 0 && l.Index != last+1 {
			return fmt.Errorf("non-monotonic log entries: tried to append index %d after %d", l.Index, last)
		}
		if k > 0 && l.Index != logs[k-1].Index+1 {
			return fmt.Errorf("non-monotonic log entries: %d after %d", l.Index, logs[k-1].Index)
		}
		if l.Index == 0 {
			return errors.New("index 0")
		}
	}
	return c.LogStore.StoreLogs(logs)
}
func (c *contig) StoreLog(l *raft.Log) error { return c.StoreLogs([]*raft.Log{l}) }

// rot returns an altered entry for chosen indexes (at-rest corruption).
type rot struct {
	raft.LogStore
	mu   sync.Mutex
	bad  map[uint64][2]string
	memo map[uint64]*raft.Log // index -> (original, altered) memo so that the damage is stable
	orig map[uint64]*raft.Log
	seed int64
}

func (r *rot) GetLog(idx uint64, out *raft.Log) error {
	if err := r.LogStore.GetLog(idx, out); err != nil {
		return err
	}
	r.mu.Lock()
	defer r.mu.Unlock()
	fm, ok := r.bad[idx]
	if !ok {
		return nil
	}
	if fm[0] == "w" {
		// whole records exchanged with the neighbour (fm[1] = "lo": the next index, "hi": the previous one)
		other := idx + 1
		if fm[1] == "hi" {
			other = idx - 1
		}
		var o raft.Log
		if err := r.LogStore.GetLog(other, &o); err != nil {
			return nil // the neighbour is gone: nothing to exchange with
		}
		*out = *cloneLog(&o)
		return nil
	}
	if o, ok := r.orig[idx]; !ok || !sameLog(o, out) {
		r.orig[idx] = cloneLog(out)
		r.memo[idx] = alter(out, fm[0], fm[1], rand.New(rand.NewSource(r.seed+int64(idx)*7919)))
	}
	*out = *cloneLog(r.memo[idx])
	return nil
}

// hook sits directly under the middleware.
type hook struct {
	raft.LogStore
	nd       *node
	failNext bool
	// failDelAfter: the next DeleteRange removes the range and THEN reports an error (a store that fails after it has
	// applied the call - the caller cannot know how far it got)
	failDelAfter bool
	closer       io.Closer
}

func (h *hook) StoreLogs(logs []*raft.Log) error {
	if h.failNext {
		h.failNext = false
		return errors.New("injected StoreLogs failure")
	}
	if err := h.LogStore.StoreLogs(logs); err != nil {
		return err
	}
	for _, l := range logs {
		h.nd.written[l.Index] = cloneLog(l)
		h.nd.wroteEver[l.Index] = append(h.nd.wroteEver[l.Index], cloneLog(l))
	}
	return nil
}
func (h *hook) StoreLog(l *raft.Log) error { return h.StoreLogs([]*raft.Log{l}) }

func (h *hook) DeleteRange(min, max uint64) error {
	err := h.LogStore.DeleteRange(min, max)
	if err == nil {
		for i := range h.nd.written {
			if i >= min && i <= max {
				delete(h.nd.written, i)
			}
		}
		if h.failDelAfter {
			h.failDelAfter = false
			return errors.New("injected DeleteRange failure (after the range was removed)")
		}
	}
	return err
}

// FirstIndex parks the caller when it is verify() (the first store access of a verification).
func (h *hook) FirstIndex() (uint64, error) {
	if calledFromVerify() {
		h.nd.arrive <- arrival{kind: "verify"}
		<-h.nd.release
	}
	return h.LogStore.FirstIndex()
}

func (h *hook) Close() error {
	if h.closer != nil {
		return h.closer.Close()
	}
	return nil
}

func calledFromVerify() bool {
	pc := make([]uintptr, 16)
	n := runtime.Callers(2, pc)
	fr := runtime.CallersFrames(pc[:n])
	for {
		f, more := fr.Next()
		if strings.HasSuffix(f.Function, "verifier.(*LogStore).verify") {
			return true
		}
		if !more {
			return false
		}
	}
}

// ---------------------------------------------------------------------------
// nodes

type arrival struct {
	kind string // verify | report
	rep  verifier.VerificationReport
}

type trigger struct {
	s, e  uint64
	tok   bool
	truth []*raft.Log
	cp    *raft.Log
}

type node struct {
	id      int
	backend string
	dir     string
	seed    int64

	base, twinBase raft.LogStore // Inmem or WAL
	rotS, rotT     *rot
	hk             *hook
	twin           raft.LogStore
	mw             *verifier.LogStore
	mc             *metrics.AtomicCollector

	written   map[uint64]*raft.Log   // what the store holds, as the middleware handed it over
	wroteEver map[uint64][]*raft.Log // everything handed over by this incarnation, per index

	arrive  chan arrival
	release chan struct{}
	state   string // idle | verify | report
	pending *verifier.VerificationReport
	inChan  int
	gate    bool // ReportFn blocks
	ndeliv  int
	lastVer uint64
}

type truthRec struct {
	s, e uint64
	ok   bool
	ents []*raft.Log
	cp   *raft.Log
}

type run struct {
	sc    Scenario
	out   *Out
	in    *interner
	rng   *rand.Rand
	nodes []*node
	truth map[[2]uint64]*truthRec
	root  string
	dead  bool
}

func (r *run) openBase(dir string) (raft.LogStore, io.Closer, error) {
	if r.sc.Backend == "wal" {
		w, err := wal.Open(dir, wal.WithSegmentSize(4096))
		if err != nil {
			return nil, nil, err
		}
		return w, w, nil
	}
	return nil, nil, nil
}

func (r *run) newNode(id int) (*node, error) {
	nd := &node{id: id, backend: r.sc.Backend, seed: r.sc.Seed*131 + int64(id), written: map[uint64]*raft.Log{},
		wroteEver: map[uint64][]*raft.Log{}, arrive: make(chan arrival, 4), release: make(chan struct{}), state: "idle"}
	if r.sc.Backend == "wal" {
		nd.dir = filepath.Join(r.root, fmt.Sprintf("n%d", id))
		if err := os.MkdirAll(filepath.Join(nd.dir, "a"), 0o755); err != nil {
			return nil, err
		}
		if err := os.MkdirAll(filepath.Join(nd.dir, "t"), 0o755); err != nil {
			return nil, err
		}
	} else {
		nd.base = &contig{raft.NewInmemStore()}
		nd.twinBase = &contig{raft.NewInmemStore()}
	}
	nd.rotS = &rot{bad: map[uint64][2]string{}, memo: map[uint64]*raft.Log{}, orig: map[uint64]*raft.Log{}, seed: nd.seed}
	nd.rotT = &rot{bad: map[uint64][2]string{}, memo: map[uint64]*raft.Log{}, orig: map[uint64]*raft.Log{}, seed: nd.seed}
	if err := r.start(nd); err != nil {
		return nil, err
	}
	return nd, nil
}

// start (re)creates the middleware over the node's store.
func (r *run) start(nd *node) error {
	var closer io.Closer
	if nd.backend == "wal" {
		b, c, err := r.openBase(filepath.Join(nd.dir, "a"))
		if err != nil {
			return err
		}
		nd.base, closer = b, c
		t, _, err := r.openBase(filepath.Join(nd.dir, "t"))
		if err != nil {
			return err
		}
		nd.twinBase = t
	}
	nd.rotS.LogStore = nd.base
	nd.rotT.LogStore = nd.twinBase
	nd.twin = nd.rotT
	nd.hk = &hook{LogStore: nd.rotS, nd: nd, closer: closer}
	nd.mc = metrics.NewAtomicCollector(verifier.MetricDefinitions)
	nd.wroteEver = map[uint64][]*raft.Log{}
	nd.state, nd.pending, nd.inChan, nd.ndeliv, nd.lastVer = "idle", nil, 0, 0, 0
	nd.mw = verifier.NewLogStore(nd.hk, isCheckpoint, func(rep verifier.VerificationReport) {
		nd.arrive <- arrival{kind: "report", rep: rep}
		<-nd.release
	}, nd.mc)
	return nil
}

func (nd *node) met() []int {
	s := nd.mc.Summary().Counters
	return []int{int(s["checkpoints_written"]), int(s["dropped_reports"]), int(s["ranges_verified"]),
		int(s["write_checksum_failures"]), int(s["read_checksum_failures"])}
}

var errWatchdog = errors.New("watchdog")

// await waits for the verifier goroutine to park at one of the gates.
func (r *run) await(nd *node) error {
	select {
	case a := <-nd.arrive:
		if a.kind == "verify" {
			nd.state = "verify"
		} else {
			nd.state = "report"
			rep := a.rep
			nd.pending = &rep
		}
		return nil
	case <-time.After(watchdog):
		return errWatchdog
	}
}

func errClass(err error) string {
	var cm verifier.ErrChecksumMismatch
	switch {
	case err == nil:
		return "ok"
	case errors.Is(err, verifier.ErrRangeMismatch):
		return "range"
	case errors.As(err, &cm):
		if strings.Contains(err.Error(), "in-flight corruption") {
			return "inflight"
		}
		if strings.Contains(err.Error(), "storage corruption") {
			return "storage"
		}
		return "mismatch"
	}
	return "other"
}

// finish lets the parked verification read the store and records the delivered report
// together with the ground truth at this moment.
func (r *run) finish(nd *node) error {
	if nd.state == "verify" {
		nd.release <- struct{}{}
		if err := r.await(nd); err != nil {
			return err
		}
		if nd.state != "report" {
			return fmt.Errorf("verifier parked twice in verify()")
		}
	}
	if nd.state != "report" || nd.pending == nil {
		return nil
	}
	rep := nd.pending
	nd.pending = nil
	nd.ndeliv++
	r.out.Reports++
	ev := map[string]any{"ev": "report", "n": nd.id, "s": r.in.num(rep.Range.Start), "e": r.in.num(rep.Range.End),
		"err": errClass(rep.Err), "wz": rep.WrittenSum == 0, "we": rep.WrittenSum == rep.ExpectedSum,
		"re": rep.ReadSum == rep.ExpectedSum}
	if r.sc.Doctor != "" {
		ev["err"] = r.sc.Doctor
	}
	if rep.Err != nil {
		ev["msg"] = rep.Err.Error()
	} else {
		ev["msg"] = ""
	}
	if rep.SkippedRange != nil {
		ev["sk"] = []int{r.in.num(rep.SkippedRange.Start), r.in.num(rep.SkippedRange.End)}
	} else {
		ev["sk"] = []int{}
	}
	first, _ := nd.hk.LogStore.FirstIndex()
	last, _ := nd.hk.LogStore.LastIndex()
	ev["first"], ev["last"] = r.in.num(first), r.in.num(last)
	read := [][]int{}
	wrote := [][]int{}
	cur := [][]int{} // what the store holds for the range, as this node handed it over
	if rep.Range.Start <= rep.Range.End && rep.Range.End-rep.Range.Start <= 4096 {
		for i := rep.Range.Start; i <= rep.Range.End; i++ {
			if i < rep.Range.End {
				var l raft.Log
				if err := nd.hk.LogStore.GetLog(i, &l); err != nil {
					read = append(read, missing)
				} else {
					read = append(read, r.in.abs(&l))
				}
				if w := nd.written[i]; w != nil {
					cur = append(cur, r.in.abs(w))
				} else {
					cur = append(cur, missing)
				}
			}
			for _, w := range nd.wroteEver[i] {
				wrote = append(wrote, r.in.abs(w))
			}
		}
	}
	ev["read"], ev["wrote"], ev["cur"] = read, wrote, cur
	var cpl raft.Log
	if err := nd.hk.LogStore.GetLog(rep.Range.End, &cpl); err != nil {
		ev["cpread"] = missing
	} else {
		ev["cpread"] = r.in.abs(&cpl)
	}
	ev["met"] = nd.met()
	r.out.emit(ev)
	return nil
}

// ret releases the ReportFn callback and waits until runVerifier is back at its receive
// (or parked again with the report that was waiting in the channel).
func (r *run) ret(nd *node) error {
	if nd.state != "report" || nd.pending != nil {
		return nil
	}
	nd.release <- struct{}{}
	dl := time.Now().Add(watchdog)
	for {
		v := nd.mc.Summary().Counters["ranges_verified"]
		if v > nd.lastVer {
			nd.lastVer = v
			break
		}
		if time.Now().After(dl) {
			return errWatchdog
		}
		time.Sleep(20 * time.Microsecond)
	}
	nd.state = "idle"
	if nd.inChan > 0 {
		nd.inChan--
		return r.await(nd)
	}
	return nil
}

// drain runs the node's verifier until nothing is pending (gate permitting).
func (r *run) drain(nd *node, force bool) error {
	for nd.state != "idle" {
		if err := r.finish(nd); err != nil {
			return err
		}
		if nd.gate && !force {
			return nil
		}
		if err := r.ret(nd); err != nil {
			return err
		}
	}
	return nil
}

// ---------------------------------------------------------------------------
// operations

// callStore runs StoreLogs in its own goroutine so that a call that never returns is observed.
func callStore(s raft.LogStore, logs []*raft.Log) (string, string) {
	done := make(chan error, 1)
	go func() { done <- s.StoreLogs(logs) }()
	select {
	case err := <-done:
		if err != nil {
			return "err", err.Error()
		}
		return "ok", ""
	case <-time.After(watchdog):
		return "hang", "StoreLogs did not return"
	}
}

func (r *run) store(nd *node, logs []*raft.Log, role string, srcKeys [][2]uint64, fail bool) error {
	handed := make([]*raft.Log, len(logs))
	foreign := false
	for i, l := range logs {
		handed[i] = cloneLog(l)
		if cp, _ := isCheckpoint(l); cp && len(l.Extensions) > 0 && !isMeta(l.Extensions) {
			foreign = true
		}
	}
	last, _ := nd.hk.LogStore.LastIndex()
	noncontig := false
	for k, l := range logs {
		if (k == 0 && last != 0 && l.Index != last+1) || (k > 0 && l.Index != logs[k-1].Index+1) || l.Index == 0 {
			noncontig = true
		}
	}
	blocked := nd.state == "report"
	before := nd.met()
	nd.hk.failNext = fail
	res, msg := callStore(nd.mw, logs)
	nd.hk.failNext = false
	ev := map[string]any{"ev": "store", "n": nd.id, "role": role, "res": res, "msg": msg, "foreign": foreign,
		"fail": fail, "noncontig": noncontig, "blocked": blocked, "vstate": nd.state}
	ents := [][]int{}
	for _, l := range handed {
		ents = append(ents, r.in.abs(l))
	}
	ev["ents"] = ents
	// the twin receives the same call unless the middleware had to refuse it
	tres := "skip"
	if !foreign {
		if fail {
			tres = "err"
		} else {
			tl := make([]*raft.Log, len(handed))
			for i, l := range handed {
				tl[i] = cloneLog(l)
			}
			tres, _ = callStore(nd.twin, tl)
		}
	}
	ev["tres"] = tres
	cps := []map[string]any{}
	if res == "hang" {
		r.out.Hangs++
		r.dead = true
	}
	if res == "ok" {
		for k, l := range logs {
			if cp, _ := isCheckpoint(handed[k]); !cp {
				continue
			}
			// after the call the entry carries the metadata the middleware used
			w := nd.written[l.Index]
			if w == nil || !isMeta(w.Extensions) {
				r.out.Errors = append(r.out.Errors, fmt.Sprintf("%s: stored checkpoint %d without metadata", r.sc.ID, l.Index))
				continue
			}
			s := binary.LittleEndian.Uint64(w.Extensions[8:16])
			t := map[string]any{"s": r.in.num(s), "e": r.in.num(l.Index), "tok": false, "truth": [][]int{}, "cp": missing}
			if role == "leader" && len(handed[k].Extensions) == 0 {
				tr := &truthRec{s: s, e: l.Index, ok: true, cp: cloneLog(w)}
				for i := s; i < l.Index; i++ {
					x := nd.written[i]
					if x == nil {
						tr.ok = false
						break
					}
					tr.ents = append(tr.ents, cloneLog(x))
				}
				r.truth[[2]uint64{l.Index, l.Term}] = tr
			}
			var tr *truthRec
			if srcKeys != nil {
				tr = r.truth[srcKeys[k]]
			} else {
				tr = r.truth[[2]uint64{l.Index, l.Term}]
			}
			if tr != nil && tr.ok {
				t["tok"] = true
				t["ts"], t["te"] = r.in.num(tr.s), r.in.num(tr.e)
				tt := [][]int{}
				for _, x := range tr.ents {
					tt = append(tt, r.in.abs(x))
				}
				t["truth"] = tt
				t["cp"] = r.in.abs(tr.cp)
			} else {
				t["ts"], t["te"] = 0, 0
			}
			cps = append(cps, t)
		}
	}
	ev["cps"] = cps
	after := nd.met()
	ev["met"] = after
	r.out.emit(ev)
	if res != "ok" {
		return nil
	}
	// mirror of the channel: what was sent goes to the idle goroutine first, then to the buffer
	sent := (after[0] - before[0]) - (after[1] - before[1])
	if sent > 0 && nd.state == "idle" {
		if err := r.await(nd); err != nil {
			return err
		}
		sent--
	}
	nd.inChan += sent
	if nd.inChan > 1 || nd.inChan < 0 || sent < 0 {
		return fmt.Errorf("channel mirror out of range: inChan=%d sent=%d", nd.inChan, sent)
	}
	return nil
}

func (r *run) del(nd *node, min, max uint64, kind string) {
	injected := nd.hk.failDelAfter
	err := nd.mw.DeleteRange(min, max)
	terr := nd.twin.DeleteRange(min, max)
	if injected && terr == nil {
		terr = errors.New("the same injected failure") // the twin is the same store with the same fault: removed, error
	}
	ev := map[string]any{"ev": "del", "n": nd.id, "min": r.in.num(min), "max": r.in.num(max), "kind": kind,
		"res": okErr(err), "tres": okErr(terr), "vstate": nd.state}
	r.out.emit(ev)
}

func okErr(err error) string {
	if err != nil {
		return "err"
	}
	return "ok"
}

// probe compares every read through the middleware with the twin.
func (r *run) probe(nd *node) {
	first, e1 := nd.mw.FirstIndex()
	last, e2 := nd.mw.LastIndex()
	tf, e3 := nd.twin.FirstIndex()
	tl, e4 := nd.twin.LastIndex()
	ev := map[string]any{"ev": "probe", "n": nd.id, "first": r.in.num(first), "last": r.in.num(last), "tfirst": r.in.num(tf),
		"tlast": r.in.num(tl), "errs": (e1 != nil) != (e3 != nil) || (e2 != nil) != (e4 != nil)}
	lo, hi := first, last
	if tf < lo {
		lo = tf
	}
	if tl > hi {
		hi = tl
	}
	if lo > 0 {
		lo--
	}
	hi++
	if hi-lo > 4096 {
		hi = lo + 4096
	}
	mwl, twl := [][]int{}, [][]int{}
	for i := lo; i <= hi; i++ {
		var a, b raft.Log
		ea := nd.mw.GetLog(i, &a)
		eb := nd.twin.GetLog(i, &b)
		if ea != nil {
			mwl = append(mwl, missing)
		} else {
			mwl = append(mwl, r.in.abs(&a))
		}
		if eb != nil {
			twl = append(twl, missing)
		} else {
			twl = append(twl, r.in.abs(&b))
		}
	}
	ev["mw"], ev["tw"], ev["lo"] = mwl, twl, r.in.num(lo)
	ev["mono"] = nd.mw.IsMonotonic()
	r.out.emit(ev)
}

func (r *run) data(kind string, idx, term uint64) []byte {
	switch kind {
	case "cp", "cpf":
		if r.rng.Intn(4) == 0 {
			return []byte("CP")
		}
		return []byte(fmt.Sprintf("CP:%d:%d:%s", idx, term, r.hex(r.rng.Intn(6))))
	case "cfg":
		return []byte(fmt.Sprintf("cfg:%d:%d:%s", idx, term, r.hex(r.rng.Intn(6))))
	}
	if r.rng.Intn(8) == 0 {
		return nil
	}
	return []byte(fmt.Sprintf("a:%d:%d:%s", idx, term, r.hex(r.rng.Intn(12))))
}

func (r *run) hex(n int) string {
	b := make([]byte, n)
	r.rng.Read(b)
	return hex.EncodeToString(b)
}

func (r *run) node(id int) *node {
	if id < 1 || id > len(r.nodes) {
		return nil
	}
	return r.nodes[id-1]
}

func (r *run) skip(st Step, why string) {
	r.out.Skips++
	r.out.emit(map[string]any{"ev": "note", "what": "skip", "op": st.Op, "why": why})
}

func (r *run) step(st Step) error {
	nd := r.node(st.N)
	switch st.Op {
	case "boot":
		// every node writes its own bootstrap configuration entry at index 1
		for _, x := range r.nodes {
			l := &raft.Log{Index: 1, Term: 1, Type: raft.LogConfiguration, Data: []byte(fmt.Sprintf("boot:%d:%s", x.id, r.hex(3)))}
			if err := r.store(x, []*raft.Log{l}, "boot", nil, false); err != nil {
				return err
			}
			r.probe(x)
		}
	case "append":
		if nd == nil {
			return fmt.Errorf("no node %d", st.N)
		}
		logs := make([]*raft.Log, len(st.Kinds))
		for p, k := range st.Kinds {
			idx := st.First + uint64(p)
			l := &raft.Log{Index: idx, Term: st.Term, Type: raft.LogCommand, Data: r.data(k, idx, st.Term)}
			if k == "cfg" {
				l.Type = raft.LogConfiguration
			}
			if k == "cpf" {
				l.Extensions = foreignExt(r.rng)
			}
			logs[p] = l
		}
		if err := r.store(nd, logs, "leader", nil, st.Fail); err != nil {
			return err
		}
		r.probe(nd)
	case "repl":
		src := r.node(st.From)
		if nd == nil || src == nil {
			return fmt.Errorf("no node %d/%d", st.N, st.From)
		}
		logs := make([]*raft.Log, 0, st.K)
		keys := make([][2]uint64, 0, st.K)
		for p := 0; p < st.K; p++ {
			var l raft.Log
			idx := st.First + uint64(p)
			if err := src.mw.GetLog(idx, &l); err != nil {
				r.skip(st, "leader lacks entry")
				return nil
			}
			c := cloneLog(&l)
			if st.Cp == p+1 {
				c = alter(c, st.Cf, st.Cm, r.rng)
			}
			logs = append(logs, c)
			k := [2]uint64{idx, 0}
			if w := src.written[idx]; w != nil {
				k[1] = w.Term
			}
			keys = append(keys, k)
		}
		if err := r.store(nd, logs, "follower", keys, st.Fail); err != nil {
			return err
		}
		r.probe(nd)
	case "leader", "take":
		// bookkeeping of the model only
	case "trunctail", "trunchead":
		nd.hk.failDelAfter = st.FailAfter
		r.del(nd, st.Min, st.Max, st.Op)
		nd.hk.failDelAfter = false
		r.probe(nd)
	case "snap":
		first, _ := nd.mw.FirstIndex()
		last, _ := nd.mw.LastIndex()
		if last != 0 {
			r.del(nd, first, last, "snap")
		}
		r.probe(nd)
	case "restart":
		if err := r.drain(nd, true); err != nil {
			return err
		}
		nd.gate = false
		r.quiesce(nd)
		if err := r.stop(nd); err != nil {
			return err
		}
		if err := r.start(nd); err != nil {
			return err
		}
		r.out.emit(map[string]any{"ev": "restart", "n": nd.id})
		r.probe(nd)
	case "rot":
		for _, rs := range []*rot{nd.rotS, nd.rotT} {
			rs.mu.Lock()
			if st.F == "w" {
				rs.bad[st.I] = [2]string{"w", "lo"}
				rs.bad[st.I+1] = [2]string{"w", "hi"}
			} else {
				rs.bad[st.I] = [2]string{st.F, st.M}
			}
			rs.mu.Unlock()
		}
		r.out.emit(map[string]any{"ev": "note", "what": "rot", "n": nd.id, "i": int(st.I), "f": st.F, "m": st.M})
		if st.F == "w" {
			r.out.emit(map[string]any{"ev": "note", "what": "rot", "n": nd.id, "i": int(st.I) + 1, "f": st.F, "m": st.M})
		}
		r.probe(nd)
	case "finish":
		if nd.state == "idle" {
			r.skip(st, "verifier idle")
			return nil
		}
		if err := r.finish(nd); err != nil {
			return err
		}
		if !nd.gate {
			return r.ret(nd)
		}
	case "block":
		nd.gate = true
	case "unblock":
		nd.gate = false
		if nd.state == "report" && nd.pending == nil {
			return r.ret(nd)
		}
	default:
		return fmt.Errorf("unknown op %q", st.Op)
	}
	return nil
}

func (r *run) quiesce(nd *node) {
	r.out.emit(map[string]any{"ev": "quiesce", "n": nd.id, "met": nd.met(), "ndeliv": nd.ndeliv})
}

func (r *run) stop(nd *node) error {
	if err := nd.mw.Close(); err != nil {
		return err
	}
	if c, ok := nd.twinBase.(io.Closer); ok {
		return c.Close()
	}
	return nil
}

// RunScenario executes one scenario; harness-level failures are returned (inconclusive).
func RunScenario(sc Scenario, out *Out) (err error) {
	r := &run{sc: sc, out: out, in: newInterner(), rng: rand.New(rand.NewSource(sc.Seed)), truth: map[[2]uint64]*truthRec{}}
	if sc.Nodes < 1 {
		sc.Nodes = 2
	}
	out.Scenarios++
	out.emit(map[string]any{"ev": "reset", "id": sc.ID, "nodes": sc.Nodes, "backend": sc.Backend, "doctor": sc.Doctor != ""})
	if sc.Backend == "wal" {
		r.root, err = os.MkdirTemp("", "verifreplay-")
		if err != nil {
			return err
		}
		defer os.RemoveAll(r.root)
	}
	for i := 1; i <= sc.Nodes; i++ {
		nd, err := r.newNode(i)
		if err != nil {
			return err
		}
		r.nodes = append(r.nodes, nd)
	}
	defer func() {
		for _, nd := range r.nodes {
			if r.dead {
				continue // goroutines are stuck; leave them
			}
			// unpark whatever is parked so that Close can end the goroutine
			nd.gate = false
			if e := r.drain(nd, true); e != nil && err == nil {
				err = e
			}
			if e := r.stop(nd); e != nil && err == nil {
				err = e
			}
		}
	}()
	for _, st := range sc.Steps {
		if r.dead {
			break
		}
		if err := r.step(st); err != nil {
			return fmt.Errorf("%s: step %s: %w", sc.ID, st.Op, err)
		}
		if sc.Auto {
			for _, nd := range r.nodes {
				if err := r.drain(nd, false); err != nil {
					return fmt.Errorf("%s: drain: %w", sc.ID, err)
				}
			}
		}
	}
	if r.dead {
		return nil
	}
	// settle: open every gate, let every verification finish, then account
	for _, nd := range r.nodes {
		nd.gate = false
		if err := r.drain(nd, true); err != nil {
			return fmt.Errorf("%s: settle: %w", sc.ID, err)
		}
		r.quiesce(nd)
		r.probe(nd)
	}
	return nil
}

// LoadScenarios reads an ndjson file of scenarios.
func LoadScenarios(path string) ([]Scenario, error) {
	f, err := os.Open(path)
	if err != nil {
		return nil, err
	}
	defer f.Close()
	var out []Scenario
	sc := bufio.NewScanner(f)
	sc.Buffer(make([]byte, 1<<20), 1<<26)
	for sc.Scan() {
		ln := bytes.TrimSpace(sc.Bytes())
		if len(ln) == 0 {
			continue
		}
		var s Scenario
		if err := json.Unmarshal(ln, &s); err != nil {
			return nil, fmt.Errorf("scenario: %w", err)
		}
		out = append(out, s)
	}
	return out, sc.Err()
}
