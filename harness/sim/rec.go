// Package sim implements the in-memory filesystem and metadata store that the
// verification harness puts underneath the real raft-wal code. It is the Go
// counterpart of spec/Disk.tla: every VFS / MetaStore call is recorded as one
// event (one spec action), and the durable state at any event boundary is a pure
// function of (initial image, event log prefix, crash choice), see model.go.
package sim

import (
	"bytes"
	"errors"
	"fmt"
	"runtime"
	"strconv"
	"sync"

	"github.com/hashicorp/raft-wal/types"
)

// ErrFrozen is returned by every call after the world has been stopped (crash).
var ErrFrozen = errors.New("sim: world is frozen (crashed)")

// ErrInjected is the error returned by an injected fault.
var ErrInjected = errors.New("sim: injected I/O fault")

// Ev is one recorded call. Seq is the ordinal of the call within its run and is
// the unit crash points and fault points are expressed in.
type Ev struct {
	Seq  int    `json:"seq"`
	Src  string `json:"src"`  // vfs | meta | api
	Call string `json:"call"` // create write sync unlink dirsync openr openw list mload mcommit sset sget mclose inv ret
	Name string `json:"name,omitempty"`
	Off  int64  `json:"off,omitempty"`
	N    int    `json:"n,omitempty"` // bytes written / size requested
	Res  string `json:"res"`         // ok | err
	BG   bool   `json:"bg,omitempty"`
	Op   string `json:"op,omitempty"` // api markers: operation description

	Data []byte                 `json:"-"` // write payload (copy)
	Meta *types.PersistentState `json:"-"` // mcommit payload
	Key  string                 `json:"-"`
	Val  []byte                 `json:"-"`
	Del  bool                   `json:"-"` // sset with nil value
	Names []string              `json:"-"` // list: the directory listing handed to the caller
}

// Fault describes an injected failure of the call with ordinal Seq.
type Fault struct {
	Kind string // "transient" (this call only) | "persistent" (this and every later mutating call)
	// For write calls: how many bytes reach the page cache before the error (-1 = none).
	Prefix int
	// For sync calls: whether the data nevertheless became durable.
	SyncApplied bool
}

// Recorder is shared by FS and Meta of one run.
type Recorder struct {
	mu     sync.Mutex
	cond   *sync.Cond
	Log    []Ev
	frozen bool

	// Gating of background goroutines (the rotation goroutine): when Gate is
	// true, calls arriving from a goroutine other than the driver block until
	// bgOpen.
	Gate      bool
	driverGID int64
	bgOpen    bool
	bgSeen    int // number of background calls that have passed the gate

	// Fault injection.
	Faults     map[int]Fault
	persistent bool // a persistent fault has fired
	injected   int  // number of calls failed by injection
	cleared    bool // ClearFaults was called
	NoFaultSrc map[string]bool

	// StopAt >= 0: freeze the world right before the call with this ordinal.
	StopAt int
	// Stopped is closed when StopAt fired.
	stoppedOnce sync.Once
	Stopped     chan struct{}

	// SyncHook, when set, is invoked (outside the lock) before a sync takes
	// effect; used as a schedule point by the concurrency drivers.
	SyncHook func(name string)
	// ReadHook, when set, is invoked (outside any lock) before a ReadAt copies: a gate between the reads of one call.
	ReadHook func(name string, off int64, n int)
	// ReadDoneHook, when set, is invoked (outside any lock) after a ReadAt has copied: a gate between a read and the use
	// the caller makes of what it read.
	ReadDoneHook func(name string, off int64, n int)
}

func NewRecorder() *Recorder {
	r := &Recorder{StopAt: -1, Stopped: make(chan struct{}), Faults: map[int]Fault{}}
	r.cond = sync.NewCond(&r.mu)
	r.driverGID = gid()
	return r
}

func gid() int64 {
	var buf [64]byte
	n := runtime.Stack(buf[:], false)
	// "goroutine 123 [running]:..."
	b := buf[:n]
	b = bytes.TrimPrefix(b, []byte("goroutine "))
	i := bytes.IndexByte(b, ' ')
	if i < 0 {
		return -1
	}
	v, _ := strconv.ParseInt(string(b[:i]), 10, 64)
	return v
}

// SetDriver marks the calling goroutine as the driver.
func (r *Recorder) SetDriver() { r.mu.Lock(); r.driverGID = gid(); r.mu.Unlock() }

// AllowBackground opens (or closes) the gate for background goroutines.
func (r *Recorder) AllowBackground(open bool) {
	r.mu.Lock()
	r.bgOpen = open
	r.cond.Broadcast()
	r.mu.Unlock()
}

// Freeze stops the world: every later call fails with ErrFrozen.
func (r *Recorder) Freeze() {
	r.mu.Lock()
	r.frozen = true
	r.bgOpen = true
	r.cond.Broadcast()
	r.mu.Unlock()
	r.stoppedOnce.Do(func() { close(r.Stopped) })
}

func (r *Recorder) Frozen() bool { r.mu.Lock(); defer r.mu.Unlock(); return r.frozen }

// Len returns the number of recorded events.
func (r *Recorder) Len() int { r.mu.Lock(); defer r.mu.Unlock(); return len(r.Log) }

// Snapshot returns a copy of the log.
func (r *Recorder) Snapshot() []Ev {
	r.mu.Lock()
	defer r.mu.Unlock()
	out := make([]Ev, len(r.Log))
	copy(out, r.Log)
	return out
}

// Mark appends an API marker event (invocation / return of a public call).
func (r *Recorder) Mark(call, op, res string) {
	r.mu.Lock()
	defer r.mu.Unlock()
	if r.frozen {
		return
	}
	r.Log = append(r.Log, Ev{Seq: len(r.Log), Src: "api", Call: call, Op: op, Res: res})
}

func (r *Recorder) setNames(seq int, names []string) {
	r.mu.Lock()
	if seq >= 0 && seq < len(r.Log) {
		r.Log[seq].Names = append([]string(nil), names...)
	}
	r.mu.Unlock()
}

// begin registers a call. It returns the event index, an injected fault (if
// any) and an error if the world is frozen. mutating says whether a persistent
// fault applies to this call.
func (r *Recorder) begin(e Ev, mutating bool) (int, *Fault, error) {
	g := int64(-2)
	if r.Gate {
		g = gid()
	}
	r.mu.Lock()
	defer r.mu.Unlock()
	if r.Gate && g != r.driverGID {
		e.BG = true
		for !r.bgOpen && !r.frozen {
			r.cond.Wait()
		}
		r.bgSeen++
	}
	if r.frozen {
		return -1, nil, ErrFrozen
	}
	seq := len(r.Log)
	if r.StopAt >= 0 && seq >= r.StopAt {
		r.frozen = true
		r.bgOpen = true
		r.cond.Broadcast()
		r.stoppedOnce.Do(func() { close(r.Stopped) })
		return -1, nil, ErrFrozen
	}
	e.Seq = seq
	e.Res = "ok"
	var f *Fault
	if ft, ok := r.Faults[seq]; ok {
		ft := ft
		f = &ft
		if ft.Kind == "persistent" {
			r.persistent = true
		}
	} else if r.persistent && mutating {
		f = &Fault{Kind: "persistent", Prefix: -1}
	}
	if f != nil {
		e.Res = "err"
		r.injected++
	}
	r.Log = append(r.Log, e)
	return seq, f, nil
}

func (r *Recorder) setData(seq int, fn func(e *Ev)) {
	r.mu.Lock()
	fn(&r.Log[seq])
	r.mu.Unlock()
}

// InjectedCount returns how many calls have been failed by injection so far.
func (r *Recorder) InjectedCount() int { r.mu.Lock(); defer r.mu.Unlock(); return r.injected }

// ResetInjectedIfCleared forgets earlier injections once the faults have been cleared and the
// process has been restarted cleanly (consequences of a fault last until then).
func (r *Recorder) ResetInjectedIfCleared() {
	r.mu.Lock()
	if r.cleared {
		r.injected = 0
	}
	r.mu.Unlock()
}

// ClearFaults removes all faults (used before the clean reopen).
func (r *Recorder) ClearFaults() {
	r.mu.Lock()
	r.Faults = map[int]Fault{}
	r.persistent = false
	r.cleared = true
	r.mu.Unlock()
}

func (e Ev) String() string {
	return fmt.Sprintf("#%d %s.%s %s off=%d n=%d %s", e.Seq, e.Src, e.Call, e.Name, e.Off, e.N, e.Res)
}

// GID returns the current goroutine's id (harness-side thread identification).
func GID() int64 { return gid() }
