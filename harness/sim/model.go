package sim

import (
	"crypto/sha1"
	"encoding/hex"
	"encoding/json"
	"fmt"
	"regexp"
	"sort"
	"strings"

	"github.com/hashicorp/raft-wal/types"
)

// Chunk is the unit of tearing: one 8-byte word (spec/Disk.tla "Word").
const Chunk = 8

// MFile is the model state of one file name (spec/Disk.tla: files[n]).
type MFile struct {
	Vol        []byte // page-cache content
	VolPresent bool   // visible in the volatile directory
	Dur        []byte // content as of the last fsync of the file (nil: never)
	DirDurable bool   // directory entry is durable
	PendCreate bool   // created, directory entry not yet durable
	PendUnlink bool   // unlinked, removal not yet durable
	Dirty      map[int]bool
}

// Model is the durable/volatile state after a prefix of the event log. It is a
// transcription of the actions of spec/Disk.tla.
type Model struct {
	Files   map[string]*MFile
	Meta    types.PersistentState
	HasMeta bool
	Stable  map[string][]byte
}

func NewModel(im *Image) *Model {
	m := &Model{Files: map[string]*MFile{}, Meta: cloneState(im.Meta), HasMeta: im.HasMeta, Stable: map[string][]byte{}}
	for n, b := range im.Files {
		m.Files[n] = &MFile{Vol: append([]byte(nil), b...), VolPresent: true, Dur: append([]byte(nil), b...), DirDurable: true, Dirty: map[int]bool{}}
	}
	for k, v := range im.Stable {
		m.Stable[k] = append([]byte(nil), v...)
	}
	return m
}

func (m *Model) dirSync() {
	for n, f := range m.Files {
		if f.PendUnlink {
			delete(m.Files, n)
			continue
		}
		if f.PendCreate {
			f.PendCreate = false
			f.DirDurable = true
		}
	}
}

// Apply applies one recorded event.
func (m *Model) Apply(e *Ev) {
	switch e.Call {
	case "create":
		if e.Res != "ok" && e.Res != "err-left" {
			return
		}
		if old, ok := m.Files[e.Name]; ok && old.VolPresent {
			return // create of an existing name failed in the live fs as well
		}
		// NB: a pending-unlinked file of the same name cannot occur: names embed unique ids.
		m.Files[e.Name] = &MFile{Vol: make([]byte, e.N), VolPresent: true, PendCreate: true, Dirty: map[int]bool{}}
	case "write":
		f := m.Files[e.Name]
		if f == nil || len(e.Data) == 0 {
			return
		}
		end := int(e.Off) + len(e.Data)
		if end > len(f.Vol) {
			f.Vol = append(f.Vol, make([]byte, end-len(f.Vol))...)
		}
		copy(f.Vol[e.Off:], e.Data)
		for c := int(e.Off) / Chunk; c <= (end-1)/Chunk; c++ {
			f.Dirty[c] = true
		}
	case "sync":
		if e.Res == "err" {
			return
		}
		f := m.Files[e.Name]
		if f == nil {
			return
		}
		f.Dur = append([]byte(nil), f.Vol...)
		f.Dirty = map[int]bool{}
	case "dirsync":
		if e.Res != "ok" {
			return
		}
		m.dirSync()
	case "unlink":
		if e.Res != "ok" {
			return
		}
		f := m.Files[e.Name]
		if f == nil {
			return
		}
		f.VolPresent = false
		f.PendUnlink = true
	case "mcommit":
		if e.Res != "ok" || e.Meta == nil {
			return
		}
		m.Meta = cloneState(*e.Meta)
		m.HasMeta = true
	case "sset":
		if e.Res != "ok" {
			return
		}
		if e.Del {
			delete(m.Stable, e.Key)
		} else {
			m.Stable[e.Key] = append([]byte(nil), e.Val...)
		}
	}
}

// Replay returns the model after the first k events of log.
func Replay(init *Image, log []Ev, k int) *Model {
	m := NewModel(init)
	for i := 0; i < k && i < len(log); i++ {
		m.Apply(&log[i])
	}
	return m
}

// Choice is one crash image as chosen by TLC (spec/DiskTrace.tla Crash action).
type Choice struct {
	At      int              `json:"at"`      // number of events applied before the crash
	Keep    map[string][]int `json:"keep"`    // dirty chunks that reached the disk, per file
	Len     map[string]int   `json:"len"`     // durable length in chunks, per file (absent: volatile length)
	Creates []string         `json:"creates"` // pending creations that reached the disk
	Unlinks []string         `json:"unlinks"` // pending unlinks that reached the disk
	MetaInc bool             `json:"metaInc"` // the in-flight metadata transaction (if any) committed
}

func has(xs []string, s string) bool {
	for _, x := range xs {
		if x == s {
			return true
		}
	}
	return false
}

// ImgInfo describes how a crash image relates to what was pending (evidence).
type ImgInfo struct {
	Dirty, Kept      int // un-fsynced chunks at the crash point / of those, persisted
	PendDir, DoneDir int // pending directory operations / of those, persisted
	LenChoices       int // files whose durable length differs from the volatile one
	Hash             string
}

// Trivial: nothing or everything that was pending reached the disk.
func (i ImgInfo) Trivial() bool {
	return (i.Kept == 0 || i.Kept == i.Dirty) && (i.DoneDir == 0 || i.DoneDir == i.PendDir) && i.LenChoices == 0
}

// Hash returns a content hash of an image.
func (im *Image) Hash() string {
	h := sha1.New()
	for _, n := range im.SortedNames() {
		fmt.Fprintf(h, "F %s %d\n", n, len(im.Files[n]))
		h.Write(im.Files[n])
	}
	b, _ := json.Marshal(im.Meta)
	h.Write(b)
	ks := make([]string, 0, len(im.Stable))
	for k := range im.Stable {
		ks = append(ks, k)
	}
	sort.Strings(ks)
	for _, k := range ks {
		fmt.Fprintf(h, "K %s=%x\n", k, im.Stable[k])
	}
	return hex.EncodeToString(h.Sum(nil))[:16]
}

// MaterialiseInfo is Materialise plus evidence about the image.
func MaterialiseInfo(init *Image, log []Ev, c *Choice) (*Image, ImgInfo, error) {
	var info ImgInfo
	im, err := Materialise(init, log, c)
	if err != nil {
		return nil, info, err
	}
	m := Replay(init, log, c.At)
	for n, f := range m.Files {
		info.Dirty += len(f.Dirty)
		if f.PendCreate {
			info.PendDir++
			if has(c.Creates, n) {
				info.DoneDir++
			}
		}
		if f.PendUnlink {
			info.PendDir++
			if has(c.Unlinks, n) {
				info.DoneDir++
			}
		}
		if b, ok := im.Files[n]; ok && len(b) != len(f.Vol) {
			info.LenChoices++
		}
	}
	for _, k := range c.Keep {
		info.Kept += len(k)
	}
	info.Hash = im.Hash()
	return im, info, nil
}

// Materialise computes the durable image for a crash choice.
func Materialise(init *Image, log []Ev, c *Choice) (*Image, error) {
	if c.At > len(log) {
		return nil, fmt.Errorf("crash point %d beyond log of %d events", c.At, len(log))
	}
	m := Replay(init, log, c.At)
	if c.MetaInc && c.At < len(log) {
		e := log[c.At]
		if (e.Call == "mcommit" || e.Call == "sset") && e.Res == "ok" {
			m.Apply(&e)
		}
	}
	im := &Image{Files: map[string][]byte{}, Meta: cloneState(m.Meta), HasMeta: m.HasMeta, Stable: m.Stable}
	for n, f := range m.Files {
		survive := f.DirDurable || (f.PendCreate && has(c.Creates, n))
		if f.PendUnlink && has(c.Unlinks, n) {
			survive = false
		}
		if !survive {
			continue
		}
		durLen := len(f.Dur)
		volLen := len(f.Vol)
		L := volLen
		if lc, ok := c.Len[n]; ok {
			L = lc * Chunk
		}
		if L > volLen && L > durLen {
			return nil, fmt.Errorf("file %s: length choice %d beyond volatile length %d", n, L, volLen)
		}
		b := make([]byte, L)
		copy(b, f.Dur) // positions < durLen keep durable content; beyond: zeros
		for _, p := range c.Keep[n] {
			if !f.Dirty[p] {
				return nil, fmt.Errorf("file %s: chunk %d kept but not dirty at crash point %d", n, p, c.At)
			}
			lo, hi := p*Chunk, p*Chunk+Chunk
			if hi > len(f.Vol) {
				hi = len(f.Vol)
			}
			if hi > L {
				return nil, fmt.Errorf("file %s: kept chunk %d beyond chosen length %d", n, p, L)
			}
			copy(b[lo:hi], f.Vol[lo:hi])
		}
		im.Files[n] = b
	}
	return im, nil
}

// TEv is the projection of an event handed to TLC (chunk positions, no bytes).
type TEv struct {
	Ev     string `json:"ev"` // always "io"
	Seq    int    `json:"seq"`
	Call   string `json:"call"`
	Name   string `json:"name"`
	Chunks []int  `json:"chunks"`
	Size   int    `json:"size"` // create: size in chunks
	End    int    `json:"end"`  // write: end position in chunks (exclusive)
	Res    string `json:"res"`
	Mut    bool   `json:"mut"`
	// for the I/O-order judge (spec/WalIoTrace.tla)
	ID   int    `json:"id"`   // create/unlink/write/sync: segment id parsed from the file name (-1: none)
	IDs  []int  `json:"ids"`  // mcommit: ids of the segments listed by the committed state
	Next int    `json:"next"` // mcommit: NextSegmentID
	BG   bool   `json:"bg"`   // issued by a background goroutine (rotation)
	OpK  string `json:"opk"`  // inv markers: kind of the API call
	// for the stateful engine trace specification (spec/WalImplTrace.tla)
	Segs   [][]int `json:"segs"`   // mcommit/mload: per listed segment <<id, base, min, max, sealed(0/1), indexStart>>
	AFirst int     `json:"afirst"` // inv store: first index; ret: FirstIndex() observed (-1: not observed)
	AN     int     `json:"an"`     // inv store: number of entries
	ACons  bool    `json:"acons"`  // inv store: the indexes are consecutive
	AMin   int     `json:"amin"`   // inv delete
	AMax   int     `json:"amax"`   // inv delete
	ALast  int     `json:"alast"`  // ret: LastIndex() observed (-1: not observed)
	ARes   string  `json:"ares"`   // ret: ok | err | "" (not known)
	Base   int     `json:"base"`   // create/unlink/openr/openw: BaseIndex parsed from the file name (-1: none)
	Frames string  `json:"frames"` // write: the frames the written bytes hold, one letter each: H file header, E entry, I index, C commit;
	//                                 "Z" = only zero bytes (recovery erasing torn remains), "?" = not a frame sequence
	NIdx int `json:"nidx"` // write: number of offsets in the index frame (0: none)
	WOff int `json:"woff"` // write: start position in chunks
	// write: counts of the frame letters, and whether their ORDER is header? entries* index? commit (what one batch /
	// one forced seal may be)
	NHdr       int  `json:"nhdr"`
	NEnt       int  `json:"nent"`
	NIdxF      int  `json:"nidxf"`
	NCmt       int  `json:"ncmt"`
	WellFormed bool `json:"wellformed"`
}

var batchOrder = regexp.MustCompile(`^H?E*I?C$`)

// frameKinds reads written bytes as the README's frame sequence (8-byte frame headers: type byte, 3 reserved, uint32
// length; entry = 1, index = 2, commit = 3; payloads padded to 8 bytes; a 32-byte file header with the magic at offset 0).
func frameKinds(off int64, b []byte) (string, int) {
	allZero := true
	for _, x := range b {
		if x != 0 {
			allZero = false
			break
		}
	}
	if allZero {
		return "Z", 0
	}
	out := []byte{}
	nidx := 0
	p := 0
	if off == 0 && len(b) >= 32 && b[0] == 0x0d && b[1] == 0x6b && b[2] == 0xeb && b[3] == 0x58 {
		out = append(out, 'H')
		p = 32
	}
	for p+8 <= len(b) {
		typ := b[p]
		ln := int(uint32(b[p+4]) | uint32(b[p+5])<<8 | uint32(b[p+6])<<16 | uint32(b[p+7])<<24)
		switch typ {
		case 1, 2:
			end := p + 8 + ln
			end += (8 - end%8) % 8
			if ln < 0 || end > len(b) {
				return string(out) + "?", nidx
			}
			if typ == 1 {
				out = append(out, 'E')
			} else {
				out = append(out, 'I')
				nidx = ln / 4
			}
			p = end
		case 3:
			out = append(out, 'C')
			p += 8
		default:
			return string(out) + "?", nidx
		}
		if len(out) > 4096 {
			break
		}
	}
	if p != len(b) && len(out) <= 4096 {
		return string(out) + "?", nidx
	}
	return string(out), nidx
}

func clampInt(v uint64) int {
	if v > 1<<30 {
		return 1<<30 + int(v%1000) // TLC integers are 32 bit
	}
	return int(v)
}

// Project converts a log into TLC events.
func Project(log []Ev) []TEv {
	out := make([]TEv, 0, len(log))
	for _, e := range log {
		t := TEv{Ev: "io", Seq: e.Seq, Call: e.Call, Name: e.Name, Chunks: []int{}, Res: e.Res, ID: -1, IDs: []int{}, BG: e.BG, Base: -1}
		if e.Name != "" {
			var base, id uint64
			if n, _ := fmt.Sscanf(e.Name, "%020d-%016x.wal", &base, &id); n == 2 {
				t.ID = int(id)
				t.Base = clampInt(base)
			}
		}
		t.Segs = [][]int{}
		t.AFirst, t.ALast = -1, -1
		if (e.Call == "mcommit" || e.Call == "mload") && e.Meta != nil {
			for _, s := range e.Meta.Segments {
				t.IDs = append(t.IDs, int(s.ID))
				sealed := 0
				if !s.SealTime.IsZero() {
					sealed = 1
				}
				t.Segs = append(t.Segs, []int{int(s.ID), clampInt(s.BaseIndex), clampInt(s.MinIndex), clampInt(s.MaxIndex), sealed, clampInt(s.IndexStart)})
			}
			t.Next = int(e.Meta.NextSegmentID)
		}
		if e.Call == "list" {
			for _, n := range e.Names {
				var base, id uint64
				if k, _ := fmt.Sscanf(n, "%020d-%016x.wal", &base, &id); k == 2 {
					t.IDs = append(t.IDs, int(id))
				}
			}
		}
		if e.Call == "inv" {
			var op struct {
				Op    string   `json:"op"`
				First uint64   `json:"first"`
				Idxs  []uint64 `json:"idxs"`
				Cids  []int    `json:"cids"`
				Min   uint64   `json:"min"`
				Max   uint64   `json:"max"`
			}
			json.Unmarshal([]byte(e.Op), &op)
			t.OpK = op.Op
			if op.Op == "store" {
				t.AFirst, t.AN, t.ACons = clampInt(op.First), len(op.Cids), true
				for j := range op.Cids {
					if j < len(op.Idxs) {
						if j == 0 {
							t.AFirst = clampInt(op.Idxs[0])
						}
						if op.Idxs[j] != op.Idxs[0]+uint64(j) {
							t.ACons = false
						}
					}
				}
			}
			if op.Op == "delete" {
				t.AMin, t.AMax = clampInt(op.Min), clampInt(op.Max)
			}
		}
		if e.Call == "ret" && e.Op != "" {
			var rt struct {
				Res   string `json:"res"`
				First int64  `json:"first"`
				Last  int64  `json:"last"`
			}
			if json.Unmarshal([]byte(e.Op), &rt) == nil {
				t.ARes = rt.Res
				if rt.First >= 0 {
					t.AFirst = clampInt(uint64(rt.First))
				}
				if rt.Last >= 0 {
					t.ALast = clampInt(uint64(rt.Last))
				}
			}
		}
		switch e.Call {
		case "create":
			t.Size = (e.N + Chunk - 1) / Chunk
			t.Mut = e.Res == "ok" || e.Res == "err-left"
		case "write":
			if len(e.Data) > 0 {
				end := int(e.Off) + len(e.Data)
				for c := int(e.Off) / Chunk; c <= (end-1)/Chunk; c++ {
					t.Chunks = append(t.Chunks, c)
				}
				t.End = (end + Chunk - 1) / Chunk
				t.Mut = true
				t.Frames, t.NIdx = frameKinds(e.Off, e.Data)
				t.WOff = int(e.Off) / Chunk
				t.NHdr, t.NEnt = strings.Count(t.Frames, "H"), strings.Count(t.Frames, "E")
				t.NIdxF, t.NCmt = strings.Count(t.Frames, "I"), strings.Count(t.Frames, "C")
				t.WellFormed = batchOrder.MatchString(t.Frames)
			}
		case "sync":
			t.Mut = e.Res != "err"
		case "dirsync", "unlink", "mcommit", "sset":
			t.Mut = e.Res == "ok"
		}
		out = append(out, t)
	}
	return out
}

// SortedNames lists file names of an image.
func (im *Image) SortedNames() []string {
	ns := make([]string, 0, len(im.Files))
	for n := range im.Files {
		ns = append(ns, n)
	}
	sort.Strings(ns)
	return ns
}
