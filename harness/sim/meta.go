package sim

import (
	"errors"

	"github.com/hashicorp/raft-wal/types"
)

// Meta is an in-memory types.MetaStore with atomic commits. Durability of a
// commit is decided by Model (a crash during mcommit/sset keeps old or new).
type Meta struct {
	R      *Recorder
	state  types.PersistentState
	stable map[string][]byte
	loaded bool
	closed bool
	// Closes counts Close calls.
	Closes int
	// Hook, when set, is invoked on entry of SetStable / GetStable (a schedule point inside the
	// metadata store, used by the concurrency driver).
	Hook func(call string)
}

var _ types.MetaStore = (*Meta)(nil)

var ErrMetaClosed = errors.New("sim: meta store closed")

func NewMeta(r *Recorder, im *Image) *Meta {
	m := &Meta{R: r, state: cloneState(im.Meta), stable: map[string][]byte{}}
	for k, v := range im.Stable {
		m.stable[k] = append([]byte(nil), v...)
	}
	return m
}

func (m *Meta) Load(dir string) (types.PersistentState, error) {
	seq, f, err := m.R.begin(Ev{Src: "meta", Call: "mload"}, false)
	if err != nil {
		return types.PersistentState{}, err
	}
	if f != nil {
		return types.PersistentState{}, ErrInjected
	}
	m.R.mu.Lock()
	defer m.R.mu.Unlock()
	m.loaded = true
	lc := cloneState(m.state)
	m.R.Log[seq].Meta = &lc // what the code was handed (spec/WalImplTrace.tla learns the metadata from it)
	return cloneState(m.state), nil
}

func (m *Meta) CommitState(s types.PersistentState) error {
	seq, f, err := m.R.begin(Ev{Src: "meta", Call: "mcommit"}, true)
	if err != nil {
		return err
	}
	if f != nil {
		return ErrInjected
	}
	c := cloneState(s)
	m.R.mu.Lock()
	defer m.R.mu.Unlock()
	if m.closed {
		m.R.Log[seq].Res = "err"
		return ErrMetaClosed
	}
	m.state = c
	cc := cloneState(s)
	m.R.Log[seq].Meta = &cc
	return nil
}

func (m *Meta) GetStable(key []byte) ([]byte, error) {
	_, f, err := m.R.begin(Ev{Src: "meta", Call: "sget"}, false)
	if err != nil {
		return nil, err
	}
	if f != nil {
		return nil, ErrInjected
	}
	m.R.mu.Lock()
	defer m.R.mu.Unlock()
	if m.closed {
		return nil, ErrMetaClosed
	}
	v, ok := m.stable[string(key)]
	if !ok {
		return nil, nil
	}
	return append([]byte(nil), v...), nil
}

func (m *Meta) SetStable(key, value []byte) error {
	if h := m.Hook; h != nil {
		h("sset")
	}
	seq, f, err := m.R.begin(Ev{Src: "meta", Call: "sset"}, true)
	if err != nil {
		return err
	}
	if f != nil {
		return ErrInjected
	}
	m.R.mu.Lock()
	defer m.R.mu.Unlock()
	if m.closed {
		m.R.Log[seq].Res = "err"
		return ErrMetaClosed
	}
	m.R.Log[seq].Key = string(key)
	if value == nil {
		delete(m.stable, string(key))
		m.R.Log[seq].Del = true
	} else {
		m.stable[string(key)] = append([]byte(nil), value...)
		m.R.Log[seq].Val = append([]byte(nil), value...)
	}
	return nil
}

func (m *Meta) Close() error {
	_, _, err := m.R.begin(Ev{Src: "meta", Call: "mclose"}, false)
	if err != nil {
		return err
	}
	m.R.mu.Lock()
	defer m.R.mu.Unlock()
	m.closed = true
	m.Closes++
	return nil
}

// Current returns the volatile (= last committed) metadata and stable map.
func (m *Meta) Current() (types.PersistentState, map[string][]byte) {
	m.R.mu.Lock()
	defer m.R.mu.Unlock()
	st := map[string][]byte{}
	for k, v := range m.stable {
		st[k] = append([]byte(nil), v...)
	}
	return cloneState(m.state), st
}
