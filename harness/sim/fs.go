package sim

import (
	"fmt"
	"io"
	"os"
	"sort"
	"sync"
	"sync/atomic"

	"github.com/hashicorp/raft-wal/types"
)

// FS is the live (volatile) view of the simulated directory. It implements
// types.VFS. Durability is not tracked here: it is recomputed from the event
// log by Model (model.go), which is the transcription of spec/Disk.tla.
type FS struct {
	R  *Recorder
	mu sync.RWMutex
	// files currently visible in the directory.
	files map[string]*lfile
	// Handles counts open, not yet closed file handles.
	Handles int64
	// Creates lists every name passed to Create, in order (C13).
	Creates []string
	// SyncDone counts completed (successful) Sync calls: what is durable, for the C06 clause
	// "an entry becomes visible only once its batch is durable".
	SyncDone int64
}

type lfile struct {
	mu   sync.RWMutex
	data []byte
}

// Image is a durable directory image: what a freshly started process finds.
type Image struct {
	Files  map[string][]byte
	Meta   types.PersistentState
	HasMeta bool // false: metadata store never initialised
	Stable map[string][]byte
}

func (im *Image) Clone() *Image {
	out := &Image{Files: map[string][]byte{}, Meta: cloneState(im.Meta), HasMeta: im.HasMeta, Stable: map[string][]byte{}}
	for k, v := range im.Files {
		out.Files[k] = append([]byte(nil), v...)
	}
	for k, v := range im.Stable {
		out.Stable[k] = append([]byte(nil), v...)
	}
	return out
}

func cloneState(s types.PersistentState) types.PersistentState {
	out := types.PersistentState{NextSegmentID: s.NextSegmentID}
	out.Segments = append([]types.SegmentInfo(nil), s.Segments...)
	return out
}

func EmptyImage() *Image {
	return &Image{Files: map[string][]byte{}, Stable: map[string][]byte{}}
}

// NewFS starts a live filesystem from a durable image.
func NewFS(r *Recorder, im *Image) *FS {
	fs := &FS{R: r, files: map[string]*lfile{}}
	for n, b := range im.Files {
		fs.files[n] = &lfile{data: append([]byte(nil), b...)}
	}
	return fs
}

var _ types.VFS = (*FS)(nil)

func (fs *FS) ListDir(dir string) ([]string, error) {
	seq, f, err := fs.R.begin(Ev{Src: "vfs", Call: "list"}, false)
	if err != nil {
		return nil, err
	}
	if f != nil {
		return nil, ErrInjected
	}
	fs.mu.RLock()
	defer fs.mu.RUnlock()
	names := make([]string, 0, len(fs.files))
	for n := range fs.files {
		names = append(names, n)
	}
	sort.Strings(names)
	fs.R.setNames(seq, names)
	return names, nil
}

// Names returns the current directory listing without recording a call.
func (fs *FS) Names() []string {
	fs.mu.RLock()
	defer fs.mu.RUnlock()
	names := make([]string, 0, len(fs.files))
	for n := range fs.files {
		names = append(names, n)
	}
	sort.Strings(names)
	return names
}

// Bytes returns a copy of the volatile content of a file (nil if absent).
func (fs *FS) Bytes(name string) []byte {
	fs.mu.RLock()
	lf := fs.files[name]
	fs.mu.RUnlock()
	if lf == nil {
		return nil
	}
	lf.mu.RLock()
	defer lf.mu.RUnlock()
	return append([]byte(nil), lf.data...)
}

func (fs *FS) Create(dir, name string, size uint64) (types.WritableFile, error) {
	seq, f, err := fs.R.begin(Ev{Src: "vfs", Call: "create", Name: name, N: int(size)}, true)
	if err != nil {
		return nil, err
	}
	if f != nil {
		if f.Prefix >= 0 {
			// the file was created but preallocating it failed (what fs.Create does when fallocate
			// fails after the O_EXCL open): the error is returned and an empty file stays behind
			fs.mu.Lock()
			if _, ok := fs.files[name]; !ok {
				fs.files[name] = &lfile{data: []byte{}}
				fs.Creates = append(fs.Creates, name)
				fs.R.setData(seq, func(e *Ev) { e.Res = "err-left"; e.N = 0 })
			}
			fs.mu.Unlock()
		}
		return nil, ErrInjected
	}
	fs.mu.Lock()
	defer fs.mu.Unlock()
	if _, ok := fs.files[name]; ok {
		fs.Creates = append(fs.Creates, "!"+name) // collision with an existing file
		return nil, &os.PathError{Op: "create", Path: name, Err: os.ErrExist}
	}
	fs.Creates = append(fs.Creates, name)
	lf := &lfile{data: make([]byte, size)}
	fs.files[name] = lf
	atomic.AddInt64(&fs.Handles, 1)
	return &handle{fs: fs, lf: lf, name: name, created: true, writable: true}, nil
}

func (fs *FS) Delete(dir, name string) error {
	seq, f, err := fs.R.begin(Ev{Src: "vfs", Call: "unlink", Name: name}, true)
	if err != nil {
		return err
	}
	if f != nil {
		return ErrInjected
	}
	fs.mu.Lock()
	_, ok := fs.files[name]
	if ok {
		delete(fs.files, name)
	}
	fs.mu.Unlock()
	if !ok {
		fs.R.setData(seq, func(e *Ev) { e.Res = "err" })
		return &os.PathError{Op: "remove", Path: name, Err: os.ErrNotExist}
	}
	_, f, err = fs.R.begin(Ev{Src: "vfs", Call: "dirsync", Name: name}, true)
	if err != nil {
		return err
	}
	if f != nil {
		return ErrInjected
	}
	return nil
}

func (fs *FS) open(call, name string, writable bool) (*handle, error) {
	seq, f, err := fs.R.begin(Ev{Src: "vfs", Call: call, Name: name}, false)
	if err != nil {
		return nil, err
	}
	if f != nil {
		return nil, ErrInjected
	}
	fs.mu.RLock()
	lf := fs.files[name]
	fs.mu.RUnlock()
	if lf == nil {
		fs.R.setData(seq, func(e *Ev) { e.Res = "err" })
		return nil, &os.PathError{Op: "open", Path: name, Err: os.ErrNotExist}
	}
	atomic.AddInt64(&fs.Handles, 1)
	return &handle{fs: fs, lf: lf, name: name, writable: writable}, nil
}

func (fs *FS) OpenReader(dir, name string) (types.ReadableFile, error) {
	h, err := fs.open("openr", name, false)
	if err != nil {
		return nil, err
	}
	return h, nil
}

func (fs *FS) OpenWriter(dir, name string) (types.WritableFile, error) {
	h, err := fs.open("openw", name, true)
	if err != nil {
		return nil, err
	}
	// Like a created file, a file opened for writing makes its directory entry durable on its
	// first Sync: it may have been created by an earlier process lifetime that never synced it
	// (the contract fs.OpenWriter implements since fix F16; C07 checks the real one).
	h.created = true
	return h, nil
}

type handle struct {
	fs       *FS
	lf       *lfile
	name     string
	created  bool
	writable bool
	closed   int32
	dirSynced int32
}

func (h *handle) ReadAt(p []byte, off int64) (int, error) {
	if h.fs.R.Frozen() {
		return 0, ErrFrozen
	}
	if atomic.LoadInt32(&h.closed) != 0 {
		return 0, os.ErrClosed
	}
	if hook := h.fs.R.ReadHook; hook != nil {
		hook(h.name, off, len(p))
	}
	n, err := h.readAt(p, off)
	if hook := h.fs.R.ReadDoneHook; hook != nil {
		hook(h.name, off, n)
	}
	return n, err
}

func (h *handle) readAt(p []byte, off int64) (int, error) {
	h.lf.mu.RLock()
	defer h.lf.mu.RUnlock()
	if off < 0 {
		return 0, fmt.Errorf("negative offset")
	}
	if off >= int64(len(h.lf.data)) {
		return 0, io.EOF
	}
	n := copy(p, h.lf.data[off:])
	if n < len(p) {
		return n, io.EOF
	}
	return n, nil
}

func (h *handle) WriteAt(p []byte, off int64) (int, error) {
	if !h.writable {
		return 0, os.ErrPermission
	}
	if atomic.LoadInt32(&h.closed) != 0 {
		return 0, os.ErrClosed
	}
	seq, f, err := h.fs.R.begin(Ev{Src: "vfs", Call: "write", Name: h.name, Off: off, N: len(p)}, true)
	if err != nil {
		return 0, err
	}
	n := len(p)
	if f != nil {
		n = f.Prefix
		if n < 0 {
			n = 0
		}
		if n > len(p) {
			n = len(p)
		}
		// only whole chunks reach the cache
		n -= n % 8
	}
	if n > 0 {
		h.lf.mu.Lock()
		end := int(off) + n
		if end > len(h.lf.data) {
			h.lf.data = append(h.lf.data, make([]byte, end-len(h.lf.data))...)
		}
		copy(h.lf.data[off:], p[:n])
		h.lf.mu.Unlock()
	}
	h.fs.R.setData(seq, func(e *Ev) { e.Data = append([]byte(nil), p[:n]...); e.N = n })
	if f != nil {
		return n, ErrInjected
	}
	return n, nil
}

func (h *handle) Sync() error {
	if atomic.LoadInt32(&h.closed) != 0 {
		return os.ErrClosed
	}
	if hook := h.fs.R.SyncHook; hook != nil {
		hook(h.name)
	}
	call := "sync"
	seq, f, err := h.fs.R.begin(Ev{Src: "vfs", Call: call, Name: h.name}, true)
	if err != nil {
		return err
	}
	if f != nil {
		if f.SyncApplied {
			h.fs.R.setData(seq, func(e *Ev) { e.Res = "err-applied" })
		}
		return ErrInjected
	}
	defer atomic.AddInt64(&h.fs.SyncDone, 1)
	if h.created && atomic.SwapInt32(&h.dirSynced, 1) == 0 {
		// first Sync of a file returned by Create also makes the directory
		// entry durable (the contract fs.File.Sync is meant to implement).
		_, f, err := h.fs.R.begin(Ev{Src: "vfs", Call: "dirsync", Name: h.name}, true)
		if err != nil {
			return err
		}
		if f != nil {
			atomic.StoreInt32(&h.dirSynced, 0)
			return ErrInjected
		}
	}
	return nil
}

func (h *handle) Close() error {
	if atomic.SwapInt32(&h.closed, 1) == 0 {
		atomic.AddInt64(&h.fs.Handles, -1)
	}
	return nil
}
